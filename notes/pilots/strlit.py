import subprocess, random
C='/tmp/scratch/cc/chibicc'
r=random.Random(3)
cps=[0x24,0x7f,0x80,0xa2,0x7ff,0x800,0x20ac,0xd7ff,0xe000,0xfffd,0xffff,0x10000,0x1f600,0x10ffff]+[r.randrange(0x80,0xd800) for _ in range(20)]+[r.randrange(0x10000,0x110000) for _ in range(20)]
esc=['\\n','\\t','\\\\','\\"',"\\'",'\\?','\\a','\\b','\\f','\\v','\\r','\\0','\\7','\\12','\\177','\\377','\\x1','\\x7f','\\xff','\\e']
pre={'':'char','u8':'char','u':'unsigned short','U':'unsigned','L':'int'}
cases=[]
def content(n):
    s=''
    for _ in range(n):
        k=r.random()
        if k<0.4: s+=chr(r.choice(cps))
        elif k<0.6:
            e=r.choice(esc); s+=e+('" "' if (e.startswith('\\x') or e[1:2].isdigit() or r.random()<0.2) else '')  # split to stop hex/octal greediness
        elif k<0.7:
            cp=r.choice([c for c in cps if c>=0xa0]); s+=('\\u%04x'%cp if cp<0x10000 else '\\U%08x'%cp)
        else: s+=r.choice('abcXYZ 019+')
    return s
for p in pre:
    for _ in range(60):
        c=content(r.randint(0,6))
        if p in('u','U','L'): c=c.replace('\\377','\\77').replace('\\xff','\\x7e')
        cases.append((p,f'{p}"{c}"',pre[p]))
# concatenations
for _ in range(60):
    p1=r.choice(['','u','U','L','u8']); p2=r.choice(['',p1])
    a=content(r.randint(0,3)).replace('" "',''); b=content(r.randint(0,3)).replace('" "','')
    for x in('\\377','\\xff','\\x7f','\\x1','\\177','\\12','\\7','\\0'): a=a.replace(x,'q'); b=b.replace(x,'q')
    ty=pre[p1 or p2]
    cases.append((p1+p2,f'{p1}"{a}" {p2}"{b}"',ty))
# char literals
chars=[]
for p,ty in (('','int'),('u','unsigned short'),('U','unsigned'),('L','int')):
    for e in esc+['a','~']: 
        if p and e in('\\377','\\xff'): continue
        chars.append(f"{p}'{e}'")
    for cp in cps:
        if p=='' and cp>0x7f: continue
        if p=='u' and cp>0xffff: continue
        chars.append(f"{p}'{chr(cp)}'")
src=['int printf(const char*,...);','void d(int id,void*p,int n){unsigned char*q=p;printf("%d %d ",id,n);for(int i=0;i<n;i++)printf("%02x",q[i]);printf("\\n");}']
for i,(p,lit,ty) in enumerate(cases): src.append(f'{ty} s{i}[] = {lit};')
src.append('int main(){')
for i,(p,lit,ty) in enumerate(cases): src.append(f'd({i},s{i},sizeof(s{i})); d({i},{lit},sizeof({lit}));')
for j,c in enumerate(chars): src.append(f'printf("c{j} %lx %d %d\\n",(unsigned long)({c}),(int)sizeof({c}),(int)((__typeof__({c}))-1<0));')
src.append('}')
open('sl.c','w',encoding='utf-8').write('\n'.join(src))
p=subprocess.run(['timeout','20',C,'-o','sl.chi','sl.c'],capture_output=True,text=True); print('chi',p.returncode,p.stderr[-400:] if p.returncode else '')
g=subprocess.run(['gcc','-w','-o','sl.gcc','sl.c'],capture_output=True,text=True); print('gcc',g.returncode,g.stderr[-400:])
c=subprocess.run(['clang','-w','-o','sl.clang','sl.c'],capture_output=True,text=True); print('clang',c.returncode,c.stderr[-400:])
o=[subprocess.run(['./sl.'+x],capture_output=True,text=True).stdout.split('\n') for x in('chi','gcc','clang')]
bad=dis=0
names=[x for i in range(len(cases)) for x in(cases[i][1],cases[i][1])]+chars
for i in range(len(o[1])):
    if i>=len(o[2]) or o[1][i]!=o[2][i]: dis+=1; continue
    if i>=len(o[0]) or o[0][i]!=o[1][i]:
        bad+=1
        if bad<14: print(repr(names[i]) if i<len(names) else i,'chi',o[0][i] if i<len(o[0]) else None,'ref',o[1][i])
print(len(o[1]),'lines; ref disagree',dis,'mismatch',bad)
