# Pilot v2 (exploratory, not part of the framework): type-directed initializer generator
# that is valid by construction AND carries its own model of C11 6.7.9, so every case has
# three opinions: model, gcc/clang consensus, chibicc (static / static local / auto / compound).
import random, subprocess, sys, collections, multiprocessing, tempfile, os, copy
C = os.environ.get('CHI', '/tmp/scratch/cc/chibicc')

class Sc:
    def __init__(s, ty, bf=0): s.ty, s.bf = ty, bf
class Ar:
    def __init__(s, el, n): s.el, s.n = el, n          # n None = unknown bound (top level only)
class St:
    def __init__(s, mems, union=False): s.mems, s.union = mems, union   # [(name|None, type)]

SCAL = ['char', 'unsigned char', 'short', 'int', 'unsigned', 'long', 'float', 'double', '_Bool']
BFT = {'int': 31, 'unsigned': 31, 'char': 7, 'long': 40, 'short': 15, 'unsigned char': 8}

def gen_type(r, d, cnt):
    k = r.random()
    if d <= 0 or k < 0.35:
        return Sc(r.choice(SCAL))
    if k < 0.6:
        el = gen_type(r, d - 1, cnt) if r.random() < 0.7 else Sc(r.choice(['char', 'unsigned char', 'int']))
        return Ar(el, r.randint(1, 4))
    mems = []; union = r.random() < 0.2
    for i in range(r.randint(1, 4)):
        cnt[0] += 1
        if not union and r.random() < 0.2:
            bt = r.choice(list(BFT)); w = r.randint(1, BFT[bt])
            if r.random() < 0.15: mems.append((None, Sc(bt, r.choice([0, w]) if True else w)))   # unnamed bit-field
            else: mems.append((f'b{cnt[0]}', Sc(bt, w)))
        else:
            t = gen_type(r, d - 1, cnt)
            if isinstance(t, St) and r.random() < 0.25: mems.append((None, t))
            else: mems.append((f'm{cnt[0]}', t))
    if all(n is None and isinstance(t, Sc) for n, t in mems):      # only unnamed bit-fields: add a real member
        cnt[0] += 1; mems.append((f'm{cnt[0]}', Sc('int')))
    return St(mems, union)

def decl(t, name):
    if isinstance(t, Sc): return f'{t.ty} {name}' + (f' : {t.bf}' if (t.bf or (name == '' and t.bf == 0 and False)) else '') if not (name == '' ) else f'{t.ty} : {t.bf}'
    if isinstance(t, Ar): return decl(t.el, f'{name}[{"" if t.n is None else t.n}]')
    return f'{"union" if t.union else "struct"} {{ ' + ' '.join(decl(mt, mn or '') + ';' for mn, mt in t.mems) + f' }} {name}'

def is_unnamed_bf(mn, mt): return mn is None and isinstance(mt, Sc)
def subs(t):
    """positional subobjects: list of (key, designator text or None, type). Unnamed bit-fields do not take part."""
    if isinstance(t, Ar):
        n = t.n if t.n is not None else 6
        return [(i, f'[{i}]', t.el) for i in range(n)]
    out = []
    for i, (mn, mt) in enumerate(t.mems):
        if is_unnamed_bf(mn, mt): continue
        out.append((i, (f'.{mn}' if mn else None), mt))
    return out
def nsubs(t):
    s = subs(t)
    return 1 if isinstance(t, St) and t.union else len(s)

# ---- model of an object value -------------------------------------------------------------
def zero(t):
    if isinstance(t, Sc): return 0
    if isinstance(t, Ar): return [zero(t.el) for _ in range(t.n if t.n is not None else 0)]
    if t.union:
        s = subs(t); return {'u': 0, 'v': zero(s[0][2])}
    return {k: zero(mt) for k, d, mt in subs(t)}
def cval(ty, v, bf):
    if ty in ('float', 'double'): return float(v)
    if ty == '_Bool': return 1 if v else 0
    return v

class IG:
    def __init__(s, r): s.r = r; s.k = 0; s.feat = set()
    def scal(s, t):
        s.k += 1; v = s.k
        if t.ty in ('float', 'double'): return f'{v}.5', v + 0.5
        if t.ty == '_Bool': return str(v % 2), v % 2
        if t.bf:
            lim = (1 << (t.bf - 1)) if t.ty not in ('unsigned', 'unsigned char') else (1 << t.bf)
            v = v % lim; return str(v), v
        if t.ty in ('char', 'unsigned char'):
            v = 97 + v % 26
            return (f"'{chr(v)}'" if s.r.random() < 0.5 else str(v)), v
        return str(v), v
    def is_chararr(s, t): return isinstance(t, Ar) and isinstance(t.el, Sc) and t.el.ty in ('char', 'unsigned char') and not t.el.bf
    def strlit(s, t, unknown=False):
        n = t.n if t.n is not None else s.r.randint(1, 5)
        ln = s.r.randint(0, n if not unknown else n - 1)
        s.k += 1; txt = ''.join(chr(97 + (s.k + i) % 26) for i in range(ln))
        vals = [ord(c) for c in txt] + [0] * (n - ln)
        if unknown: vals = [ord(c) for c in txt] + [0]
        return '"' + txt + '"', vals[:n] if not unknown else vals
    # whole-object initializer: returns (text, model)
    def init(s, t, top=False):
        r = s.r
        if isinstance(t, Sc):
            txt, v = s.scal(t)
            if r.random() < 0.06: s.feat.add('scalar_braces'); return '{ ' + txt + ' }', v
            return txt, v
        if s.is_chararr(t) and r.random() < 0.45:
            s.feat.add('string'); txt, vals = s.strlit(t, unknown=(t.n is None))
            return (('{ ' + txt + ' }') if r.random() < 0.2 else txt), vals
        txt, m = s.lst(t)
        return '{ ' + txt + ' }', m
    def lst(s, T):
        r = s.r; items = []; nitems = 0
        model = zero(T) if not (isinstance(T, Ar) and T.n is None) else []
        # frames: [agg type, next index into subs(agg), model ref]
        stack = [[T, 0, model]]
        def ensure_len(fr, i):
            A, m = fr[0], fr[2]
            if isinstance(A, Ar) and A.n is None:
                while len(m) <= i: m.append(zero(A.el))
        def setsub(fr, pos, val):
            A, m = fr[0], fr[2]; key, d, ty = subs(A)[pos]
            if isinstance(A, Ar): ensure_len(fr, key); m[key] = val
            elif A.union: m['u'] = pos; m['v'] = val
            else: m[key] = val
        def getsub(fr, pos):
            A, m = fr[0], fr[2]; key, d, ty = subs(A)[pos]
            if isinstance(A, Ar): ensure_len(fr, key); return m[key]
            if A.union:
                if m['u'] != pos: m['u'] = pos; m['v'] = zero(ty)
                return m['v']
            return m[key]
        def limit(A): return nsubs(A)
        while True:
            if nitems > 0 and r.random() < 0.12: s.feat.add('short'); break
            if nitems > 14: break
            # ---- designator item (always relative to T)
            if r.random() < 0.22:
                fr = [T, 0, model]; text = ''; newstack = []; ok = True; depth = 0
                while True:
                    A = fr[0]; sl = subs(A)
                    cand = [p for p, (k, d, ty) in enumerate(sl) if d is not None]
                    if isinstance(A, Ar) and A.n is None: cand = list(range(5))
                    if not cand: ok = False; break
                    pos = r.choice(cand); key, d, ty = sl[pos]
                    text += d; depth += 1
                    nxt = pos + 1 if not (isinstance(A, St) and A.union) else 10**6   # union complete after its member
                    newstack.append([A, nxt, fr[2]])
                    if isinstance(ty, Sc) or r.random() < 0.5:
                        target_fr, target_pos, target_ty = newstack[-1], pos, ty; break
                    sub_m = getsub(fr, pos)
                    fr = [ty, 0, sub_m]
                if ok:
                    s.feat.add('desig');
                    if depth > 1: s.feat.add('nested_desig')
                    # the designated object gets its own initializer (scalar, braced, string) or, with a scalar
                    # initializer for an aggregate target, brace elision descends into it
                    if isinstance(target_ty, Sc) or r.random() < 0.7 or (isinstance(target_ty, St) and target_ty.union and False):
                        txt, val = s.init(target_ty)
                        setsub(target_fr, target_pos, val)
                        items.append(text + ' = ' + txt); nitems += 1; stack = newstack
                    else:
                        # elided: descend to first leaf
                        s.feat.add('desig_elide')
                        cur_fr = target_fr; cur_pos = target_pos; cur_ty = target_ty
                        stack = newstack
                        while not isinstance(cur_ty, Sc):
                            sub_m = getsub(cur_fr, cur_pos)
                            nf = [cur_ty, 1 if not (isinstance(cur_ty, St) and cur_ty.union) else 10**6, sub_m]
                            stack.append(nf); cur_fr = nf; cur_pos = 0; cur_ty = subs(cur_ty)[0][2]
                        txt, val = s.scal(cur_ty); setsub(cur_fr, 0, val)
                        items.append(text + ' = ' + txt); nitems += 1
                    if len(stack) > 1: s.feat.add('resume_after_desig')
                    continue
            # ---- positional item
            while stack and stack[-1][1] >= (limit(stack[-1][0]) if not (isinstance(stack[-1][0], Ar) and stack[-1][0].n is None) else r.randint(1, 5) if False else 6):
                stack.pop()
            if not stack: break
            fr = stack[-1]; A, i, m = fr[0], fr[1], fr[2]
            if isinstance(A, Ar) and A.n is None and i >= 5: break
            key, d, ty = subs(A)[i]; fr[1] = i + 1
            if isinstance(A, St) and A.union: fr[1] = 10**6
            if len(stack) > 1: s.feat.add('elision_cont')
            fresh = len(fr) > 3 and fr[3]      # frame entered by elision and nothing consumed yet
            if len(fr) > 3: fr[3] = False
            if isinstance(ty, Sc):
                txt, val = s.scal(ty); setsub(fr, i, val); items.append(txt); nitems += 1
            elif s.is_chararr(ty) and r.random() < 0.4:
                s.feat.add('string'); txt, vals = s.strlit(ty); setsub(fr, i, vals); items.append(txt); nitems += 1
            elif r.random() < 0.5 and not fresh:
                txt, val = s.init(ty)
                while not txt.startswith('{') and not txt.startswith('"'): txt, val = s.init(ty)
                setsub(fr, i, val); items.append(txt); nitems += 1
            else:
                s.feat.add('elision'); sub_m = getsub(fr, i)
                stack.append([ty, 0, sub_m, True])
        if not items:
            return '0', model if not (isinstance(T, Ar) and T.n is None) else [zero(T.el)]
        return ', '.join(items) + (',' if r.random() < 0.15 else ''), model

def leaves_model(t, m, path):
    """yield (path expr, value) following the model (active union members only)"""
    if isinstance(t, Sc): yield path, m
    elif isinstance(t, Ar):
        for i, x in enumerate(m): yield from leaves_model(t.el, x, f'{path}[{i}]')
    elif t.union:
        key, d, ty = subs(t)[m['u']]
        yield from leaves_model(ty, m['v'], f'{path}{d}' if d else path)
    else:
        for key, d, ty in subs(t): yield from leaves_model(ty, m[key], f'{path}{d}' if d else path)

def fmt(v):
    return ('%g' % v)

def run(seed):
    r = random.Random(seed); src = ['int printf(const char*,...);']; body = []; cases = []
    for i in range(10):
        cnt = [0]; t = gen_type(r, 3, cnt)
        if isinstance(t, Sc): t = Ar(t, 3)
        unknown = isinstance(t, Ar) and r.random() < 0.3
        if unknown: t = Ar(t.el, None)
        g = IG(r); ini, model = g.init(t, top=True)
        if not ini.startswith('{') and not ini.startswith('"'): ini = '{ ' + ini + ' }'
        tn = f'T{i}'
        src.append('typedef ' + decl(t, tn) + ';'); src.append(f'{tn} g{i} = {ini};')
        use_c = ini.startswith('{') and not unknown
        lv = list(leaves_model(t, model, ''))
        exp = ' '.join(fmt(v) for p, v in lv)
        dump = ''
        for nm in (('g', 's', 'l', 'c') if use_c else ('g', 's', 'l')):
            obj = {'g': f'g{i}', 's': f's{i}', 'l': f'l{i}', 'c': f'(*c{i})'}[nm]
            dump += f'  printf("{i}{nm} n=%d:",(int)sizeof({obj}));' + ''.join(f' printf(" %g",(double){obj}{p});' for p, v in lv) + ' printf("\\n");\n'
        body.append(f'void f{i}(void){{\n  static {tn} s{i} = {ini};\n  {tn} l{i} = {ini};\n  ' + (f'{tn} *c{i} = &({tn}){ini};' if use_c else '') + f'\n{dump}}}')
        cases.append((i, tuple(sorted(g.feat)), decl(t, tn), ini, exp))
    text = '\n'.join(src + body) + '\nint main(){' + ''.join(f'f{i}();' for i in range(10)) + '}\n'
    d = tempfile.mkdtemp(prefix='in'); f = f'{d}/t.c'; open(f, 'w').write(text)
    try:
        g_ = subprocess.run(['gcc', '-w', '-O0', '-o', f'{d}/gcc', f], capture_output=True, text=True)
        c_ = subprocess.run(['clang', '-w', '-O0', '-o', f'{d}/clang', f], capture_output=True, text=True)
        if g_.returncode or c_.returncode: return seed, 'ref-fail', (g_.stderr or c_.stderr)[:700], []
        o = {x: subprocess.run([f'{d}/{x}'], capture_output=True, text=True, timeout=10).stdout.split('\n') for x in ('gcc', 'clang')}
        try:
            p = subprocess.run([C, '-o', f'{d}/chi', f], capture_output=True, text=True, timeout=20)
            o['chi'] = subprocess.run([f'{d}/chi'], capture_output=True, text=True, timeout=10).stdout.split('\n') if p.returncode == 0 else None
        except subprocess.TimeoutExpired: p = None; o['chi'] = None
        bad = []
        for i, feat, dd, ini, exp in cases:
            def sel(oo): return [l.split(':', 1)[1].strip() for l in oo if l.startswith(f'{i}')] if oo else None
            a, b, c2 = sel(o['chi']), sel(o['gcc']), sel(o['clang'])
            if b != c2: bad.append(('REFDIS', feat, dd, ini, [])); continue
            if any(x != exp for x in b): bad.append(('MODEL', feat, dd, ini, [exp, b[0]])); continue
            if a is None:
                one = f'typedef {dd};\nT{i} g{i} = {ini};\nvoid f(void){{ static T{i} s = {ini}; T{i} l = {ini}; }}\n'
                open(f'{d}/one.c', 'w').write(one)
                try: q = subprocess.run([C, '-c', '-o', '/dev/null', f'{d}/one.c'], capture_output=True, text=True, timeout=20); qrc = q.returncode; qe = q.stderr.strip().split('\n')[-1] if q.stderr else ''
                except subprocess.TimeoutExpired: qrc = 'timeout'; qe = ''
                if qrc != 0: bad.append(('CHIFAIL', feat, dd, ini, [qe]))
                else: bad.append(('CHISKIP', feat, '', '', []))
                continue
            if a != b: bad.append(('MIS', feat, dd, ini, [(x, y) for x, y in zip(a, b) if x != y][:2]))
            else: bad.append(('OK', feat, '', '', []))
        return seed, 'ok', '', bad
    finally: subprocess.run(['rm', '-rf', d])

if __name__ == '__main__':
    with multiprocessing.Pool(16) as p: res = p.map(run, range(int(sys.argv[1])))
    cnt = collections.Counter(); bad = []
    for seed, st, msg, b in res:
        cnt[st] += 1
        if st != 'ok' and cnt[st] <= 2: print(seed, st, msg)
        for x in b:
            cnt[x[0]] += 1
            if x[0] != 'OK': bad.append(x)
    print(cnt)
    want = sys.argv[3] if len(sys.argv) > 3 else None
    bad = [b for b in bad if not want or b[0] == want]
    bad.sort(key=lambda b: len(b[2]) + len(b[3]))
    for k, feat, dd, ini, diff in bad[:int(sys.argv[2])]: print('---', k, feat, '\n ', dd, '=', ini, '\n ', diff)
