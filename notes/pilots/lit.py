import subprocess, itertools, collections
C='/tmp/scratch/cc/chibicc'
th=[0,1,7,8,2**31-2,2**31-1,2**31,2**31+1,2**32-2,2**32-1,2**32,2**32+1,2**63-2,2**63-1,2**63,2**63+1,2**64-2,2**64-1,12345678901]
suf=['','u','U','l','L','ul','uL','Ul','UL','lu','lU','Lu','LU','ll','LL','ull','uLL','Ull','ULL','llu','llU','LLu','LLU']
def spell(v,b):
    if b==10: return str(v)
    if b==16: return hex(v) if v%2 else '0X'+('%X'%v)
    if b==8: return '0'+oct(v)[2:] if v else '0'
    return '0b'+bin(v)[2:]
cases=[]
for v in th:
    for b in (10,16,8,2):
        for s in suf:
            if b==10 and s.lower() in('','l','ll') and v>=2**63: continue  # no type fits: undefined/extension
            cases.append(spell(v,b)+s)
src=['int printf(const char*,...);','int main(){']
for i,c in enumerate(cases):
    src.append(f'printf("{i} %lx %d %d\\n",(unsigned long)({c}),(int)sizeof({c}),(int)((__typeof__({c}))-1<0));')
src.append('}')
open('lit.c','w').write('\n'.join(src))
p=subprocess.run(['timeout','20',C,'-o','lit.chi','lit.c'],capture_output=True,text=True); print(p.returncode,p.stderr[-300:])
g=subprocess.run(['gcc','-w','-o','lit.gcc','lit.c'],capture_output=True,text=True); print(g.returncode,g.stderr[-300:])
c=subprocess.run(['clang','-w','-o','lit.clang','lit.c'],capture_output=True,text=True); print(c.returncode,c.stderr[-300:])
o=[subprocess.run(['./lit.'+x],capture_output=True,text=True).stdout.split('\n') for x in('chi','gcc','clang')]
bad=0;dis=0
for i,cs in enumerate(cases):
    if o[1][i]!=o[2][i]: dis+=1; continue
    if o[0][i]!=o[1][i]:
        bad+=1
        if bad<15: print(cs,'chi',o[0][i],'ref',o[1][i])
print(len(cases),'cases; ref disagree',dis,'mismatch',bad)
