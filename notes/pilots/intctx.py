import random, subprocess, sys, collections, multiprocessing, tempfile
from intgen import *
OPS=['+','-','*','/','%','&','|','^','<<','>>']
def binval(op,x,y,ct):
    # x,y already in ct ; return None if undefined
    if op in '/%':
        if y==0 or (ct.signed and x==ct.min() and y==-1): return None
        q=abs(x)//abs(y); q=q if (x<0)==(y<0) else -q
        return q if op=='/' else x-q*y
    if op=='+': r=x+y
    elif op=='-': r=x-y
    elif op=='*': r=x*y
    elif op=='&': r=x&y
    elif op=='|': r=x|y
    elif op=='^': r=x^y
    if ct.signed and not(ct.min()<=r<=ct.max()): return None
    return conv(r,ct)
def gen_case(rng,i):
    g=Gen(rng); kind=rng.choice(['opassign','incdec','argret','cond','init','assignchain'])
    lines=[]; exp=[]
    def decls(): return ''.join(f'  volatile {t.name} {n} = {lit(rng,t,v)};\n' for n,t,v in g.vars)
    if kind=='opassign':
        lt=rng.choice(TYPES); lv=conv(rng.choice(BOUND(lt)),lt); e=g.expr(rng.randint(0,2)); op=rng.choice(OPS)
        if op in('<<','>>'):
            pt=promote(lt); x=conv(lv,pt); c=conv(e.v,promote(e.t))
            if not(0<=c<pt.bits): return None
            if op=='<<':
                if pt.signed and (x<0 or (x<<c)>pt.max()): return None
                r=x<<c
            else: r=x>>c
            res=conv(r,lt)
        else:
            ct=common(lt,e.t); r=binval(op,conv(lv,ct),conv(e.v,ct),ct)
            if r is None: return None
            res=conv(r,lt)
        body=f'  {lt.name} x = {lit(rng,lt,lv)};\n  unsigned long r = (unsigned long)(x {op}= {e.txt});\n  printf("{i} %lx %lx %d\\n", r, (unsigned long)x, (int)sizeof(x {op}= {e.txt}));\n'
        exp=f'{i} {conv(res,ULONG):x} {conv(res,ULONG):x} {size(lt)}'
        return decls()+body,exp,f'{lt.name} x={lv}; x {op}= {e.txt}'
    if kind=='incdec':
        lt=rng.choice(TYPES); lv=conv(rng.choice(BOUND(lt)),lt); form=rng.choice(['x++','x--','++x','--x'])
        d=1 if '+' in form else -1
        pt=promote(lt); nv=conv(lv,pt)+d
        if pt.signed and not(pt.min()<=nv<=pt.max()): return None
        newv=conv(nv,lt); val=lv if form[0]=='x' else newv
        body=f'  {lt.name} x = {lit(rng,lt,lv)};\n  unsigned long r = (unsigned long)({form});\n  printf("{i} %lx %lx %d\\n", r, (unsigned long)x, (int)sizeof({form}));\n'
        exp=f'{i} {conv(val,ULONG):x} {conv(newv,ULONG):x} {size(lt)}'
        return body,exp,f'{lt.name} x={lv}; {form}'
    if kind=='argret':
        pt_=rng.choice(TYPES); rt=rng.choice(TYPES); e=g.expr(rng.randint(0,2))
        res=conv(conv(e.v,pt_),rt)
        pre=f'{rt.name} f{i}({pt_.name} p){{ return p; }}\n'
        body=f'  printf("{i} %lx %d\\n", (unsigned long)f{i}({e.txt}), (int)sizeof(f{i}({e.txt})));\n'
        return (pre,decls()+body),f'{i} {conv(res,ULONG):x} {size(rt)}',f'{rt.name} f({pt_.name}) <- {e.txt}'
    if kind=='cond':
        e=g.expr(rng.randint(0,3))
        body=f'  int a=0,b=0,c=0; if ({e.txt}) a=1; while ({e.txt}) {{ b=1; break; }} c = {e.txt} ? 1 : 0; for(;{e.txt};){{c+=2;break;}}\n  printf("{i} %d %d %d\\n",a,b,c);\n'
        t=int(e.v!=0)
        return decls()+body,f'{i} {t} {t} {t+2*t}',f'cond {e.txt}'
    if kind=='init':
        lt=rng.choice(TYPES); e=g.expr(rng.randint(0,3)); res=conv(e.v,lt)
        body=f'  {lt.name} x = {e.txt}; {lt.name} y; y = {e.txt};\n  printf("{i} %lx %lx\\n",(unsigned long)x,(unsigned long)y);\n'
        return decls()+body,f'{i} {conv(res,ULONG):x} {conv(res,ULONG):x}',f'{lt.name} x = {e.txt}'
    if kind=='assignchain':
        t1=rng.choice(TYPES); t2=rng.choice(TYPES); e=g.expr(rng.randint(0,2))
        v2=conv(e.v,t2); v1=conv(v2,t1)
        body=f'  {t1.name} a; {t2.name} b; unsigned long r = (unsigned long)(a = b = {e.txt});\n  printf("{i} %lx %lx %lx\\n", r,(unsigned long)a,(unsigned long)b);\n'
        return decls()+body,f'{i} {conv(v1,ULONG):x} {conv(v1,ULONG):x} {conv(v2,ULONG):x}',f'{t1.name} a = {t2.name} b = {e.txt}'
def run(seed):
    rng=random.Random(seed); pre=['int printf(const char*,...);']; fns=[]; cases=[]
    i=0
    while i<60:
        c=gen_case(rng,i)
        if c is None: continue
        body,exp,desc=c
        if isinstance(body,tuple): pre.append(body[0]); body=body[1]
        fns.append(f'void c{i}(void){{\n{body}}}'); cases.append((desc,exp,body)); i+=1
    src='\n'.join(pre+fns)+'\nint main(){'+''.join(f'c{k}();' for k in range(60))+'return 0;}\n'
    d=tempfile.mkdtemp(prefix='ic'); f=f'{d}/t.c'; open(f,'w').write(src)
    p=subprocess.run([C,'-o',f'{d}/chi',f],capture_output=True,text=True)
    if p.returncode!=0: return seed,'chibicc-fail',p.stderr[-400:],[]
    g=subprocess.run(['gcc','-w','-O0','-o',f'{d}/gcc',f],capture_output=True,text=True)
    if g.returncode!=0: return seed,'gcc-fail',g.stderr[-400:],[]
    o1=subprocess.run([f'{d}/chi'],capture_output=True,text=True).stdout.split('\n')
    o2=subprocess.run([f'{d}/gcc'],capture_output=True,text=True).stdout.split('\n')
    bad=[]
    for k,(desc,exp,body) in enumerate(cases):
        a=o1[k] if k<len(o1) else '?'; b=o2[k] if k<len(o2) else '?'
        if b!=exp: bad.append(('MODEL',desc,'',exp,b,a))
        elif a!=b: bad.append(('CHI',desc,'',exp,b,a))
    subprocess.run(['rm','-rf',d])
    return seed,'ok','',bad
if __name__=='__main__':
    n=int(sys.argv[1])
    with multiprocessing.Pool(16) as p: res=p.map(run,range(n))
    cnt=collections.Counter(); shown=0
    for seed,st,msg,bad in res:
        cnt[st]+=1
        if st!='ok' and shown<3: print(seed,st,msg); shown+=1
        for b in bad: cnt[b[0]]+=1
    print(cnt)
    allbad=[b for r in res for b in r[3]]; allbad.sort(key=lambda b:len(b[1]))
    for b in allbad[:int(sys.argv[2])]: print(b[0],b[1],'\n   exp',b[3],'gcc',b[4],'chi',b[5])
