#include <cstdint>
#include <cstddef>
#include <map>
#include <string>
#include <vector>
#include <cstdlib>
extern "C" {
typedef struct { char *key; int keylen; void *val; } HashEntry;
typedef struct { HashEntry *buckets; int capacity; int used; } HashMap;
void *hashmap_get2(HashMap *map, char *key, int keylen);
void hashmap_put2(HashMap *map, char *key, int keylen, void *val);
void hashmap_delete2(HashMap *map, char *key, int keylen);
}
static std::vector<std::string> POOL;
static uint64_t fnv(const std::string &s){ uint64_t h=0xcbf29ce484222325ULL; for(unsigned char c: s){ h*=0x100000001b3ULL; h^=c; } return h; }
extern "C" int LLVMFuzzerInitialize(int*,char***){ for(int g=0; g<4; g++){ int found=0; for(int i=0; found<8 && i<1000000; i++){ std::string s="k"+std::to_string(i); if((fnv(s)&63)==(unsigned)(g*5+1)){ POOL.push_back(s); found++; } } } return 0; }
extern "C" int LLVMFuzzerTestOneInput(const uint8_t *d, size_t n){
  HashMap map{}; std::map<std::string,long> m;
  for(size_t i=0;i+1<n;i+=2){ int op=d[i]>>6; std::string &k=POOL[d[i]%POOL.size()]; long v=d[i+1]+1;
    if(op<2){ hashmap_put2(&map,(char*)k.data(),k.size(),(void*)v); m[k]=v; } else if(op==2){ hashmap_delete2(&map,(char*)k.data(),k.size()); m.erase(k);} 
    for(auto &key: POOL){ void *g=hashmap_get2(&map,(char*)key.data(),key.size()); auto it=m.find(key); if((long)g != (it==m.end()?0:it->second)) __builtin_trap(); } }
  free(map.buckets); return 0; }
