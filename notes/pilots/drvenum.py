# Pilot (exploratory): enumerate driver command shapes x single fault points, compare with a model
# of the driver contract. Uses shim/ (as, ld, cc1shim) and preload.c from this directory.
import subprocess, os, sys, itertools, tempfile, shutil, glob, collections, multiprocessing
HERE = os.path.dirname(os.path.abspath(__file__))
CHI = os.environ.get('CHI', '/tmp/scratch/s12/s1/chibicc')

SRC = {'good.c': 'int g%d(void){return %d;}\n', 'bad.c': 'int b%d(void){return %d ;;;+}\n', 'goodasm.s': '.globl a%d\na%d:\n  ret\n', 'badasm.s': '  thisisnotaninsn %d, %d\n'}

def setup(d):
    os.makedirs(f'{d}/shim', exist_ok=True)
    open(f'{d}/shim/cc1shim', 'w').write(f'''#!/bin/bash
n=$(cat "$CNT.cc1" 2>/dev/null || echo 0); n=$((n+1)); echo $n > "$CNT.cc1"
if [ "$FAULT" = "cc1:$n:exit" ]; then echo "shim: cc1 fails" >&2; exit 1; fi
if [ "$FAULT" = "cc1:$n:sig" ]; then kill -SEGV $$; fi
exec {CHI} "$@"
''')
    for tool in ('as', 'ld'):
        open(f'{d}/shim/{tool}', 'w').write(f'''#!/bin/bash
n=$(cat "$CNT.{tool}" 2>/dev/null || echo 0); n=$((n+1)); echo $n > "$CNT.{tool}"
if [ "$FAULT" = "{tool}:$n:exit" ]; then echo "shim: {tool} fails" >&2; exit 1; fi
if [ "$FAULT" = "{tool}:$n:sig" ]; then kill -KILL $$; fi
exec /usr/bin/{tool} "$@"
''')
    for f in ('cc1shim', 'as', 'ld'): os.chmod(f'{d}/shim/{f}', 0o755)
    subprocess.run(['gcc', '-shared', '-fPIC', '-o', f'{d}/preload.so', f'{HERE}/preload.c', '-ldl'], check=True)

def model(mode, has_o, inputs, fault):
    """returns (expect_fail, set of outputs that must exist, set that must not be created)"""
    # pipeline per input
    steps = []   # (tool, input index)
    outs = {}
    ncc1 = nas = 0; fail_at = None
    for i, (name, kind) in enumerate(inputs):
        base = name.rsplit('.', 1)[0]
        if kind in ('good.c', 'bad.c', 'missing.c'):
            if mode in ('-E', '-S'):
                ncc1 += 1; steps.append(('cc1', ncc1, i, kind))
            elif mode == '-c':
                ncc1 += 1; steps.append(('cc1', ncc1, i, kind)); nas += 1; steps.append(('as', nas, i, kind))
            else:
                ncc1 += 1; steps.append(('cc1', ncc1, i, kind)); nas += 1; steps.append(('as', nas, i, kind))
        elif kind in ('goodasm.s', 'badasm.s'):
            if mode in ('-c', 'link'): nas += 1; steps.append(('as', nas, i, kind))
    if mode == 'link': steps.append(('ld', 1, None, None))
    done_units = set(); failed = False
    for tool, n, i, kind in steps:
        bad_input = (tool == 'cc1' and (kind == 'missing.c' or (kind == 'bad.c' and mode != '-E'))) or (tool == 'as' and kind == 'badasm.s')
        injected = fault is not None and fault[0] == tool and fault[1] == n
        if bad_input or injected: failed = True; break
        if i is not None and (tool == 'as' or mode in ('-E', '-S')): done_units.add(i)
    must = set(); mustnot = set()
    for i, (name, kind) in enumerate(inputs):
        base = name.rsplit('.', 1)[0]
        if mode == '-S' and kind.endswith('.c'): out = 'out' if has_o else base + '.s'
        elif mode == '-c' and (kind.endswith('.c') or kind.endswith('.s')): out = 'out' if has_o else base + '.o'
        else: out = None
        if out:
            (must if i in done_units else mustnot).add(out)
    if mode == 'link':
        out = 'out' if has_o else 'a.out'
        (mustnot if failed else must).add(out)
    if mode == '-E' and has_o and not failed: must.add('out')
    return failed, must, mustnot - must

def one(job):
    mode, has_o, kinds, fault = job
    d = tempfile.mkdtemp(prefix='dv'); setup(d)
    try:
        inputs = []
        for i, k in enumerate(kinds):
            ext = '.c' if k.endswith('.c') else '.s'
            name = f'u{i}{ext}'
            if k != 'missing.c': open(f'{d}/{name}', 'w').write(SRC[k] % (i, i))
            inputs.append((name, k))
        if mode == 'link':
            open(f'{d}/mainx.c', 'w').write('int main(void){return 0;}\n'); inputs.append(('mainx.c', 'good.c'))
        args = ([] if mode == 'link' else [mode]) + (['-o', 'out'] if has_o else []) + [n for n, k in inputs]
        exp_fail, must, mustnot = model(mode, has_o, inputs, fault)
        # pre-existing sentinels for outputs that must not be touched
        for f in mustnot: open(f'{d}/{f}', 'w').write('SENTINEL')
        env = dict(os.environ); env['PATH'] = f'{d}/shim:' + env['PATH']; env['CNT'] = f'{d}/cnt'; env['LD_PRELOAD'] = f'{d}/preload.so'; env['VERIF_TMPLOG'] = f'{d}/tmplog'
        env['FAULT'] = ':'.join(map(str, fault)) if fault else ''
        p = subprocess.run([f'{d}/shim/cc1shim'] + args, executable=CHI, cwd=d, env=env, capture_output=True, text=True, timeout=60)
        problems = []
        if exp_fail and p.returncode == 0: problems.append('exit 0 despite failure')
        if not exp_fail and p.returncode != 0: problems.append(f'exit {p.returncode} without failure: {p.stderr[-100:]}')
        for f in must:
            if not os.path.exists(f'{d}/{f}'): problems.append(f'missing output {f}')
        for f in mustnot:
            # a stale output may be removed (GNU as and gcc do that too) but never rewritten
            if os.path.exists(f'{d}/{f}') and open(f'{d}/{f}', errors='replace').read() != 'SENTINEL': problems.append(f'output of failed unit touched: {f}')
        log = open(f'{d}/tmplog').read().split('\n') if os.path.exists(f'{d}/tmplog') else []
        left = [l.split()[2] for l in log if l and os.path.exists(l.split()[2])]
        if left: problems.append(f'temporaries left: {left}')
        for l in left: os.remove(l)
        return job, problems
    finally: shutil.rmtree(d, ignore_errors=True)

if __name__ == '__main__':
    jobs = []
    kinds_all = ['good.c', 'bad.c', 'missing.c', 'goodasm.s', 'badasm.s']
    for mode in ('-S', '-c', 'link', '-E'):
        for n in (1, 2, 3):
            for kinds in itertools.product(kinds_all, repeat=n):
                if n == 3 and len(set(kinds)) == 3 and kinds[0] > kinds[1]: continue   # thin out
                if mode == '-E' and any(k.endswith('.s') for k in kinds): continue
                for has_o in (False, True):
                    if has_o and mode in ('-S', '-c', '-E') and n > 1: continue          # driver rejects it up front
                    faults = [None]
                    for tool in ('cc1', 'as', 'ld'):
                        for k in range(1, n + 2):
                            for how in ('exit', 'sig'): faults.append((tool, k, how))
                    for fault in faults:
                        jobs.append((mode, has_o, kinds, fault))
    if len(sys.argv) > 1: jobs = jobs[::int(sys.argv[1])]
    with multiprocessing.Pool(16) as p: res = p.map(one, jobs, chunksize=8)
    bad = [(j, pr) for j, pr in res if pr]
    print(len(jobs), 'shape x fault combinations;', len(bad), 'deviate from the model')
    c = collections.Counter(pr[0].split(':')[0] for j, pr in bad); print(c)
    for j, pr in bad[:12]: print(j, pr)
