import random, subprocess, os, sys, glob, re, collections
C='/tmp/scratch/cc/chibicc'; D='/tmp/scratch/cc'
def asm(path):
    p=subprocess.run(['timeout','20','./chibicc','-Iinclude','-Itest','-S','-o-',path],cwd=D,capture_output=True)
    return p.returncode, b'\n'.join(l for l in p.stdout.split(b'\n') if not re.match(rb'\s+\.(loc|file)',l)), p.stderr[-200:]
r=random.Random(5); res=collections.Counter()
for f in sorted(glob.glob(D+'/test/*.c')):
    src=open(f,'rb').read()
    if b'__LINE__' in src or b'pragma-once' in f.encode(): continue
    rc0,a0,_=asm(f)
    for trial in range(4):
        kind=r.choice(['splice','crlf','bom','all'])
        t=src
        if kind in('splice','all'):
            pos=sorted(r.sample(range(1,len(t)-1),min(40,len(t)//50)),reverse=True)
            for p in pos:
                if t[p-1:p]==b'\\' and False: continue
                t=t[:p]+b'\\\n'+t[p:]
        if kind in('crlf','all'): t=t.replace(b'\n',b'\r\n')
        if kind in('bom','all'): t=b'\xef\xbb\xbf'+t
        g=D+'/test/zz_tmp.c'; open(g,'wb').write(t)
        rc1,a1,err=asm(g)
        if (rc0,a0)==(rc1,a1): res['ok:'+kind]+=1
        else:
            res['DIFF:'+kind]+=1
            if res['DIFF:'+kind]<3: print(os.path.basename(f),kind,rc0,rc1,err[-150:])
os.remove(D+'/test/zz_tmp.c')
print(res)
