import random, subprocess, sys, collections, multiprocessing, tempfile, os
C=os.environ.get('CHI','/tmp/scratch/cc/chibicc')
BT=[('char',8,True),('unsigned char',8,False),('short',16,True),('unsigned short',16,False),('int',32,True),('unsigned',32,False),('long',64,True),('unsigned long',64,False),('_Bool',1,False)]
def run(seed):
    r=random.Random(seed); src=['int printf(const char*,...);']; body=[]
    for i in range(10):
        mems=[]; names=[]
        for k in range(r.randint(2,7)):
            if r.random()<0.75:
                t,b,sg=r.choice(BT); w=r.randint(1,b) if t!='_Bool' else 1
                if r.random()<0.1: mems.append(f'{t} : {r.choice([0,w])};')
                else: mems.append(f'{t} f{k} : {w};'); names.append((f'f{k}',t,w,sg))
            else:
                t=r.choice(['char','short','int','long']); mems.append(f'{t} f{k};'); names.append((f'f{k}',t,{'char':8,'short':16,'int':32,'long':64}[t],True))
        if not names: continue
        src.append(f'struct S{i} {{ '+' '.join(mems)+' };')
        dump='printf("%d.%d:",'+f'{i},st); '+' '.join(f'printf(" %ld",(long)s.{n});' for n,_,_,_ in names)+' printf("\\n");'
        ops=''
        where=r.choice(['static','auto','ptr'])
        acc='s.' 
        for st in range(r.randint(3,10)):
            n,t,w,sg=r.choice(names); v=r.choice([0,1,-1,2,3,5,127,128,255,256,65535,1<<31,(1<<63)-1,-(1<<31),r.getrandbits(40)])
            k=r.random()
            vs=f'({v}L)' if v<1<<63 else f'{v}UL'
            if k<0.4: op=f's.{n} = {vs};'
            elif k<0.55: op=f's.{n} {r.choice(["|=","&=","^="])} {vs};'
            elif k<0.65 and not sg: op=f's.{n} {r.choice(["+=","-=","*="])} {(v & 0xff) if v>=0 else 3};'
            elif k<0.75 and not sg: op=f's.{n}{r.choice(["++","--"])};'
            elif k<0.8 and not sg: op=f'{r.choice(["++","--"])}s.{n};'
            elif k<0.9: n2=r.choice(names)[0]; op=f's.{n} = s.{n2};'
            else: op=f'printf(" [%ld]",(long)(s.{n} = {vs}));'
            ops+=f'  {op} st={st}; {dump}\n'
        decl={'static':f'static struct S{i} s;','auto':f'struct S{i} s; {{ char *p=(char*)&s; for (int j=0;j<sizeof s;j++) p[j]=0; }}','ptr':f'static struct S{i} ss; struct S{i} *sp=&ss;\n#define s (*sp)\n'}[where]
        body.append(f'void c{i}(void){{ int st=-1; {decl}\n{ops}}}\n'+('#undef s\n' if where=='ptr' else ''))
    text='\n'.join(src+body)+'\nint main(){'+''.join(f'c{i}();' for i in range(10) if f'void c{i}(' in ''.join(body))+'}\n'
    d=tempfile.mkdtemp(prefix='bf'); f=f'{d}/t.c'; open(f,'w').write(text)
    try:
        g=subprocess.run(['gcc','-w','-O0','-o',f'{d}/gcc',f],capture_output=True,text=True); c=subprocess.run(['clang','-w','-O0','-o',f'{d}/clang',f],capture_output=True,text=True)
        if g.returncode or c.returncode: return seed,'ref-fail',(g.stderr or c.stderr)[:300],[]
        p=subprocess.run([C,'-o',f'{d}/chi',f],capture_output=True,text=True,timeout=20)
        if p.returncode: return seed,'chi-fail',p.stderr[-300:],[]
        o=[subprocess.run([f'{d}/{x}'],capture_output=True,text=True,timeout=10).stdout.split('\n') for x in('chi','gcc','clang')]
        bad=[]
        for k in range(len(o[1])):
            if o[1][k]!=o[2][k]: bad.append(('REFDIS',o[1][k],o[2][k])); break
            if k>=len(o[0]) or o[0][k]!=o[1][k]:
                try:
                    key=o[1][k].split(']')[-1].strip(); i=key.split('.')[0]; stn=key.split(':')[0].split('.')[1]
                    sdef=[l for l in text.split('\n') if l.startswith(f'struct S{i} ')][0]
                    opl=[l for l in text.split('\n') if f' st={stn}; printf("%d.%d:",{i},st)' in l and f'void c{i}(' in text[:text.index(l)].split('void c')[-1].join(['void c',''])]
                    fn=text[text.index(f'void c{i}('):]; opl=[l for l in fn.split('\n') if f' st={stn}; ' in l]
                    bad.append(('MIS',sdef,(opl[0].split(' st=')[0].strip() if opl else '?'),o[0][k] if k<len(o[0]) else None,o[1][k]))
                except Exception as e: bad.append(('MIS','?',str(e),o[0][k] if k<len(o[0]) else None,o[1][k]))
                break
        return seed,'ok','',bad
    finally: subprocess.run(['rm','-rf',d])
if __name__=='__main__':
    with multiprocessing.Pool(16) as p: res=p.map(run,range(int(sys.argv[1])))
    cnt=collections.Counter(); bad=[]
    for seed,st,msg,b in res:
        cnt[st]+=1
        if st!='ok' and cnt[st]<3: print(seed,st,msg)
        for x in b: cnt[x[0]]+=1; bad.append(x)
    print(cnt); bad.sort(key=lambda b:len(str(b)))
    for x in bad[:int(sys.argv[2])]: print(x)
