#include <rapidcheck.h>
#include <rapidcheck/state.h>
#include <map>
#include <string>
#include <vector>
#include <cstring>
extern "C" {
typedef struct { char *key; int keylen; void *val; } HashEntry;
typedef struct { HashEntry *buckets; int capacity; int used; } HashMap;
void *hashmap_get2(HashMap *map, char *key, int keylen);
void hashmap_put2(HashMap *map, char *key, int keylen, void *val);
void hashmap_delete2(HashMap *map, char *key, int keylen);
}
static std::vector<std::string> POOL;
static uint64_t fnv(const std::string &s){ uint64_t h=0xcbf29ce484222325ULL; for(unsigned char c: s){ h*=0x100000001b3ULL; h^=c; } return h; }
struct Model { std::map<std::string,long> m; };
struct Sut { HashMap map{}; };
struct Put : rc::state::Command<Model,Sut> { int k; long v;
  Put(): k(*rc::gen::resize(100, rc::gen::inRange<int>(0,(int)POOL.size()))), v(*rc::gen::inRange<long>(1,1000)) {}
  void apply(Model &s) const override { s.m[POOL[k]]=v; }
  void run(const Model &s0, Sut &sut) const override { hashmap_put2(&sut.map,(char*)POOL[k].data(),POOL[k].size(),(void*)v); check(s0,sut,true); }
  void check(const Model &s0, Sut &sut, bool) const { Model s=s0; apply(s); for(auto &key: POOL){ void *g=hashmap_get2(&sut.map,(char*)key.data(),key.size()); auto it=s.m.find(key); RC_ASSERT((long)g == (it==s.m.end()?0:it->second)); } }
  void show(std::ostream &os) const override { os<<"Put("<<POOL[k]<<","<<v<<")"; } };
struct Del : rc::state::Command<Model,Sut> { int k;
  Del(): k(*rc::gen::resize(100, rc::gen::inRange<int>(0,(int)POOL.size()))) {}
  void apply(Model &s) const override { s.m.erase(POOL[k]); }
  void run(const Model &s0, Sut &sut) const override { hashmap_delete2(&sut.map,(char*)POOL[k].data(),POOL[k].size()); Model s=s0; apply(s); for(auto &key: POOL){ void *g=hashmap_get2(&sut.map,(char*)key.data(),key.size()); auto it=s.m.find(key); RC_ASSERT((long)g == (it==s.m.end()?0:it->second)); } }
  void show(std::ostream &os) const override { os<<"Del("<<POOL[k]<<")"; } };
int main(){
  // build pool: 4 groups of keys sharing the low 6 hash bits
  for(int g=0; g<4; g++){ int found=0; for(int i=0; found<8 && i<1000000; i++){ std::string s="k"+std::to_string(i); if((fnv(s)&63)==(unsigned)(g*5+1)){ POOL.push_back(s); found++; } } }
  bool ok = rc::check("hashmap behaves like std::map", []{ Model m; Sut s; rc::state::check(m, s, rc::state::gen::execOneOfWithArgs<Put,Del>()); });
  return ok?0:1; }
