import random, subprocess, itertools, struct
C='/tmp/scratch/cc/chibicc'
T=['_Bool','char','unsigned char','short','unsigned short','int','unsigned','long','unsigned long','float','double','long double']
vals={'i':['0','1','-1','7','100','-100','65535','2147483647'],'f':['0.5','-0.5','2.5','-2.5','1e3','3.0','0.0']}
def isf(t): return t in('float','double','long double')
src=['int printf(const char*,...);','void d(int id,void*p,int n){unsigned char*q=p;printf("%d ",id);for(int i=0;i<n;i++)printf("%02x",q[i]);printf("\\n");}']
cases=[]
r=random.Random(1)
SZ={'_Bool':1,'char':1,'unsigned char':1,'short':2,'unsigned short':2,'int':4,'unsigned':4,'long':8,'unsigned long':8,'float':4,'double':8,'long double':10}
def ok_int(t,v):
    v=int(float(v)); 
    if t=='_Bool': return True
    if t.startswith('unsigned') and v<0: return False
    return abs(v) < (1<<(SZ[t]*8-2))
for lt,rt in itertools.product(T,T):
    if not (isf(lt) or isf(rt)): continue
    for op in ['+=','-=','*=','/=','=']:
        for _ in range(3):
            lv=r.choice(vals['f' if isf(lt) else 'i']); rv=r.choice(vals['f' if isf(rt) else 'i'])
            if not isf(lt) and not ok_int(lt,lv): continue
            if not isf(rt) and not ok_int(rt,rv): continue
            if op=='/=' and float(rv)==0: continue
            # result must be representable when lhs is integer: compute in python double
            a=float(lv); b=float(rv)
            if lt=='_Bool': a=1.0 if a else 0.0
            if rt=='_Bool': b=1.0 if b else 0.0
            res={'+=':a+b,'-=':a-b,'*=':a*b,'/=':a/b if b else 0,'=':b}[op]
            if not isf(lt) and lt!='_Bool':
                t=int(res); lo,hi=((0,(1<<SZ[lt]*8)-1) if lt.startswith('unsigned') else (-(1<<(SZ[lt]*8-1)),(1<<(SZ[lt]*8-1))-1))
                if not (lo<=t<=hi): continue
            i=len(cases); cases.append(f'{lt} x={lv}; x {op} ({rt}){rv}')
            src.append(f'void c{i}(void){{ volatile {lt} x = ({lt}){lv}; volatile {rt} y = ({rt}){rv}; {lt} r = (x {op} y); d({i},&r,{SZ[lt]}); {lt} x2 = x; d({i},&x2,{SZ[lt]}); }}')
for t in ['float','double','long double']:
    for form in ['x++','x--','++x','--x','-x','!x','x ? 1 : 2']:
        for v in ['0.5','-0.5','0.0','16777216.0','1e30']:
            i=len(cases); cases.append(f'{t} x={v}; {form}')
            src.append(f'void c{i}(void){{ {t} x = {v}; {t} r = ({form}); d({i},&r,{SZ[t]}); d({i},&x,{SZ[t]}); }}')
src.append('int main(){'+''.join(f'c{i}();' for i in range(len(cases)))+'}')
open('fpmix.c','w').write('\n'.join(src))
p=subprocess.run(['timeout','30',C,'-o','fpmix.chi','fpmix.c'],capture_output=True,text=True); print('chi',p.returncode,p.stderr[-200:] if p.returncode else '')
subprocess.run(['gcc','-w','-O0','-o','fpmix.gcc','fpmix.c']); subprocess.run(['clang','-w','-O0','-o','fpmix.clang','fpmix.c'])
o=[subprocess.run(['./fpmix.'+x],capture_output=True,text=True).stdout.split('\n') for x in('chi','gcc','clang')]
bad=dis=0
for k in range(len(o[1])):
    if o[1][k]!=o[2][k]: dis+=1; continue
    if k>=len(o[0]) or o[0][k]!=o[1][k]:
        bad+=1
        if bad<12: print(cases[int(o[1][k].split()[0])],'chi',o[0][k] if k<len(o[0]) else None,'ref',o[1][k])
print(len(cases),'cases',len(o[1]),'lines; ref disagree',dis,'mismatch',bad)
