int printf(const char*,...);
long sp_probe(void); int x87_probe(void);
struct S { long a[3]; }; struct S sv;
int k=1;
int f_0(void){ int r = 3; return r; }
void g_0(int p){ }
int x_0, y_0;
void c0(void){ long s0=sp_probe(); int t0=x87_probe(); for(int it=0; it<9; it++) { 3; } long s1=sp_probe(); int t1=x87_probe(); printf("0 %ld %x %x\n", s1-s0, t0, t1); asm("fninit"); }
void c1(void){ long s0=sp_probe(); int t0=x87_probe(); for(int it=0; it<9; it++) { (3, 0); } long s1=sp_probe(); int t1=x87_probe(); printf("1 %ld %x %x\n", s1-s0, t0, t1); asm("fninit"); }
void c2(void){ long s0=sp_probe(); int t0=x87_probe(); for(int it=0; it<9; it++) { (void)3; } long s1=sp_probe(); int t1=x87_probe(); printf("2 %ld %x %x\n", s1-s0, t0, t1); asm("fninit"); }
void c3(void){ long s0=sp_probe(); int t0=x87_probe(); for(int it=0; it<9; it++) { f_0(); } long s1=sp_probe(); int t1=x87_probe(); printf("3 %ld %x %x\n", s1-s0, t0, t1); asm("fninit"); }
void c4(void){ long s0=sp_probe(); int t0=x87_probe(); for(int it=0; it<9; it++) { (k ? 3 : 3); } long s1=sp_probe(); int t1=x87_probe(); printf("4 %ld %x %x\n", s1-s0, t0, t1); asm("fninit"); }
void c5(void){ long s0=sp_probe(); int t0=x87_probe(); for(int it=0; it<9; it++) { x_0 = 3; } long s1=sp_probe(); int t1=x87_probe(); printf("5 %ld %x %x\n", s1-s0, t0, t1); asm("fninit"); }
void c6(void){ long s0=sp_probe(); int t0=x87_probe(); for(int it=0; it<9; it++) { x_0 = y_0 = 3; } long s1=sp_probe(); int t1=x87_probe(); printf("6 %ld %x %x\n", s1-s0, t0, t1); asm("fninit"); }
void c7(void){ long s0=sp_probe(); int t0=x87_probe(); for(int it=0; it<9; it++) { for (int q=0;q<1;q++, 3) ; } long s1=sp_probe(); int t1=x87_probe(); printf("7 %ld %x %x\n", s1-s0, t0, t1); asm("fninit"); }
void c8(void){ long s0=sp_probe(); int t0=x87_probe(); for(int it=0; it<9; it++) { for (3;0;) ; } long s1=sp_probe(); int t1=x87_probe(); printf("8 %ld %x %x\n", s1-s0, t0, t1); asm("fninit"); }
void c9(void){ long s0=sp_probe(); int t0=x87_probe(); for(int it=0; it<9; it++) { ({ 3; 3; }); } long s1=sp_probe(); int t1=x87_probe(); printf("9 %ld %x %x\n", s1-s0, t0, t1); asm("fninit"); }
void c10(void){ long s0=sp_probe(); int t0=x87_probe(); for(int it=0; it<9; it++) { (3 && 3); } long s1=sp_probe(); int t1=x87_probe(); printf("10 %ld %x %x\n", s1-s0, t0, t1); asm("fninit"); }
void c11(void){ long s0=sp_probe(); int t0=x87_probe(); for(int it=0; it<9; it++) { !3; } long s1=sp_probe(); int t1=x87_probe(); printf("11 %ld %x %x\n", s1-s0, t0, t1); asm("fninit"); }
void c12(void){ long s0=sp_probe(); int t0=x87_probe(); for(int it=0; it<9; it++) { -3; } long s1=sp_probe(); int t1=x87_probe(); printf("12 %ld %x %x\n", s1-s0, t0, t1); asm("fninit"); }
void c13(void){ long s0=sp_probe(); int t0=x87_probe(); for(int it=0; it<9; it++) { g_0(3); } long s1=sp_probe(); int t1=x87_probe(); printf("13 %ld %x %x\n", s1-s0, t0, t1); asm("fninit"); }
void c14(void){ long s0=sp_probe(); int t0=x87_probe(); for(int it=0; it<9; it++) { x_0 = k ? 3 : x_0; } long s1=sp_probe(); int t1=x87_probe(); printf("14 %ld %x %x\n", s1-s0, t0, t1); asm("fninit"); }
void c15(void){ long s0=sp_probe(); int t0=x87_probe(); for(int it=0; it<9; it++) { x_0 += 3; } long s1=sp_probe(); int t1=x87_probe(); printf("15 %ld %x %x\n", s1-s0, t0, t1); asm("fninit"); }
void c16(void){ long s0=sp_probe(); int t0=x87_probe(); for(int it=0; it<9; it++) { x_0++; } long s1=sp_probe(); int t1=x87_probe(); printf("16 %ld %x %x\n", s1-s0, t0, t1); asm("fninit"); }
void c17(void){ long s0=sp_probe(); int t0=x87_probe(); for(int it=0; it<9; it++) { --x_0; } long s1=sp_probe(); int t1=x87_probe(); printf("17 %ld %x %x\n", s1-s0, t0, t1); asm("fninit"); }
void c18(void){ long s0=sp_probe(); int t0=x87_probe(); for(int it=0; it<9; it++) { (3 < 3); } long s1=sp_probe(); int t1=x87_probe(); printf("18 %ld %x %x\n", s1-s0, t0, t1); asm("fninit"); }
void c19(void){ long s0=sp_probe(); int t0=x87_probe(); for(int it=0; it<9; it++) { (3 + 3); } long s1=sp_probe(); int t1=x87_probe(); printf("19 %ld %x %x\n", s1-s0, t0, t1); asm("fninit"); }
void c20(void){ long s0=sp_probe(); int t0=x87_probe(); for(int it=0; it<9; it++) { (int)3; } long s1=sp_probe(); int t1=x87_probe(); printf("20 %ld %x %x\n", s1-s0, t0, t1); asm("fninit"); }
void c21(void){ long s0=sp_probe(); int t0=x87_probe(); for(int it=0; it<9; it++) { (long double)3; } long s1=sp_probe(); int t1=x87_probe(); printf("21 %ld %x %x\n", s1-s0, t0, t1); asm("fninit"); }
void c22(void){ long s0=sp_probe(); int t0=x87_probe(); for(int it=0; it<9; it++) { (float)3; } long s1=sp_probe(); int t1=x87_probe(); printf("22 %ld %x %x\n", s1-s0, t0, t1); asm("fninit"); }
long f_1(void){ long r = 3L; return r; }
void g_1(long p){ }
long x_1, y_1;
void c23(void){ long s0=sp_probe(); int t0=x87_probe(); for(int it=0; it<9; it++) { 3L; } long s1=sp_probe(); int t1=x87_probe(); printf("23 %ld %x %x\n", s1-s0, t0, t1); asm("fninit"); }
void c24(void){ long s0=sp_probe(); int t0=x87_probe(); for(int it=0; it<9; it++) { (3L, 0); } long s1=sp_probe(); int t1=x87_probe(); printf("24 %ld %x %x\n", s1-s0, t0, t1); asm("fninit"); }
void c25(void){ long s0=sp_probe(); int t0=x87_probe(); for(int it=0; it<9; it++) { (void)3L; } long s1=sp_probe(); int t1=x87_probe(); printf("25 %ld %x %x\n", s1-s0, t0, t1); asm("fninit"); }
void c26(void){ long s0=sp_probe(); int t0=x87_probe(); for(int it=0; it<9; it++) { f_1(); } long s1=sp_probe(); int t1=x87_probe(); printf("26 %ld %x %x\n", s1-s0, t0, t1); asm("fninit"); }
void c27(void){ long s0=sp_probe(); int t0=x87_probe(); for(int it=0; it<9; it++) { (k ? 3L : 3L); } long s1=sp_probe(); int t1=x87_probe(); printf("27 %ld %x %x\n", s1-s0, t0, t1); asm("fninit"); }
void c28(void){ long s0=sp_probe(); int t0=x87_probe(); for(int it=0; it<9; it++) { x_1 = 3L; } long s1=sp_probe(); int t1=x87_probe(); printf("28 %ld %x %x\n", s1-s0, t0, t1); asm("fninit"); }
void c29(void){ long s0=sp_probe(); int t0=x87_probe(); for(int it=0; it<9; it++) { x_1 = y_1 = 3L; } long s1=sp_probe(); int t1=x87_probe(); printf("29 %ld %x %x\n", s1-s0, t0, t1); asm("fninit"); }
void c30(void){ long s0=sp_probe(); int t0=x87_probe(); for(int it=0; it<9; it++) { for (int q=0;q<1;q++, 3L) ; } long s1=sp_probe(); int t1=x87_probe(); printf("30 %ld %x %x\n", s1-s0, t0, t1); asm("fninit"); }
void c31(void){ long s0=sp_probe(); int t0=x87_probe(); for(int it=0; it<9; it++) { for (3L;0;) ; } long s1=sp_probe(); int t1=x87_probe(); printf("31 %ld %x %x\n", s1-s0, t0, t1); asm("fninit"); }
void c32(void){ long s0=sp_probe(); int t0=x87_probe(); for(int it=0; it<9; it++) { ({ 3L; 3L; }); } long s1=sp_probe(); int t1=x87_probe(); printf("32 %ld %x %x\n", s1-s0, t0, t1); asm("fninit"); }
void c33(void){ long s0=sp_probe(); int t0=x87_probe(); for(int it=0; it<9; it++) { (3L && 3L); } long s1=sp_probe(); int t1=x87_probe(); printf("33 %ld %x %x\n", s1-s0, t0, t1); asm("fninit"); }
void c34(void){ long s0=sp_probe(); int t0=x87_probe(); for(int it=0; it<9; it++) { !3L; } long s1=sp_probe(); int t1=x87_probe(); printf("34 %ld %x %x\n", s1-s0, t0, t1); asm("fninit"); }
void c35(void){ long s0=sp_probe(); int t0=x87_probe(); for(int it=0; it<9; it++) { -3L; } long s1=sp_probe(); int t1=x87_probe(); printf("35 %ld %x %x\n", s1-s0, t0, t1); asm("fninit"); }
void c36(void){ long s0=sp_probe(); int t0=x87_probe(); for(int it=0; it<9; it++) { g_1(3L); } long s1=sp_probe(); int t1=x87_probe(); printf("36 %ld %x %x\n", s1-s0, t0, t1); asm("fninit"); }
void c37(void){ long s0=sp_probe(); int t0=x87_probe(); for(int it=0; it<9; it++) { x_1 = k ? 3L : x_1; } long s1=sp_probe(); int t1=x87_probe(); printf("37 %ld %x %x\n", s1-s0, t0, t1); asm("fninit"); }
void c38(void){ long s0=sp_probe(); int t0=x87_probe(); for(int it=0; it<9; it++) { x_1 += 3L; } long s1=sp_probe(); int t1=x87_probe(); printf("38 %ld %x %x\n", s1-s0, t0, t1); asm("fninit"); }
void c39(void){ long s0=sp_probe(); int t0=x87_probe(); for(int it=0; it<9; it++) { x_1++; } long s1=sp_probe(); int t1=x87_probe(); printf("39 %ld %x %x\n", s1-s0, t0, t1); asm("fninit"); }
void c40(void){ long s0=sp_probe(); int t0=x87_probe(); for(int it=0; it<9; it++) { --x_1; } long s1=sp_probe(); int t1=x87_probe(); printf("40 %ld %x %x\n", s1-s0, t0, t1); asm("fninit"); }
void c41(void){ long s0=sp_probe(); int t0=x87_probe(); for(int it=0; it<9; it++) { (3L < 3L); } long s1=sp_probe(); int t1=x87_probe(); printf("41 %ld %x %x\n", s1-s0, t0, t1); asm("fninit"); }
void c42(void){ long s0=sp_probe(); int t0=x87_probe(); for(int it=0; it<9; it++) { (3L + 3L); } long s1=sp_probe(); int t1=x87_probe(); printf("42 %ld %x %x\n", s1-s0, t0, t1); asm("fninit"); }
void c43(void){ long s0=sp_probe(); int t0=x87_probe(); for(int it=0; it<9; it++) { (int)3L; } long s1=sp_probe(); int t1=x87_probe(); printf("43 %ld %x %x\n", s1-s0, t0, t1); asm("fninit"); }
void c44(void){ long s0=sp_probe(); int t0=x87_probe(); for(int it=0; it<9; it++) { (long double)3L; } long s1=sp_probe(); int t1=x87_probe(); printf("44 %ld %x %x\n", s1-s0, t0, t1); asm("fninit"); }
void c45(void){ long s0=sp_probe(); int t0=x87_probe(); for(int it=0; it<9; it++) { (float)3L; } long s1=sp_probe(); int t1=x87_probe(); printf("45 %ld %x %x\n", s1-s0, t0, t1); asm("fninit"); }
float f_2(void){ float r = 1.5f; return r; }
void g_2(float p){ }
float x_2, y_2;
void c46(void){ long s0=sp_probe(); int t0=x87_probe(); for(int it=0; it<9; it++) { 1.5f; } long s1=sp_probe(); int t1=x87_probe(); printf("46 %ld %x %x\n", s1-s0, t0, t1); asm("fninit"); }
void c47(void){ long s0=sp_probe(); int t0=x87_probe(); for(int it=0; it<9; it++) { (1.5f, 0); } long s1=sp_probe(); int t1=x87_probe(); printf("47 %ld %x %x\n", s1-s0, t0, t1); asm("fninit"); }
void c48(void){ long s0=sp_probe(); int t0=x87_probe(); for(int it=0; it<9; it++) { (void)1.5f; } long s1=sp_probe(); int t1=x87_probe(); printf("48 %ld %x %x\n", s1-s0, t0, t1); asm("fninit"); }
void c49(void){ long s0=sp_probe(); int t0=x87_probe(); for(int it=0; it<9; it++) { f_2(); } long s1=sp_probe(); int t1=x87_probe(); printf("49 %ld %x %x\n", s1-s0, t0, t1); asm("fninit"); }
void c50(void){ long s0=sp_probe(); int t0=x87_probe(); for(int it=0; it<9; it++) { (k ? 1.5f : 1.5f); } long s1=sp_probe(); int t1=x87_probe(); printf("50 %ld %x %x\n", s1-s0, t0, t1); asm("fninit"); }
void c51(void){ long s0=sp_probe(); int t0=x87_probe(); for(int it=0; it<9; it++) { x_2 = 1.5f; } long s1=sp_probe(); int t1=x87_probe(); printf("51 %ld %x %x\n", s1-s0, t0, t1); asm("fninit"); }
void c52(void){ long s0=sp_probe(); int t0=x87_probe(); for(int it=0; it<9; it++) { x_2 = y_2 = 1.5f; } long s1=sp_probe(); int t1=x87_probe(); printf("52 %ld %x %x\n", s1-s0, t0, t1); asm("fninit"); }
void c53(void){ long s0=sp_probe(); int t0=x87_probe(); for(int it=0; it<9; it++) { for (int q=0;q<1;q++, 1.5f) ; } long s1=sp_probe(); int t1=x87_probe(); printf("53 %ld %x %x\n", s1-s0, t0, t1); asm("fninit"); }
void c54(void){ long s0=sp_probe(); int t0=x87_probe(); for(int it=0; it<9; it++) { for (1.5f;0;) ; } long s1=sp_probe(); int t1=x87_probe(); printf("54 %ld %x %x\n", s1-s0, t0, t1); asm("fninit"); }
void c55(void){ long s0=sp_probe(); int t0=x87_probe(); for(int it=0; it<9; it++) { ({ 1.5f; 1.5f; }); } long s1=sp_probe(); int t1=x87_probe(); printf("55 %ld %x %x\n", s1-s0, t0, t1); asm("fninit"); }
void c56(void){ long s0=sp_probe(); int t0=x87_probe(); for(int it=0; it<9; it++) { (1.5f && 1.5f); } long s1=sp_probe(); int t1=x87_probe(); printf("56 %ld %x %x\n", s1-s0, t0, t1); asm("fninit"); }
void c57(void){ long s0=sp_probe(); int t0=x87_probe(); for(int it=0; it<9; it++) { !1.5f; } long s1=sp_probe(); int t1=x87_probe(); printf("57 %ld %x %x\n", s1-s0, t0, t1); asm("fninit"); }
void c58(void){ long s0=sp_probe(); int t0=x87_probe(); for(int it=0; it<9; it++) { -1.5f; } long s1=sp_probe(); int t1=x87_probe(); printf("58 %ld %x %x\n", s1-s0, t0, t1); asm("fninit"); }
void c59(void){ long s0=sp_probe(); int t0=x87_probe(); for(int it=0; it<9; it++) { g_2(1.5f); } long s1=sp_probe(); int t1=x87_probe(); printf("59 %ld %x %x\n", s1-s0, t0, t1); asm("fninit"); }
void c60(void){ long s0=sp_probe(); int t0=x87_probe(); for(int it=0; it<9; it++) { x_2 = k ? 1.5f : x_2; } long s1=sp_probe(); int t1=x87_probe(); printf("60 %ld %x %x\n", s1-s0, t0, t1); asm("fninit"); }
void c61(void){ long s0=sp_probe(); int t0=x87_probe(); for(int it=0; it<9; it++) { x_2 += 1.5f; } long s1=sp_probe(); int t1=x87_probe(); printf("61 %ld %x %x\n", s1-s0, t0, t1); asm("fninit"); }
void c62(void){ long s0=sp_probe(); int t0=x87_probe(); for(int it=0; it<9; it++) { x_2++; } long s1=sp_probe(); int t1=x87_probe(); printf("62 %ld %x %x\n", s1-s0, t0, t1); asm("fninit"); }
void c63(void){ long s0=sp_probe(); int t0=x87_probe(); for(int it=0; it<9; it++) { --x_2; } long s1=sp_probe(); int t1=x87_probe(); printf("63 %ld %x %x\n", s1-s0, t0, t1); asm("fninit"); }
void c64(void){ long s0=sp_probe(); int t0=x87_probe(); for(int it=0; it<9; it++) { (1.5f < 1.5f); } long s1=sp_probe(); int t1=x87_probe(); printf("64 %ld %x %x\n", s1-s0, t0, t1); asm("fninit"); }
void c65(void){ long s0=sp_probe(); int t0=x87_probe(); for(int it=0; it<9; it++) { (1.5f + 1.5f); } long s1=sp_probe(); int t1=x87_probe(); printf("65 %ld %x %x\n", s1-s0, t0, t1); asm("fninit"); }
void c66(void){ long s0=sp_probe(); int t0=x87_probe(); for(int it=0; it<9; it++) { (int)1.5f; } long s1=sp_probe(); int t1=x87_probe(); printf("66 %ld %x %x\n", s1-s0, t0, t1); asm("fninit"); }
void c67(void){ long s0=sp_probe(); int t0=x87_probe(); for(int it=0; it<9; it++) { (long double)1.5f; } long s1=sp_probe(); int t1=x87_probe(); printf("67 %ld %x %x\n", s1-s0, t0, t1); asm("fninit"); }
void c68(void){ long s0=sp_probe(); int t0=x87_probe(); for(int it=0; it<9; it++) { (float)1.5f; } long s1=sp_probe(); int t1=x87_probe(); printf("68 %ld %x %x\n", s1-s0, t0, t1); asm("fninit"); }
double f_3(void){ double r = 2.5; return r; }
void g_3(double p){ }
double x_3, y_3;
void c69(void){ long s0=sp_probe(); int t0=x87_probe(); for(int it=0; it<9; it++) { 2.5; } long s1=sp_probe(); int t1=x87_probe(); printf("69 %ld %x %x\n", s1-s0, t0, t1); asm("fninit"); }
void c70(void){ long s0=sp_probe(); int t0=x87_probe(); for(int it=0; it<9; it++) { (2.5, 0); } long s1=sp_probe(); int t1=x87_probe(); printf("70 %ld %x %x\n", s1-s0, t0, t1); asm("fninit"); }
void c71(void){ long s0=sp_probe(); int t0=x87_probe(); for(int it=0; it<9; it++) { (void)2.5; } long s1=sp_probe(); int t1=x87_probe(); printf("71 %ld %x %x\n", s1-s0, t0, t1); asm("fninit"); }
void c72(void){ long s0=sp_probe(); int t0=x87_probe(); for(int it=0; it<9; it++) { f_3(); } long s1=sp_probe(); int t1=x87_probe(); printf("72 %ld %x %x\n", s1-s0, t0, t1); asm("fninit"); }
void c73(void){ long s0=sp_probe(); int t0=x87_probe(); for(int it=0; it<9; it++) { (k ? 2.5 : 2.5); } long s1=sp_probe(); int t1=x87_probe(); printf("73 %ld %x %x\n", s1-s0, t0, t1); asm("fninit"); }
void c74(void){ long s0=sp_probe(); int t0=x87_probe(); for(int it=0; it<9; it++) { x_3 = 2.5; } long s1=sp_probe(); int t1=x87_probe(); printf("74 %ld %x %x\n", s1-s0, t0, t1); asm("fninit"); }
void c75(void){ long s0=sp_probe(); int t0=x87_probe(); for(int it=0; it<9; it++) { x_3 = y_3 = 2.5; } long s1=sp_probe(); int t1=x87_probe(); printf("75 %ld %x %x\n", s1-s0, t0, t1); asm("fninit"); }
void c76(void){ long s0=sp_probe(); int t0=x87_probe(); for(int it=0; it<9; it++) { for (int q=0;q<1;q++, 2.5) ; } long s1=sp_probe(); int t1=x87_probe(); printf("76 %ld %x %x\n", s1-s0, t0, t1); asm("fninit"); }
void c77(void){ long s0=sp_probe(); int t0=x87_probe(); for(int it=0; it<9; it++) { for (2.5;0;) ; } long s1=sp_probe(); int t1=x87_probe(); printf("77 %ld %x %x\n", s1-s0, t0, t1); asm("fninit"); }
void c78(void){ long s0=sp_probe(); int t0=x87_probe(); for(int it=0; it<9; it++) { ({ 2.5; 2.5; }); } long s1=sp_probe(); int t1=x87_probe(); printf("78 %ld %x %x\n", s1-s0, t0, t1); asm("fninit"); }
void c79(void){ long s0=sp_probe(); int t0=x87_probe(); for(int it=0; it<9; it++) { (2.5 && 2.5); } long s1=sp_probe(); int t1=x87_probe(); printf("79 %ld %x %x\n", s1-s0, t0, t1); asm("fninit"); }
void c80(void){ long s0=sp_probe(); int t0=x87_probe(); for(int it=0; it<9; it++) { !2.5; } long s1=sp_probe(); int t1=x87_probe(); printf("80 %ld %x %x\n", s1-s0, t0, t1); asm("fninit"); }
void c81(void){ long s0=sp_probe(); int t0=x87_probe(); for(int it=0; it<9; it++) { -2.5; } long s1=sp_probe(); int t1=x87_probe(); printf("81 %ld %x %x\n", s1-s0, t0, t1); asm("fninit"); }
void c82(void){ long s0=sp_probe(); int t0=x87_probe(); for(int it=0; it<9; it++) { g_3(2.5); } long s1=sp_probe(); int t1=x87_probe(); printf("82 %ld %x %x\n", s1-s0, t0, t1); asm("fninit"); }
void c83(void){ long s0=sp_probe(); int t0=x87_probe(); for(int it=0; it<9; it++) { x_3 = k ? 2.5 : x_3; } long s1=sp_probe(); int t1=x87_probe(); printf("83 %ld %x %x\n", s1-s0, t0, t1); asm("fninit"); }
void c84(void){ long s0=sp_probe(); int t0=x87_probe(); for(int it=0; it<9; it++) { x_3 += 2.5; } long s1=sp_probe(); int t1=x87_probe(); printf("84 %ld %x %x\n", s1-s0, t0, t1); asm("fninit"); }
void c85(void){ long s0=sp_probe(); int t0=x87_probe(); for(int it=0; it<9; it++) { x_3++; } long s1=sp_probe(); int t1=x87_probe(); printf("85 %ld %x %x\n", s1-s0, t0, t1); asm("fninit"); }
void c86(void){ long s0=sp_probe(); int t0=x87_probe(); for(int it=0; it<9; it++) { --x_3; } long s1=sp_probe(); int t1=x87_probe(); printf("86 %ld %x %x\n", s1-s0, t0, t1); asm("fninit"); }
void c87(void){ long s0=sp_probe(); int t0=x87_probe(); for(int it=0; it<9; it++) { (2.5 < 2.5); } long s1=sp_probe(); int t1=x87_probe(); printf("87 %ld %x %x\n", s1-s0, t0, t1); asm("fninit"); }
void c88(void){ long s0=sp_probe(); int t0=x87_probe(); for(int it=0; it<9; it++) { (2.5 + 2.5); } long s1=sp_probe(); int t1=x87_probe(); printf("88 %ld %x %x\n", s1-s0, t0, t1); asm("fninit"); }
void c89(void){ long s0=sp_probe(); int t0=x87_probe(); for(int it=0; it<9; it++) { (int)2.5; } long s1=sp_probe(); int t1=x87_probe(); printf("89 %ld %x %x\n", s1-s0, t0, t1); asm("fninit"); }
void c90(void){ long s0=sp_probe(); int t0=x87_probe(); for(int it=0; it<9; it++) { (long double)2.5; } long s1=sp_probe(); int t1=x87_probe(); printf("90 %ld %x %x\n", s1-s0, t0, t1); asm("fninit"); }
void c91(void){ long s0=sp_probe(); int t0=x87_probe(); for(int it=0; it<9; it++) { (float)2.5; } long s1=sp_probe(); int t1=x87_probe(); printf("91 %ld %x %x\n", s1-s0, t0, t1); asm("fninit"); }
long double f_4(void){ long double r = 3.5L; return r; }
void g_4(long double p){ }
long double x_4, y_4;
void c92(void){ long s0=sp_probe(); int t0=x87_probe(); for(int it=0; it<9; it++) { 3.5L; } long s1=sp_probe(); int t1=x87_probe(); printf("92 %ld %x %x\n", s1-s0, t0, t1); asm("fninit"); }
void c93(void){ long s0=sp_probe(); int t0=x87_probe(); for(int it=0; it<9; it++) { (3.5L, 0); } long s1=sp_probe(); int t1=x87_probe(); printf("93 %ld %x %x\n", s1-s0, t0, t1); asm("fninit"); }
void c94(void){ long s0=sp_probe(); int t0=x87_probe(); for(int it=0; it<9; it++) { (void)3.5L; } long s1=sp_probe(); int t1=x87_probe(); printf("94 %ld %x %x\n", s1-s0, t0, t1); asm("fninit"); }
void c95(void){ long s0=sp_probe(); int t0=x87_probe(); for(int it=0; it<9; it++) { f_4(); } long s1=sp_probe(); int t1=x87_probe(); printf("95 %ld %x %x\n", s1-s0, t0, t1); asm("fninit"); }
void c96(void){ long s0=sp_probe(); int t0=x87_probe(); for(int it=0; it<9; it++) { (k ? 3.5L : 3.5L); } long s1=sp_probe(); int t1=x87_probe(); printf("96 %ld %x %x\n", s1-s0, t0, t1); asm("fninit"); }
void c97(void){ long s0=sp_probe(); int t0=x87_probe(); for(int it=0; it<9; it++) { x_4 = 3.5L; } long s1=sp_probe(); int t1=x87_probe(); printf("97 %ld %x %x\n", s1-s0, t0, t1); asm("fninit"); }
void c98(void){ long s0=sp_probe(); int t0=x87_probe(); for(int it=0; it<9; it++) { x_4 = y_4 = 3.5L; } long s1=sp_probe(); int t1=x87_probe(); printf("98 %ld %x %x\n", s1-s0, t0, t1); asm("fninit"); }
void c99(void){ long s0=sp_probe(); int t0=x87_probe(); for(int it=0; it<9; it++) { for (int q=0;q<1;q++, 3.5L) ; } long s1=sp_probe(); int t1=x87_probe(); printf("99 %ld %x %x\n", s1-s0, t0, t1); asm("fninit"); }
void c100(void){ long s0=sp_probe(); int t0=x87_probe(); for(int it=0; it<9; it++) { for (3.5L;0;) ; } long s1=sp_probe(); int t1=x87_probe(); printf("100 %ld %x %x\n", s1-s0, t0, t1); asm("fninit"); }
void c101(void){ long s0=sp_probe(); int t0=x87_probe(); for(int it=0; it<9; it++) { ({ 3.5L; 3.5L; }); } long s1=sp_probe(); int t1=x87_probe(); printf("101 %ld %x %x\n", s1-s0, t0, t1); asm("fninit"); }
void c102(void){ long s0=sp_probe(); int t0=x87_probe(); for(int it=0; it<9; it++) { (3.5L && 3.5L); } long s1=sp_probe(); int t1=x87_probe(); printf("102 %ld %x %x\n", s1-s0, t0, t1); asm("fninit"); }
void c103(void){ long s0=sp_probe(); int t0=x87_probe(); for(int it=0; it<9; it++) { !3.5L; } long s1=sp_probe(); int t1=x87_probe(); printf("103 %ld %x %x\n", s1-s0, t0, t1); asm("fninit"); }
void c104(void){ long s0=sp_probe(); int t0=x87_probe(); for(int it=0; it<9; it++) { -3.5L; } long s1=sp_probe(); int t1=x87_probe(); printf("104 %ld %x %x\n", s1-s0, t0, t1); asm("fninit"); }
void c105(void){ long s0=sp_probe(); int t0=x87_probe(); for(int it=0; it<9; it++) { g_4(3.5L); } long s1=sp_probe(); int t1=x87_probe(); printf("105 %ld %x %x\n", s1-s0, t0, t1); asm("fninit"); }
void c106(void){ long s0=sp_probe(); int t0=x87_probe(); for(int it=0; it<9; it++) { x_4 = k ? 3.5L : x_4; } long s1=sp_probe(); int t1=x87_probe(); printf("106 %ld %x %x\n", s1-s0, t0, t1); asm("fninit"); }
void c107(void){ long s0=sp_probe(); int t0=x87_probe(); for(int it=0; it<9; it++) { x_4 += 3.5L; } long s1=sp_probe(); int t1=x87_probe(); printf("107 %ld %x %x\n", s1-s0, t0, t1); asm("fninit"); }
void c108(void){ long s0=sp_probe(); int t0=x87_probe(); for(int it=0; it<9; it++) { x_4++; } long s1=sp_probe(); int t1=x87_probe(); printf("108 %ld %x %x\n", s1-s0, t0, t1); asm("fninit"); }
void c109(void){ long s0=sp_probe(); int t0=x87_probe(); for(int it=0; it<9; it++) { --x_4; } long s1=sp_probe(); int t1=x87_probe(); printf("109 %ld %x %x\n", s1-s0, t0, t1); asm("fninit"); }
void c110(void){ long s0=sp_probe(); int t0=x87_probe(); for(int it=0; it<9; it++) { (3.5L < 3.5L); } long s1=sp_probe(); int t1=x87_probe(); printf("110 %ld %x %x\n", s1-s0, t0, t1); asm("fninit"); }
void c111(void){ long s0=sp_probe(); int t0=x87_probe(); for(int it=0; it<9; it++) { (3.5L + 3.5L); } long s1=sp_probe(); int t1=x87_probe(); printf("111 %ld %x %x\n", s1-s0, t0, t1); asm("fninit"); }
void c112(void){ long s0=sp_probe(); int t0=x87_probe(); for(int it=0; it<9; it++) { (int)3.5L; } long s1=sp_probe(); int t1=x87_probe(); printf("112 %ld %x %x\n", s1-s0, t0, t1); asm("fninit"); }
void c113(void){ long s0=sp_probe(); int t0=x87_probe(); for(int it=0; it<9; it++) { (long double)3.5L; } long s1=sp_probe(); int t1=x87_probe(); printf("113 %ld %x %x\n", s1-s0, t0, t1); asm("fninit"); }
void c114(void){ long s0=sp_probe(); int t0=x87_probe(); for(int it=0; it<9; it++) { (float)3.5L; } long s1=sp_probe(); int t1=x87_probe(); printf("114 %ld %x %x\n", s1-s0, t0, t1); asm("fninit"); }
_Bool f_5(void){ _Bool r = 1; return r; }
void g_5(_Bool p){ }
_Bool x_5, y_5;
void c115(void){ long s0=sp_probe(); int t0=x87_probe(); for(int it=0; it<9; it++) { 1; } long s1=sp_probe(); int t1=x87_probe(); printf("115 %ld %x %x\n", s1-s0, t0, t1); asm("fninit"); }
void c116(void){ long s0=sp_probe(); int t0=x87_probe(); for(int it=0; it<9; it++) { (1, 0); } long s1=sp_probe(); int t1=x87_probe(); printf("116 %ld %x %x\n", s1-s0, t0, t1); asm("fninit"); }
void c117(void){ long s0=sp_probe(); int t0=x87_probe(); for(int it=0; it<9; it++) { (void)1; } long s1=sp_probe(); int t1=x87_probe(); printf("117 %ld %x %x\n", s1-s0, t0, t1); asm("fninit"); }
void c118(void){ long s0=sp_probe(); int t0=x87_probe(); for(int it=0; it<9; it++) { f_5(); } long s1=sp_probe(); int t1=x87_probe(); printf("118 %ld %x %x\n", s1-s0, t0, t1); asm("fninit"); }
void c119(void){ long s0=sp_probe(); int t0=x87_probe(); for(int it=0; it<9; it++) { (k ? 1 : 1); } long s1=sp_probe(); int t1=x87_probe(); printf("119 %ld %x %x\n", s1-s0, t0, t1); asm("fninit"); }
void c120(void){ long s0=sp_probe(); int t0=x87_probe(); for(int it=0; it<9; it++) { x_5 = 1; } long s1=sp_probe(); int t1=x87_probe(); printf("120 %ld %x %x\n", s1-s0, t0, t1); asm("fninit"); }
void c121(void){ long s0=sp_probe(); int t0=x87_probe(); for(int it=0; it<9; it++) { x_5 = y_5 = 1; } long s1=sp_probe(); int t1=x87_probe(); printf("121 %ld %x %x\n", s1-s0, t0, t1); asm("fninit"); }
void c122(void){ long s0=sp_probe(); int t0=x87_probe(); for(int it=0; it<9; it++) { for (int q=0;q<1;q++, 1) ; } long s1=sp_probe(); int t1=x87_probe(); printf("122 %ld %x %x\n", s1-s0, t0, t1); asm("fninit"); }
void c123(void){ long s0=sp_probe(); int t0=x87_probe(); for(int it=0; it<9; it++) { for (1;0;) ; } long s1=sp_probe(); int t1=x87_probe(); printf("123 %ld %x %x\n", s1-s0, t0, t1); asm("fninit"); }
void c124(void){ long s0=sp_probe(); int t0=x87_probe(); for(int it=0; it<9; it++) { ({ 1; 1; }); } long s1=sp_probe(); int t1=x87_probe(); printf("124 %ld %x %x\n", s1-s0, t0, t1); asm("fninit"); }
void c125(void){ long s0=sp_probe(); int t0=x87_probe(); for(int it=0; it<9; it++) { (1 && 1); } long s1=sp_probe(); int t1=x87_probe(); printf("125 %ld %x %x\n", s1-s0, t0, t1); asm("fninit"); }
void c126(void){ long s0=sp_probe(); int t0=x87_probe(); for(int it=0; it<9; it++) { !1; } long s1=sp_probe(); int t1=x87_probe(); printf("126 %ld %x %x\n", s1-s0, t0, t1); asm("fninit"); }
void c127(void){ long s0=sp_probe(); int t0=x87_probe(); for(int it=0; it<9; it++) { -1; } long s1=sp_probe(); int t1=x87_probe(); printf("127 %ld %x %x\n", s1-s0, t0, t1); asm("fninit"); }
void c128(void){ long s0=sp_probe(); int t0=x87_probe(); for(int it=0; it<9; it++) { g_5(1); } long s1=sp_probe(); int t1=x87_probe(); printf("128 %ld %x %x\n", s1-s0, t0, t1); asm("fninit"); }
void c129(void){ long s0=sp_probe(); int t0=x87_probe(); for(int it=0; it<9; it++) { x_5 = k ? 1 : x_5; } long s1=sp_probe(); int t1=x87_probe(); printf("129 %ld %x %x\n", s1-s0, t0, t1); asm("fninit"); }
void c130(void){ long s0=sp_probe(); int t0=x87_probe(); for(int it=0; it<9; it++) { x_5 += 1; } long s1=sp_probe(); int t1=x87_probe(); printf("130 %ld %x %x\n", s1-s0, t0, t1); asm("fninit"); }
void c131(void){ long s0=sp_probe(); int t0=x87_probe(); for(int it=0; it<9; it++) { x_5++; } long s1=sp_probe(); int t1=x87_probe(); printf("131 %ld %x %x\n", s1-s0, t0, t1); asm("fninit"); }
void c132(void){ long s0=sp_probe(); int t0=x87_probe(); for(int it=0; it<9; it++) { --x_5; } long s1=sp_probe(); int t1=x87_probe(); printf("132 %ld %x %x\n", s1-s0, t0, t1); asm("fninit"); }
void c133(void){ long s0=sp_probe(); int t0=x87_probe(); for(int it=0; it<9; it++) { (1 < 1); } long s1=sp_probe(); int t1=x87_probe(); printf("133 %ld %x %x\n", s1-s0, t0, t1); asm("fninit"); }
void c134(void){ long s0=sp_probe(); int t0=x87_probe(); for(int it=0; it<9; it++) { (1 + 1); } long s1=sp_probe(); int t1=x87_probe(); printf("134 %ld %x %x\n", s1-s0, t0, t1); asm("fninit"); }
void c135(void){ long s0=sp_probe(); int t0=x87_probe(); for(int it=0; it<9; it++) { (int)1; } long s1=sp_probe(); int t1=x87_probe(); printf("135 %ld %x %x\n", s1-s0, t0, t1); asm("fninit"); }
void c136(void){ long s0=sp_probe(); int t0=x87_probe(); for(int it=0; it<9; it++) { (long double)1; } long s1=sp_probe(); int t1=x87_probe(); printf("136 %ld %x %x\n", s1-s0, t0, t1); asm("fninit"); }
void c137(void){ long s0=sp_probe(); int t0=x87_probe(); for(int it=0; it<9; it++) { (float)1; } long s1=sp_probe(); int t1=x87_probe(); printf("137 %ld %x %x\n", s1-s0, t0, t1); asm("fninit"); }
char f_6(void){ char r = 'a'; return r; }
void g_6(char p){ }
char x_6, y_6;
void c138(void){ long s0=sp_probe(); int t0=x87_probe(); for(int it=0; it<9; it++) { 'a'; } long s1=sp_probe(); int t1=x87_probe(); printf("138 %ld %x %x\n", s1-s0, t0, t1); asm("fninit"); }
void c139(void){ long s0=sp_probe(); int t0=x87_probe(); for(int it=0; it<9; it++) { ('a', 0); } long s1=sp_probe(); int t1=x87_probe(); printf("139 %ld %x %x\n", s1-s0, t0, t1); asm("fninit"); }
void c140(void){ long s0=sp_probe(); int t0=x87_probe(); for(int it=0; it<9; it++) { (void)'a'; } long s1=sp_probe(); int t1=x87_probe(); printf("140 %ld %x %x\n", s1-s0, t0, t1); asm("fninit"); }
void c141(void){ long s0=sp_probe(); int t0=x87_probe(); for(int it=0; it<9; it++) { f_6(); } long s1=sp_probe(); int t1=x87_probe(); printf("141 %ld %x %x\n", s1-s0, t0, t1); asm("fninit"); }
void c142(void){ long s0=sp_probe(); int t0=x87_probe(); for(int it=0; it<9; it++) { (k ? 'a' : 'a'); } long s1=sp_probe(); int t1=x87_probe(); printf("142 %ld %x %x\n", s1-s0, t0, t1); asm("fninit"); }
void c143(void){ long s0=sp_probe(); int t0=x87_probe(); for(int it=0; it<9; it++) { x_6 = 'a'; } long s1=sp_probe(); int t1=x87_probe(); printf("143 %ld %x %x\n", s1-s0, t0, t1); asm("fninit"); }
void c144(void){ long s0=sp_probe(); int t0=x87_probe(); for(int it=0; it<9; it++) { x_6 = y_6 = 'a'; } long s1=sp_probe(); int t1=x87_probe(); printf("144 %ld %x %x\n", s1-s0, t0, t1); asm("fninit"); }
void c145(void){ long s0=sp_probe(); int t0=x87_probe(); for(int it=0; it<9; it++) { for (int q=0;q<1;q++, 'a') ; } long s1=sp_probe(); int t1=x87_probe(); printf("145 %ld %x %x\n", s1-s0, t0, t1); asm("fninit"); }
void c146(void){ long s0=sp_probe(); int t0=x87_probe(); for(int it=0; it<9; it++) { for ('a';0;) ; } long s1=sp_probe(); int t1=x87_probe(); printf("146 %ld %x %x\n", s1-s0, t0, t1); asm("fninit"); }
void c147(void){ long s0=sp_probe(); int t0=x87_probe(); for(int it=0; it<9; it++) { ({ 'a'; 'a'; }); } long s1=sp_probe(); int t1=x87_probe(); printf("147 %ld %x %x\n", s1-s0, t0, t1); asm("fninit"); }
void c148(void){ long s0=sp_probe(); int t0=x87_probe(); for(int it=0; it<9; it++) { ('a' && 'a'); } long s1=sp_probe(); int t1=x87_probe(); printf("148 %ld %x %x\n", s1-s0, t0, t1); asm("fninit"); }
void c149(void){ long s0=sp_probe(); int t0=x87_probe(); for(int it=0; it<9; it++) { !'a'; } long s1=sp_probe(); int t1=x87_probe(); printf("149 %ld %x %x\n", s1-s0, t0, t1); asm("fninit"); }
void c150(void){ long s0=sp_probe(); int t0=x87_probe(); for(int it=0; it<9; it++) { -'a'; } long s1=sp_probe(); int t1=x87_probe(); printf("150 %ld %x %x\n", s1-s0, t0, t1); asm("fninit"); }
void c151(void){ long s0=sp_probe(); int t0=x87_probe(); for(int it=0; it<9; it++) { g_6('a'); } long s1=sp_probe(); int t1=x87_probe(); printf("151 %ld %x %x\n", s1-s0, t0, t1); asm("fninit"); }
void c152(void){ long s0=sp_probe(); int t0=x87_probe(); for(int it=0; it<9; it++) { x_6 = k ? 'a' : x_6; } long s1=sp_probe(); int t1=x87_probe(); printf("152 %ld %x %x\n", s1-s0, t0, t1); asm("fninit"); }
void c153(void){ long s0=sp_probe(); int t0=x87_probe(); for(int it=0; it<9; it++) { x_6 += 'a'; } long s1=sp_probe(); int t1=x87_probe(); printf("153 %ld %x %x\n", s1-s0, t0, t1); asm("fninit"); }
void c154(void){ long s0=sp_probe(); int t0=x87_probe(); for(int it=0; it<9; it++) { x_6++; } long s1=sp_probe(); int t1=x87_probe(); printf("154 %ld %x %x\n", s1-s0, t0, t1); asm("fninit"); }
void c155(void){ long s0=sp_probe(); int t0=x87_probe(); for(int it=0; it<9; it++) { --x_6; } long s1=sp_probe(); int t1=x87_probe(); printf("155 %ld %x %x\n", s1-s0, t0, t1); asm("fninit"); }
void c156(void){ long s0=sp_probe(); int t0=x87_probe(); for(int it=0; it<9; it++) { ('a' < 'a'); } long s1=sp_probe(); int t1=x87_probe(); printf("156 %ld %x %x\n", s1-s0, t0, t1); asm("fninit"); }
void c157(void){ long s0=sp_probe(); int t0=x87_probe(); for(int it=0; it<9; it++) { ('a' + 'a'); } long s1=sp_probe(); int t1=x87_probe(); printf("157 %ld %x %x\n", s1-s0, t0, t1); asm("fninit"); }
void c158(void){ long s0=sp_probe(); int t0=x87_probe(); for(int it=0; it<9; it++) { (int)'a'; } long s1=sp_probe(); int t1=x87_probe(); printf("158 %ld %x %x\n", s1-s0, t0, t1); asm("fninit"); }
void c159(void){ long s0=sp_probe(); int t0=x87_probe(); for(int it=0; it<9; it++) { (long double)'a'; } long s1=sp_probe(); int t1=x87_probe(); printf("159 %ld %x %x\n", s1-s0, t0, t1); asm("fninit"); }
void c160(void){ long s0=sp_probe(); int t0=x87_probe(); for(int it=0; it<9; it++) { (float)'a'; } long s1=sp_probe(); int t1=x87_probe(); printf("160 %ld %x %x\n", s1-s0, t0, t1); asm("fninit"); }
struct S f_7(void){ struct S r = sv; return r; }
void g_7(struct S p){ }
struct S x_7, y_7;
void c161(void){ long s0=sp_probe(); int t0=x87_probe(); for(int it=0; it<9; it++) { sv; } long s1=sp_probe(); int t1=x87_probe(); printf("161 %ld %x %x\n", s1-s0, t0, t1); asm("fninit"); }
void c162(void){ long s0=sp_probe(); int t0=x87_probe(); for(int it=0; it<9; it++) { (sv, 0); } long s1=sp_probe(); int t1=x87_probe(); printf("162 %ld %x %x\n", s1-s0, t0, t1); asm("fninit"); }
void c163(void){ long s0=sp_probe(); int t0=x87_probe(); for(int it=0; it<9; it++) { (void)sv; } long s1=sp_probe(); int t1=x87_probe(); printf("163 %ld %x %x\n", s1-s0, t0, t1); asm("fninit"); }
void c164(void){ long s0=sp_probe(); int t0=x87_probe(); for(int it=0; it<9; it++) { f_7(); } long s1=sp_probe(); int t1=x87_probe(); printf("164 %ld %x %x\n", s1-s0, t0, t1); asm("fninit"); }
void c165(void){ long s0=sp_probe(); int t0=x87_probe(); for(int it=0; it<9; it++) { (k ? sv : sv); } long s1=sp_probe(); int t1=x87_probe(); printf("165 %ld %x %x\n", s1-s0, t0, t1); asm("fninit"); }
void c166(void){ long s0=sp_probe(); int t0=x87_probe(); for(int it=0; it<9; it++) { x_7 = sv; } long s1=sp_probe(); int t1=x87_probe(); printf("166 %ld %x %x\n", s1-s0, t0, t1); asm("fninit"); }
void c167(void){ long s0=sp_probe(); int t0=x87_probe(); for(int it=0; it<9; it++) { x_7 = y_7 = sv; } long s1=sp_probe(); int t1=x87_probe(); printf("167 %ld %x %x\n", s1-s0, t0, t1); asm("fninit"); }
void c168(void){ long s0=sp_probe(); int t0=x87_probe(); for(int it=0; it<9; it++) { for (int q=0;q<1;q++, sv) ; } long s1=sp_probe(); int t1=x87_probe(); printf("168 %ld %x %x\n", s1-s0, t0, t1); asm("fninit"); }
void c169(void){ long s0=sp_probe(); int t0=x87_probe(); for(int it=0; it<9; it++) { for (sv;0;) ; } long s1=sp_probe(); int t1=x87_probe(); printf("169 %ld %x %x\n", s1-s0, t0, t1); asm("fninit"); }
void c170(void){ long s0=sp_probe(); int t0=x87_probe(); for(int it=0; it<9; it++) { ({ sv; sv; }); } long s1=sp_probe(); int t1=x87_probe(); printf("170 %ld %x %x\n", s1-s0, t0, t1); asm("fninit"); }
void c171(void){ long s0=sp_probe(); int t0=x87_probe(); for(int it=0; it<9; it++) { g_7(sv); } long s1=sp_probe(); int t1=x87_probe(); printf("171 %ld %x %x\n", s1-s0, t0, t1); asm("fninit"); }
void c172(void){ long s0=sp_probe(); int t0=x87_probe(); for(int it=0; it<9; it++) { x_7 = k ? sv : x_7; } long s1=sp_probe(); int t1=x87_probe(); printf("172 %ld %x %x\n", s1-s0, t0, t1); asm("fninit"); }
unsigned long f_8(void){ unsigned long r = 7UL; return r; }
void g_8(unsigned long p){ }
unsigned long x_8, y_8;
void c173(void){ long s0=sp_probe(); int t0=x87_probe(); for(int it=0; it<9; it++) { 7UL; } long s1=sp_probe(); int t1=x87_probe(); printf("173 %ld %x %x\n", s1-s0, t0, t1); asm("fninit"); }
void c174(void){ long s0=sp_probe(); int t0=x87_probe(); for(int it=0; it<9; it++) { (7UL, 0); } long s1=sp_probe(); int t1=x87_probe(); printf("174 %ld %x %x\n", s1-s0, t0, t1); asm("fninit"); }
void c175(void){ long s0=sp_probe(); int t0=x87_probe(); for(int it=0; it<9; it++) { (void)7UL; } long s1=sp_probe(); int t1=x87_probe(); printf("175 %ld %x %x\n", s1-s0, t0, t1); asm("fninit"); }
void c176(void){ long s0=sp_probe(); int t0=x87_probe(); for(int it=0; it<9; it++) { f_8(); } long s1=sp_probe(); int t1=x87_probe(); printf("176 %ld %x %x\n", s1-s0, t0, t1); asm("fninit"); }
void c177(void){ long s0=sp_probe(); int t0=x87_probe(); for(int it=0; it<9; it++) { (k ? 7UL : 7UL); } long s1=sp_probe(); int t1=x87_probe(); printf("177 %ld %x %x\n", s1-s0, t0, t1); asm("fninit"); }
void c178(void){ long s0=sp_probe(); int t0=x87_probe(); for(int it=0; it<9; it++) { x_8 = 7UL; } long s1=sp_probe(); int t1=x87_probe(); printf("178 %ld %x %x\n", s1-s0, t0, t1); asm("fninit"); }
void c179(void){ long s0=sp_probe(); int t0=x87_probe(); for(int it=0; it<9; it++) { x_8 = y_8 = 7UL; } long s1=sp_probe(); int t1=x87_probe(); printf("179 %ld %x %x\n", s1-s0, t0, t1); asm("fninit"); }
void c180(void){ long s0=sp_probe(); int t0=x87_probe(); for(int it=0; it<9; it++) { for (int q=0;q<1;q++, 7UL) ; } long s1=sp_probe(); int t1=x87_probe(); printf("180 %ld %x %x\n", s1-s0, t0, t1); asm("fninit"); }
void c181(void){ long s0=sp_probe(); int t0=x87_probe(); for(int it=0; it<9; it++) { for (7UL;0;) ; } long s1=sp_probe(); int t1=x87_probe(); printf("181 %ld %x %x\n", s1-s0, t0, t1); asm("fninit"); }
void c182(void){ long s0=sp_probe(); int t0=x87_probe(); for(int it=0; it<9; it++) { ({ 7UL; 7UL; }); } long s1=sp_probe(); int t1=x87_probe(); printf("182 %ld %x %x\n", s1-s0, t0, t1); asm("fninit"); }
void c183(void){ long s0=sp_probe(); int t0=x87_probe(); for(int it=0; it<9; it++) { (7UL && 7UL); } long s1=sp_probe(); int t1=x87_probe(); printf("183 %ld %x %x\n", s1-s0, t0, t1); asm("fninit"); }
void c184(void){ long s0=sp_probe(); int t0=x87_probe(); for(int it=0; it<9; it++) { !7UL; } long s1=sp_probe(); int t1=x87_probe(); printf("184 %ld %x %x\n", s1-s0, t0, t1); asm("fninit"); }
void c185(void){ long s0=sp_probe(); int t0=x87_probe(); for(int it=0; it<9; it++) { -7UL; } long s1=sp_probe(); int t1=x87_probe(); printf("185 %ld %x %x\n", s1-s0, t0, t1); asm("fninit"); }
void c186(void){ long s0=sp_probe(); int t0=x87_probe(); for(int it=0; it<9; it++) { g_8(7UL); } long s1=sp_probe(); int t1=x87_probe(); printf("186 %ld %x %x\n", s1-s0, t0, t1); asm("fninit"); }
void c187(void){ long s0=sp_probe(); int t0=x87_probe(); for(int it=0; it<9; it++) { x_8 = k ? 7UL : x_8; } long s1=sp_probe(); int t1=x87_probe(); printf("187 %ld %x %x\n", s1-s0, t0, t1); asm("fninit"); }
void c188(void){ long s0=sp_probe(); int t0=x87_probe(); for(int it=0; it<9; it++) { x_8 += 7UL; } long s1=sp_probe(); int t1=x87_probe(); printf("188 %ld %x %x\n", s1-s0, t0, t1); asm("fninit"); }
void c189(void){ long s0=sp_probe(); int t0=x87_probe(); for(int it=0; it<9; it++) { x_8++; } long s1=sp_probe(); int t1=x87_probe(); printf("189 %ld %x %x\n", s1-s0, t0, t1); asm("fninit"); }
void c190(void){ long s0=sp_probe(); int t0=x87_probe(); for(int it=0; it<9; it++) { --x_8; } long s1=sp_probe(); int t1=x87_probe(); printf("190 %ld %x %x\n", s1-s0, t0, t1); asm("fninit"); }
void c191(void){ long s0=sp_probe(); int t0=x87_probe(); for(int it=0; it<9; it++) { (7UL < 7UL); } long s1=sp_probe(); int t1=x87_probe(); printf("191 %ld %x %x\n", s1-s0, t0, t1); asm("fninit"); }
void c192(void){ long s0=sp_probe(); int t0=x87_probe(); for(int it=0; it<9; it++) { (7UL + 7UL); } long s1=sp_probe(); int t1=x87_probe(); printf("192 %ld %x %x\n", s1-s0, t0, t1); asm("fninit"); }
void c193(void){ long s0=sp_probe(); int t0=x87_probe(); for(int it=0; it<9; it++) { (int)7UL; } long s1=sp_probe(); int t1=x87_probe(); printf("193 %ld %x %x\n", s1-s0, t0, t1); asm("fninit"); }
void c194(void){ long s0=sp_probe(); int t0=x87_probe(); for(int it=0; it<9; it++) { (long double)7UL; } long s1=sp_probe(); int t1=x87_probe(); printf("194 %ld %x %x\n", s1-s0, t0, t1); asm("fninit"); }
void c195(void){ long s0=sp_probe(); int t0=x87_probe(); for(int it=0; it<9; it++) { (float)7UL; } long s1=sp_probe(); int t1=x87_probe(); printf("195 %ld %x %x\n", s1-s0, t0, t1); asm("fninit"); }
void* f_9(void){ void* r = (void*)0; return r; }
void g_9(void* p){ }
void* x_9, y_9;
void c196(void){ long s0=sp_probe(); int t0=x87_probe(); for(int it=0; it<9; it++) { (void*)0; } long s1=sp_probe(); int t1=x87_probe(); printf("196 %ld %x %x\n", s1-s0, t0, t1); asm("fninit"); }
void c197(void){ long s0=sp_probe(); int t0=x87_probe(); for(int it=0; it<9; it++) { ((void*)0, 0); } long s1=sp_probe(); int t1=x87_probe(); printf("197 %ld %x %x\n", s1-s0, t0, t1); asm("fninit"); }
void c198(void){ long s0=sp_probe(); int t0=x87_probe(); for(int it=0; it<9; it++) { (void)(void*)0; } long s1=sp_probe(); int t1=x87_probe(); printf("198 %ld %x %x\n", s1-s0, t0, t1); asm("fninit"); }
void c199(void){ long s0=sp_probe(); int t0=x87_probe(); for(int it=0; it<9; it++) { f_9(); } long s1=sp_probe(); int t1=x87_probe(); printf("199 %ld %x %x\n", s1-s0, t0, t1); asm("fninit"); }
void c200(void){ long s0=sp_probe(); int t0=x87_probe(); for(int it=0; it<9; it++) { (k ? (void*)0 : (void*)0); } long s1=sp_probe(); int t1=x87_probe(); printf("200 %ld %x %x\n", s1-s0, t0, t1); asm("fninit"); }
void c201(void){ long s0=sp_probe(); int t0=x87_probe(); for(int it=0; it<9; it++) { x_9 = (void*)0; } long s1=sp_probe(); int t1=x87_probe(); printf("201 %ld %x %x\n", s1-s0, t0, t1); asm("fninit"); }
void c202(void){ long s0=sp_probe(); int t0=x87_probe(); for(int it=0; it<9; it++) { x_9 = y_9 = (void*)0; } long s1=sp_probe(); int t1=x87_probe(); printf("202 %ld %x %x\n", s1-s0, t0, t1); asm("fninit"); }
void c203(void){ long s0=sp_probe(); int t0=x87_probe(); for(int it=0; it<9; it++) { for (int q=0;q<1;q++, (void*)0) ; } long s1=sp_probe(); int t1=x87_probe(); printf("203 %ld %x %x\n", s1-s0, t0, t1); asm("fninit"); }
void c204(void){ long s0=sp_probe(); int t0=x87_probe(); for(int it=0; it<9; it++) { for ((void*)0;0;) ; } long s1=sp_probe(); int t1=x87_probe(); printf("204 %ld %x %x\n", s1-s0, t0, t1); asm("fninit"); }
void c205(void){ long s0=sp_probe(); int t0=x87_probe(); for(int it=0; it<9; it++) { ({ (void*)0; (void*)0; }); } long s1=sp_probe(); int t1=x87_probe(); printf("205 %ld %x %x\n", s1-s0, t0, t1); asm("fninit"); }
void c206(void){ long s0=sp_probe(); int t0=x87_probe(); for(int it=0; it<9; it++) { ((void*)0 && (void*)0); } long s1=sp_probe(); int t1=x87_probe(); printf("206 %ld %x %x\n", s1-s0, t0, t1); asm("fninit"); }
void c207(void){ long s0=sp_probe(); int t0=x87_probe(); for(int it=0; it<9; it++) { !(void*)0; } long s1=sp_probe(); int t1=x87_probe(); printf("207 %ld %x %x\n", s1-s0, t0, t1); asm("fninit"); }
void c208(void){ long s0=sp_probe(); int t0=x87_probe(); for(int it=0; it<9; it++) { g_9((void*)0); } long s1=sp_probe(); int t1=x87_probe(); printf("208 %ld %x %x\n", s1-s0, t0, t1); asm("fninit"); }
void c209(void){ long s0=sp_probe(); int t0=x87_probe(); for(int it=0; it<9; it++) { x_9 = k ? (void*)0 : x_9; } long s1=sp_probe(); int t1=x87_probe(); printf("209 %ld %x %x\n", s1-s0, t0, t1); asm("fninit"); }
void c210(void){ long s0=sp_probe(); int t0=x87_probe(); for(int it=0; it<9; it++) { ((void*)0 < (void*)0); } long s1=sp_probe(); int t1=x87_probe(); printf("210 %ld %x %x\n", s1-s0, t0, t1); asm("fninit"); }
void c211(void){ long s0=sp_probe(); int t0=x87_probe(); for(int it=0; it<9; it++) { (int)(void*)0; } long s1=sp_probe(); int t1=x87_probe(); printf("211 %ld %x %x\n", s1-s0, t0, t1); asm("fninit"); }
int main(){c0();c1();c2();c3();c4();c5();c6();c7();c8();c9();c10();c11();c12();c13();c14();c15();c16();c17();c18();c19();c20();c21();c22();c23();c24();c25();c26();c27();c28();c29();c30();c31();c32();c33();c34();c35();c36();c37();c38();c39();c40();c41();c42();c43();c44();c45();c46();c47();c48();c49();c50();c51();c52();c53();c54();c55();c56();c57();c58();c59();c60();c61();c62();c63();c64();c65();c66();c67();c68();c69();c70();c71();c72();c73();c74();c75();c76();c77();c78();c79();c80();c81();c82();c83();c84();c85();c86();c87();c88();c89();c90();c91();c92();c93();c94();c95();c96();c97();c98();c99();c100();c101();c102();c103();c104();c105();c106();c107();c108();c109();c110();c111();c112();c113();c114();c115();c116();c117();c118();c119();c120();c121();c122();c123();c124();c125();c126();c127();c128();c129();c130();c131();c132();c133();c134();c135();c136();c137();c138();c139();c140();c141();c142();c143();c144();c145();c146();c147();c148();c149();c150();c151();c152();c153();c154();c155();c156();c157();c158();c159();c160();c161();c162();c163();c164();c165();c166();c167();c168();c169();c170();c171();c172();c173();c174();c175();c176();c177();c178();c179();c180();c181();c182();c183();c184();c185();c186();c187();c188();c189();c190();c191();c192();c193();c194();c195();c196();c197();c198();c199();c200();c201();c202();c203();c204();c205();c206();c207();c208();c209();c210();c211();}