// usage: tracer <opname> <schedule-string of 0/1> ; prints final value
#define _GNU_SOURCE
#include <stdio.h>
#include <stdlib.h>
#include <string.h>
#include <sys/mman.h>
#include <sys/ptrace.h>
#include <sys/wait.h>
#include <sys/user.h>
#include <unistd.h>
#include <signal.h>
void op_plain(void*); void op_member(void*); void op_xor(void*);
static void child(void (*op)(void*), void *p){
  ptrace(PTRACE_TRACEME,0,0,0);
  __asm__ volatile("int3");
  op(p);
  __asm__ volatile("int3");
  _exit(0);
}
static int at_marker(pid_t pid){ struct user_regs_struct r; ptrace(PTRACE_GETREGS,pid,0,&r); long w=ptrace(PTRACE_PEEKTEXT,pid,(void*)(r.rip-1),0); return (w&0xff)==0xCC; }
int main(int argc,char**argv){
  void (*op)(void*) = !strcmp(argv[1],"plain")?op_plain:!strcmp(argv[1],"member")?op_member:op_xor;
  int off = !strcmp(argv[1],"member")?4:0;
  char *sh = mmap(0,4096,PROT_READ|PROT_WRITE,MAP_SHARED|MAP_ANONYMOUS,-1,0);
  const char *sched=argv[2]; int rounds=0, bad=0; long steps=0;
  for(const char *s=sched; *s; ){
    memset(sh,0,64);
    pid_t pid[2]; int done[2]={0,0}, st;
    for(int i=0;i<2;i++){ pid[i]=fork(); if(!pid[i]) child(op, sh+(off?0:0)); waitpid(pid[i],&st,0); /* stopped at first int3 */ }
    while(!(done[0]&&done[1])){
      int who = (*s? (*s++ - '0') : 0) & 1;
      if(done[who]) who=!who;
      ptrace(PTRACE_SINGLESTEP,pid[who],0,0); waitpid(pid[who],&st,0); steps++;
      if(WIFEXITED(st)||WIFSIGNALED(st)){ done[who]=1; continue; }
      if(at_marker(pid[who])){ done[who]=1; ptrace(PTRACE_KILL,pid[who],0,0); waitpid(pid[who],&st,0);}    
    }
    int v = !strcmp(argv[1],"xor") ? *(short*)sh : *(int*)(sh+off);
    int expect = !strcmp(argv[1],"xor") ? 0 : 6;
    rounds++; if(v!=expect) bad++;
    if(!*s) break;
  }
  printf("rounds=%d bad=%d steps=%ld\n",rounds,bad,steps); return bad!=0;
}
