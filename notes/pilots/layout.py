import random, subprocess, sys, collections, multiprocessing, tempfile, re
C='/tmp/scratch/cc/chibicc'
SC=[('char',1),('unsigned char',1),('short',2),('unsigned short',2),('int',4),('unsigned',4),('long',8),('unsigned long',8),('_Bool',1),('float',4),('double',8),('long double',16),('char*',8)]
BF=[('char',8),('unsigned char',8),('short',16),('unsigned short',16),('int',32),('unsigned',32),('long',64),('unsigned long',64),('_Bool',1)]
ALN={'char':1,'unsigned char':1,'short':2,'unsigned short':2,'int':4,'unsigned':4,'long':8,'unsigned long':8,'_Bool':1,'float':4,'double':8,'long double':16,'char*':8}
def gen_body(rng,depth,feat,pref):
    """returns (kind, attr, body_text, names) ; names: list of (path,isbf)"""
    kind=rng.choice(['struct']*4+['union'])
    packed = rng.random()<0.12; aligned = rng.choice([0,0,0,0,0,2,8,16,32])
    mems=[]; names=[]
    n=rng.randint(1,7)
    for i in range(n):
        r=rng.random(); nm=f'{pref}m{i}'
        if r<0.35 and kind=='struct':
            bt,bits=rng.choice(BF); w=rng.randint(0,bits) if rng.random()<0.85 else bits
            if w==0 or rng.random()<0.1:
                mems.append(f'{bt} : {w};'); feat.add('unnamed_bf' if w else 'zero_bf')
            else:
                mems.append(f'{bt} {nm} : {w};'); names.append((nm,True)); feat.add('bf')
                if w>32: feat.add('bf_wide')
            if packed: feat.add('packed_bf')
        elif r<0.5 and depth>0:
            k2,a2,b2,n2=gen_body(rng,depth-1,feat,nm+'_')
            if rng.random()<0.35:
                mems.append(f'{k2}{a2} {{ {b2} }};'); feat.add('anon'); names+=n2
            else:
                mems.append(f'{k2}{a2} {{ {b2} }} {nm};'); names.append((nm,False)); names+=[(nm+'.'+p,bf) for p,bf in n2]
        elif r<0.65:
            t,_=rng.choice(SC); k=rng.randint(1,5); mems.append(f'{t} {nm}[{k}];'); names.append((nm,False))
        else:
            t,_=rng.choice(SC); al=''
            if rng.random()<0.1:
                a=rng.choice([x for x in [1,2,4,8,16,32] if x>=ALN[t]]); al=f'_Alignas({a}) '; feat.add('alignas')
            mems.append(f'{al}{t} {nm};'); names.append((nm,False))
    attr=[]
    if packed: attr.append('packed'); feat.add('packed')
    if aligned: attr.append(f'aligned({aligned})'); feat.add('aligned')
    a=f' __attribute__(({",".join(attr)}))' if attr else ''
    return kind,a,' '.join(mems),names
def gen_struct(rng,name,depth,defs,feat):
    kind,a,body,names=gen_body(rng,depth,feat,'')
    if rng.random()<0.5: txt=f'{kind}{a} {name} {{ {body} }};'
    else: txt=f'{kind} {name} {{ {body} }}{a};'
    defs[name]=(kind,names,txt)
def run(seed):
    rng=random.Random(seed); out=['int printf(const char*,...);']; body=[]; cases=[]
    for i in range(12):
        defs={}; feat=set(); gen_struct(rng,f'S{i}',2,defs,feat)
        # nested defs must come first: order of insertion has children before parent? children inserted before parent assignment -> yes
        for k in defs: out.append(defs[k][2])
        kind,names,_=defs[f'S{i}']
        b=f'  printf("{i} sz=%d al=%d\\n",(int)sizeof({kind} S{i}),(int)_Alignof({kind} S{i}));\n'
        for nm,isbf in names:
            if isbf:
                b+=f'  {{ {kind} S{i} v; unsigned char*p=(unsigned char*)&v; for(int j=0;j<sizeof v;j++)p[j]=0; v.{nm}=-1; printf("{i} {nm} bits:"); for(int j=0;j<sizeof v;j++)printf("%02x",p[j]); printf("\\n"); }}\n'
            else:
                b+=f'  printf("{i} {nm} off=%d sz=%d\\n",(int)(long)&((({kind} S{i}*)0)->{nm}),(int)sizeof((({kind} S{i}*)0)->{nm}));\n'
        body.append(f'void c{i}(void){{\n{b}}}'); cases.append((i,feat,[defs[k][2] for k in defs]))
    src='\n'.join(out+body)+'\nint main(){'+''.join(f'c{i}();' for i in range(12))+'}\n'
    d=tempfile.mkdtemp(prefix='ly'); f=f'{d}/t.c'; open(f,'w').write(src)
    g=subprocess.run(['gcc','-w','-O0','-o',f'{d}/gcc',f],capture_output=True,text=True)
    if g.returncode!=0: return seed,'gcc-fail',g.stderr[:500],[]
    p=subprocess.run([C,'-o',f'{d}/chi',f],capture_output=True,text=True)
    if p.returncode!=0: return seed,'chibicc-fail',p.stderr[-500:]+str([c[2] for c in cases][:0]),[]
    o1=subprocess.run([f'{d}/chi'],capture_output=True,text=True).stdout.split('\n')
    o2=subprocess.run([f'{d}/gcc'],capture_output=True,text=True).stdout.split('\n')
    bad=[]
    for i,feat,txt in cases:
        a=[l for l in o1 if l.startswith(f'{i} ')]; b=[l for l in o2 if l.startswith(f'{i} ')]
        if a!=b:
            diff=[(x,y) for x,y in zip(a,b) if x!=y][:2]
            bad.append((tuple(sorted(feat)),txt,diff))
    subprocess.run(['rm','-rf',d])
    return seed,'ok','',bad
if __name__=='__main__':
    n=int(sys.argv[1])
    with multiprocessing.Pool(16) as p: res=p.map(run,range(n))
    cnt=collections.Counter(); byfeat=collections.Counter(); ex={}
    for seed,st,msg,bad in res:
        cnt[st]+=1
        if st!='ok': print(seed,st,msg[:300])
        for f,txt,diff in bad:
            byfeat[f]+=1
            if f not in ex or len(str(txt))<len(str(ex[f][0])): ex[f]=(txt,diff)
    print(cnt, sum(byfeat.values()),'mismatching structs')
    for f,k in byfeat.most_common(30): print(k,f,'\n    ',ex[f][0],'\n    ',ex[f][1])
