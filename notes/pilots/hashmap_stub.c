#include <stdio.h>
#include <stdlib.h>
#include <stdarg.h>
void error(char *fmt, ...) { va_list ap; va_start(ap, fmt); vfprintf(stderr, fmt, ap); fprintf(stderr, "\n"); abort(); }
