#include <stdatomic.h>
int printf(const char*,...);
typedef unsigned long pthread_t;
int pthread_create(pthread_t*,void*,void*(*)(void*),void*); int pthread_join(pthread_t,void**);
#define N 3000000
#define T 8
struct R { char pad; _Atomic short s; _Atomic long l; } r;
_Atomic int ready; _Atomic int go;
static void *th(void *a){ ready += 1; while (!go) ; for(int i=0;i<N;i++){ r.l -= 2; } return 0; }
int main(){ pthread_t t[T]; for(long i=0;i<T;i++) pthread_create(&t[i],0,th,(void*)i); while (ready != T) ; go = 1; for(int i=0;i<T;i++) pthread_join(t[i],0);
  printf("r.l=%ld(%ld) %s\n", r.l,-2L*T*N, r.l==-2L*T*N?"ok":"LOST"); return 0; }
