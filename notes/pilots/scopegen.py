# Pilot (exploratory): shadowing across file / parameter / block / for-init scope in both name spaces.
import random, subprocess, sys, os, tempfile, collections, multiprocessing
C=os.environ.get('CHI','/tmp/scratch/cc/chibicc')
NAMES=['a','b','T','U']
class G:
    def __init__(s,r): s.r=r; s.id=0; s.lab=0
    def nid(s): s.id+=1; return s.id
    def decl(s,env,tags,allow_static=True,here=None):
        r=s.r; k=r.random(); i=s.nid()
        space = 'tag' if k>=0.75 else 'ord'
        cand=[n for n in NAMES if here is None or (space,n) not in here]
        if not cand: return ';'
        n=r.choice(cand)
        if here is not None: here.add((space,n))
        if k<0.4:
            st=r.choice(['','','static ']) if allow_static else ''
            env[n]=('var',i); return f'{st}int {n} = {i};'
        if k<0.6: env[n]=('typedef',i); return f'typedef struct {{ char c[{i}]; }} {n};'
        if k<0.75: env[n]=('enum',i); return f'enum {{ {n} = {i} }};'
        if k<0.9: tags[n]=('struct',i); return f'struct {n} {{ char c[{i}]; }};'
        tags[n]=('union',i); return f'union {n} {{ char c[{i}]; }};'
    def use(s,env,tags):
        r=s.r; out=[]
        for n in r.sample(NAMES,r.randint(1,3)):
            if n in env:
                kind,i=env[n]
                if kind=='typedef': out.append(f'printf(" {n}:t%d",(int)sizeof({n}));')
                else: out.append(f'printf(" {n}:v%d",(int){n});')
            if n in tags:
                kw,i=tags[n]; out.append(f'printf(" {n}:g%d",(int)sizeof({kw} {n}));')
        return ' '.join(out)
    def block(s,env,tags,d):
        r=s.r; env=dict(env); tags=dict(tags); out=['{']; here=set()
        for _ in range(r.randint(1,5)):
            k=r.random()
            if k<0.35: out.append(s.decl(env,tags,here=here))
            elif k<0.6: out.append(s.use(env,tags))
            elif k<0.75 and d>0: out.append(s.block(env,tags,d-1))
            elif k<0.85 and d>0:
                e2=dict(env); n=r.choice(NAMES); i=s.nid(); e2[n]=('var',i)
                out.append(f'for (int {n} = {i}, once = 1; once; once = 0) '+s.block(e2,tags,d-1))
            elif k<0.93 and d>0:
                # label with the same spelling as an ordinary identifier (separate name space)
                s.lab+=1; n=r.choice(NAMES)
                out.append(f'goto {n}; printf(" skipped"); {n}: ; '+s.use(env,tags)); 
                return '\n'.join(out+['}'])   # one label per block to keep labels unique per function is not guaranteed; stop block here
            else: out.append(s.use(env,tags))
        out.append(s.use(env,tags)); out.append('}')
        return '\n'.join(out)
def gen(seed):
    r=random.Random(seed); g=G(r); env={}; tags={}; top=['int printf(const char*,...);']
    here=set()
    for _ in range(r.randint(1,4)): top.append(g.decl(env,tags,allow_static=False,here=here))
    fns=[]
    for f in range(6):
        e2=dict(env); pn=r.choice(NAMES); i=g.nid(); e2[pn]=('var',i)
        # labels must be unique per function: generate body and drop duplicates by renaming is complex; limit to depth with at most one label by construction
        g.lab=0
        body=g.block(e2,tags,3)
        # duplicate labels in a function are invalid: skip function if any label name repeats
        import re
        labs=re.findall(r'\b([abTU]): ;',body)
        if len(labs)!=len(set(labs)): body='{ '+g.use(e2,tags)+' }'
        fns.append(f'void f{f}(int {pn}) {{ printf("f{f}:"); {body} printf("\\n"); }}')
    return '\n'.join(top+fns)+'\nint main(void){'+''.join(f'f{k}({100+k});' for k in range(6))+'return 0;}\n'
def run(seed):
    src=gen(seed); d=tempfile.mkdtemp(prefix='sc'); f=f'{d}/t.c'; open(f,'w').write(src)
    try:
        g=subprocess.run(['gcc','-w','-O0','-o',f'{d}/gcc',f],capture_output=True,text=True); c=subprocess.run(['clang','-w','-O0','-o',f'{d}/clang',f],capture_output=True,text=True)
        if g.returncode or c.returncode: return seed,'ref-fail',(g.stderr or c.stderr)[:300]
        p=subprocess.run([C,'-o',f'{d}/chi',f],capture_output=True,text=True,timeout=20)
        if p.returncode: return seed,'chi-fail',p.stderr[-300:]
        o=[subprocess.run([f'{d}/{x}'],capture_output=True,text=True,timeout=10).stdout for x in('chi','gcc','clang')]
        if o[1]!=o[2]: return seed,'ref-disagree',''
        if o[0]!=o[1]:
            a=o[0].split('\n'); b=o[1].split('\n'); i=[k for k in range(len(b)) if k>=len(a) or a[k]!=b[k]][0]
            return seed,'MISMATCH',f'{a[i] if i<len(a) else None}\n{b[i]}'
        return seed,'ok',''
    finally: subprocess.run(['rm','-rf',d])
if __name__=='__main__':
    with multiprocessing.Pool(16) as p: res=p.map(run,range(int(sys.argv[1])))
    print(collections.Counter(r[1] for r in res))
    shown=collections.Counter()
    for s,st,m in res:
        if st!='ok' and shown[st]<2: shown[st]+=1; print(s,st,m[:600])
