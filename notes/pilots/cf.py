import random, subprocess, sys, collections, multiprocessing, tempfile
C='/tmp/scratch/cc/chibicc'
class G:
    def __init__(s,rng): s.r=rng; s.mark=0; s.labels=0; s.feat=set(); s.lab_in_scope=[]
    def T(s): s.mark+=1; return f'T({s.mark});'
    def cond(s):
        r=s.r; k=r.random()
        a=r.choice(['i','j','k','x']); b=r.randint(-2,4)
        c=f'{a} {r.choice(["<","<=","==","!=",">",">="])} {b}'
        if k<0.25: c=f'({c}) {r.choice(["&&","||"])} (M({s.nm()}), {r.choice(["i","j","x"])} {r.choice(["<","!="])} {r.randint(0,3)})'
        elif k<0.35: c=f'!({c})'
        elif k<0.45: c=f'({c}) ? M({s.nm()}) : (M({s.nm()}), 0)'
        return c
    def nm(s): s.mark+=1; return s.mark
    def stmt(s,d,inloop,insw):
        r=s.r
        if d<=0: return s.simple(inloop,insw)
        k=r.choice(['if','if','for','while','do','switch','switch','block','goto','simple','simple','stmtexpr'])
        if k=='if':
            t=f'if ({s.cond()}) {{ {s.block(d-1,inloop,insw)} }}'
            if r.random()<0.5: t+=f' else {{ {s.block(d-1,inloop,insw)} }}'
            return t
        if k=='for':
            v=r.choice(['i','j','k']); return f'for ({v} = 0; {v} < {r.randint(1,4)} && fuel-- > 0; {v}++) {{ {s.block(d-1,True,insw)} }}'
        if k=='while':
            v=r.choice(['i','j','k']); return f'{v} = {r.randint(0,3)}; while ({v}-- > 0 && fuel-- > 0) {{ {s.block(d-1,True,insw)} }}'
        if k=='do':
            v=r.choice(['i','j','k']); return f'{v} = {r.randint(0,3)}; do {{ {s.block(d-1,True,insw)} }} while (--{v} > 0 && fuel-- > 0);'
        if k=='switch':
            s.feat.add('switch')
            ty=r.choice(['char','unsigned char','short','int','unsigned','long','unsigned long'])
            vals=r.sample([-3,-1,0,1,2,3,5,7,100,127,200,255],r.randint(1,5))
            if ty.startswith('unsigned'): vals=[abs(v) for v in vals]; vals=list(dict.fromkeys(vals))
            if ty in('char',): vals=[v for v in vals if -128<=v<=127]
            sel=r.choice(vals+[9,4]) if vals else 1
            body=''; dflt=r.randrange(len(vals)+1) if r.random()<0.7 else -1
            rng_done=False
            for n,v in enumerate(vals):
                if n==dflt: body+=f'default: {s.T()} {"" if r.random()<0.5 else "break;"} '
                if r.random()<0.15 and not rng_done and all(not(v<w<=v+2) for w in vals if w!=v) and (ty!='char' or v+2<=127):
                    body+=f'case {v} ... {v+2}: '; rng_done=True; s.feat.add('range')
                    vals=[w for w in vals if not (v<w<=v+2)]
                else: body+=f'case {v}: '
                body+=s.block(d-1,inloop,True)+' '
                if r.random()<0.6: body+='break; '
            if dflt==len(vals): body+=f'default: {s.T()} '
            return f'switch (({ty}){sel}) {{ {body} }}'
        if k=='block':
            return f'{{ int x = {r.randint(0,9)}; {s.T()} P(x); {s.block(d-1,inloop,insw)} }}'
        if k=='goto':
            s.labels+=1; l=f'L{s.labels}'; s.feat.add('goto')
            return f'if (fuel-- > 0 && {s.cond()}) goto {l}; {s.T()} {l}: {s.T()}'
        if k=='stmtexpr':
            s.feat.add('stmtexpr'); return f'x = ({{ {s.T()} {s.block(d-1,False,False)} i + 1; }});'
        return s.simple(inloop,insw)
    def simple(s,inloop,insw):
        r=s.r; k=r.random()
        if inloop and k<0.15: return f'if ({s.cond()}) continue; {s.T()}'
        if (inloop or insw) and k<0.3: return f'if ({s.cond()}) break; {s.T()}'
        if k<0.4: return f'x = (M({s.nm()}), x + 1);'
        return s.T()
    def block(s,d,inloop,insw):
        return ' '.join(s.stmt(d,inloop,insw) for _ in range(s.r.randint(1,3)))
def gen(seed):
    rng=random.Random(seed); fns=[]; 
    for f in range(8):
        g=G(rng); body=g.block(rng.randint(2,4),False,False)
        fns.append(f'void f{f}(void) {{ int i=0,j=0,k=0,x=1,fuel=60; printf("F{f}:"); {body} printf("\\n"); }}')
    return 'int printf(const char*,...);\n#define T(n) printf(" %d",n)\n#define P(v) printf(" p%d",v)\nstatic int M(int n){ printf(" m%d",n); return 1; }\n'+'\n'.join(fns)+'\nint main(){'+''.join(f'f{f}();' for f in range(8))+'return 0;}\n'
def run(seed):
    src=gen(seed); d=tempfile.mkdtemp(prefix='cf'); f=f'{d}/t.c'; open(f,'w').write(src)
    try:
        p=subprocess.run([C,'-o',f'{d}/chi',f],capture_output=True,text=True,timeout=20)
        g=subprocess.run(['gcc','-w','-O0','-o',f'{d}/gcc',f],capture_output=True,text=True)
        c=subprocess.run(['clang','-w','-O0','-o',f'{d}/clang',f],capture_output=True,text=True)
        if g.returncode or c.returncode: return seed,'ref-fail',(g.stderr+c.stderr)[:300]
        if p.returncode: return seed,'chi-fail',p.stderr[-300:]
        o=[subprocess.run([f'{d}/{x}'],capture_output=True,text=True,timeout=10).stdout for x in('chi','gcc','clang')]
        if o[1]!=o[2]: return seed,'ref-disagree',''
        if o[0]!=o[1]:
            a=o[0].split('\n'); b=o[1].split('\n'); i=[k for k in range(len(b)) if k>=len(a) or a[k]!=b[k]][0]
            return seed,'MISMATCH',f'{a[i] if i<len(a) else None}\n{b[i]}\n'+src.split('\n')[4+i]
        return seed,'ok',''
    finally: subprocess.run(['rm','-rf',d])
if __name__=='__main__':
    with multiprocessing.Pool(16) as p: res=p.map(run,range(int(sys.argv[1])))
    c=collections.Counter(r[1] for r in res); print(c)
    for s,st,m in res:
        if st not in('ok',): print(s,st,m[:1500]); break
