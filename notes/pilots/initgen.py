# Pilot: type-directed valid-by-construction initializer generator (6.7.9), oracle = gcc/clang consensus + static==auto
import random, subprocess, sys, collections, multiprocessing, tempfile
C='/tmp/scratch/cc/chibicc'
class Sc:  # scalar
    def __init__(s,ty,bf=0): s.ty=ty; s.bf=bf
class Ar:
    def __init__(s,el,n): s.el=el; s.n=n   # n None = unknown bound
class St:
    def __init__(s,mems,union=False,tag=None): s.mems=mems; s.union=union; s.tag=tag  # mems: list of (name or None, type)
SCAL=['char','unsigned char','short','int','unsigned','long','float','double','_Bool']
def gen_type(r,d,cnt):
    k=r.random()
    if d<=0 or k<0.35:
        return Sc(r.choice(SCAL))
    if k<0.6:
        return Ar(gen_type(r,d-1,cnt) if r.random()<0.7 else Sc(r.choice(['char','int'])),r.randint(1,4))
    mems=[]; union=r.random()<0.2
    for i in range(r.randint(1,4)):
        cnt[0]+=1
        if not union and r.random()<0.2:
            bt=r.choice(['int','unsigned','char','long','short']); w=r.randint(1,{'int':31,'unsigned':31,'char':7,'long':40,'short':15}[bt])
            mems.append((f'b{cnt[0]}',Sc(bt,w)))
        else:
            t=gen_type(r,d-1,cnt)
            if isinstance(t,St) and r.random()<0.25: mems.append((None,t))   # anonymous member
            else: mems.append((f'm{cnt[0]}',t))
    return St(mems,union)
def decl(t,name):
    if isinstance(t,Sc): return f'{t.ty} {name}'+(f' : {t.bf}' if t.bf else '')
    if isinstance(t,Ar): return decl(t.el,f'{name}[{"" if t.n is None else t.n}]')
    return f'{"union" if t.union else "struct"} {{ '+' '.join(decl(mt,mn or '')+';' for mn,mt in t.mems)+f' }} {name}'
def leaves(t,path,n_unknown=0):
    """yield (path expr, Sc) for every named leaf"""
    if isinstance(t,Sc): yield path,t
    elif isinstance(t,Ar):
        n=t.n if t.n is not None else n_unknown
        for i in range(n): yield from leaves(t.el,f'{path}[{i}]')
    else:
        for mn,mt in t.mems: yield from leaves(mt,f'{path}.{mn}' if mn else path)
def subobjs(t):
    """direct subobjects: list of (designator text, type)"""
    if isinstance(t,Ar): return [(f'[{i}]',t.el) for i in range(t.n if t.n is not None else 6)]
    # struct/union: anonymous members are members too (positional), designators reach through them
    return [((f'.{mn}' if mn else None),mt) for mn,mt in t.mems]
class IG:
    def __init__(s,r): s.r=r; s.k=0; s.feat=set()
    def val(s,t):
        s.k+=1; v=s.k
        if t.ty in('float','double'): return f'{v}.5'
        if t.ty=='_Bool': return str(v%2)
        if t.bf: return str(v % (1<<(t.bf-1 if t.ty!='unsigned' else t.bf)) )
        if t.ty in('char','unsigned char'): return f"'{chr(97+v%26)}'" if s.r.random()<0.5 else str(v%100)
        return str(v)
    def is_chararr(s,t): return isinstance(t,Ar) and isinstance(t.el,Sc) and t.el.ty in('char','unsigned char') and not t.el.bf
    def strlit(s,t):
        n=t.n if t.n is not None else 5
        ln=s.r.randint(0,n)   # len==n drops the NUL: valid
        s.k+=1; return '"'+''.join(chr(97+(s.k+i)%26) for i in range(ln))+'"'
    def init(s,t):
        r=s.r
        if isinstance(t,Sc):
            if r.random()<0.06: s.feat.add('scalar_braces'); return '{ '+s.val(t)+' }'
            return s.val(t)
        if s.is_chararr(t) and r.random()<0.5:
            s.feat.add('string'); x=s.strlit(t); return ('{ '+x+' }') if r.random()<0.2 else x
        return '{ '+s.lst(t)+' }'
    def desig_path(s,t):
        """random designator path from aggregate t: returns (text, stack) where stack=[(aggtype, next_index)...] after the designated subobject, and target type"""
        r=s.r; text=''; stack=[]; cur=t
        while True:
            subs=subobjs(cur)
            named=[(i,d,ty) for i,(d,ty) in enumerate(subs) if d is not None]
            # designators can also name members of anonymous struct/union members: skip that (keeps it simple) 
            if not named: return None
            i,d,ty=r.choice(named)
            if isinstance(cur,Ar) and cur.n is None: i=r.randint(0,4); d=f'[{i}]'
            text+=d; stack.append((cur,i+1)); 
            if isinstance(ty,Sc) or r.random()<0.5: return text,stack,ty
            cur=ty
    def lst(s,T):
        """brace list contents for aggregate T"""
        r=s.r; items=[]; stack=[(T,0)]   # stack of (aggregate, next index)
        nitems=0
        while stack:
            # maybe stop (short list)
            if nitems>0 and r.random()<0.12: s.feat.add('short'); break
            if nitems>12: break
            # designator?
            if r.random()<0.22:
                dp=s.desig_path(T)
                if dp:
                    text,st,ty=dp; s.feat.add('desig'); 
                    if len(st)>1: s.feat.add('nested_desig')
                    items.append(text+' = '+s.init(ty)); nitems+=1; stack=st
                    # union: after designating a member the union is complete
                    stack=[(a,(len(subobjs(a)) if isinstance(a,St) and a.union else i)) for a,i in stack]
                    if len(st)>1: s.pending_resume=True
                    continue
            agg,i=stack[-1]; subs=subobjs(agg)
            lim=len(subs) if not (isinstance(agg,St) and agg.union) else 1
            if isinstance(agg,St) and agg.union and i>=1: stack.pop(); continue
            if i>=lim:
                stack.pop(); continue
            if isinstance(agg,Ar) and agg.n is None and i>=r.randint(1,5): stack.pop(); continue
            d,ty=subs[i]; stack[-1]=(agg,i+1)
            if len(stack)>1: s.feat.add('elision_cont')
            if isinstance(ty,Sc): items.append(s.val(ty)); nitems+=1
            elif s.is_chararr(ty) and r.random()<0.4: s.feat.add('string'); items.append(s.strlit(ty)); nitems+=1
            elif r.random()<0.55: items.append(s.init(ty)); nitems+=1
            else: s.feat.add('elision'); stack.append((ty,0))   # brace elision: descend
        if not items: 
            # at least one item: first leaf
            return '0'
        return ', '.join(items)+(',' if r.random()<0.15 else '')
def count_unknown(text): return None
def run(seed):
    r=random.Random(seed); src=['int printf(const char*,...);']; body=[]; cases=[]
    for i in range(10):
        cnt=[0]; t=gen_type(r,3,cnt)
        if isinstance(t,Sc): t=Ar(t,3)
        unknown = isinstance(t,Ar) and r.random()<0.3
        if unknown: t=Ar(t.el,None)
        g=IG(r); ini=g.init(t) if not (unknown and False) else None
        if not ini.startswith('{') and not ini.startswith('"'): ini='{ '+ini+' }'
        tn=f'T{i}'
        src.append('typedef '+decl(t,tn)+';')
        src.append(f'{tn} g{i} = {ini};')
        # dump: for unknown bound use sizeof/sizeof elem
        dump=''
        use_c = ini.startswith('{') and not unknown
        for nm in(('g','s','l','c') if use_c else ('g','s','l')):
            obj={'g':f'g{i}','s':f's{i}','l':f'l{i}','c':f'(*c{i})'}[nm]
            if unknown:
                dump+=f'  printf("{i}{nm} n=%d:",(int)(sizeof({obj})/sizeof({obj}[0])));\n  for(int j=0;j<(int)(sizeof({obj})/sizeof({obj}[0]));j++){{'
                for p,sc in leaves(t.el,f'{obj}[j]'):
                    dump+=f' printf(" %g",(double){p});'
                dump+='}\n  printf("\\n");\n'
            else:
                dump+=f'  printf("{i}{nm}:");'
                for p,sc in leaves(t,obj): dump+=f' printf(" %g",(double){p});'
                dump+=' printf("\\n");\n'
        body.append(f'void f{i}(void){{\n  static {tn} s{i} = {ini};\n  {tn} l{i} = {ini};\n  '+(f'{tn} *c{i} = &({tn}){ini};' if use_c else '')+f'\n{dump}}}')
        cases.append((i,tuple(sorted(g.feat)),decl(t,tn),ini))
    text='\n'.join(src+body)+'\nint main(){'+''.join(f'f{i}();' for i in range(10))+'}\n'
    d=tempfile.mkdtemp(prefix='in'); f=f'{d}/t.c'; open(f,'w').write(text)
    try:
        g=subprocess.run(['gcc','-w','-O0','-o',f'{d}/gcc',f],capture_output=True,text=True)
        c=subprocess.run(['clang','-w','-O0','-o',f'{d}/clang',f],capture_output=True,text=True)
        if g.returncode or c.returncode: return seed,'ref-fail',(g.stderr or c.stderr)[:600],[]
        p=subprocess.run([C,'-o',f'{d}/chi',f],capture_output=True,text=True,timeout=20)
        if p.returncode: return seed,'chi-fail',p.stderr[-300:],[]
        o=[subprocess.run([f'{d}/{x}'],capture_output=True,text=True,timeout=10).stdout.split('\n') for x in('chi','gcc','clang')]
        bad=[]
        for i,feat,dd,ini in cases:
            a,b,c2=[[l for l in oo if l.startswith(f'{i}')] for oo in o]
            if b!=c2: bad.append(('REFDIS',feat,dd,ini,[])); continue
            if a!=b: bad.append(('MIS',feat,dd,ini,[(x,y) for x,y in zip(a,b) if x!=y][:3]))
        return seed,'ok','',bad
    finally: subprocess.run(['rm','-rf',d])
if __name__=='__main__':
    with multiprocessing.Pool(16) as p: res=p.map(run,range(int(sys.argv[1])))
    cnt=collections.Counter(); bad=[]
    for seed,st,msg,b in res:
        cnt[st]+=1
        if st!='ok' and cnt[st]<=2: print(seed,st,msg)
        for x in b: cnt[x[0]]+=1; bad.append(x)
    print(cnt)
    bad.sort(key=lambda b:len(b[2])+len(b[3]))
    for k,feat,dd,ini,diff in bad[:int(sys.argv[2])]: print('---',k,feat,'\n ',dd,'=',ini,'\n ',diff)
