# Prototype: conversion matrix + fp ops with boundary values; differential vs gcc; results as raw bytes
import struct, subprocess, itertools, collections, sys, fractions, math
C='/tmp/scratch/cc/chibicc'
INTS=[('_Bool',1,False),('char',8,True),('unsigned char',8,False),('short',16,True),('unsigned short',16,False),('int',32,True),('unsigned int',32,False),('long',64,True),('unsigned long',64,False)]
FPS=['float','double','long double']
# boundary doubles (as python floats / hex strings)
vals=[0.0,-0.0,1.0,-1.0,0.5,-0.5,1.5,2.5,-2.5,255.0,256.0,-128.0,-129.0,32767.0,32768.0,-32768.0,65535.0,65536.0,
 2.0**24,2.0**24+1,2.0**31-1,2.0**31,-2.0**31,-2.0**31-1,2.0**32-1,2.0**32,2.0**53,2.0**53+1,2.0**63-1024,2.0**63,-2.0**63,2.0**64-2048,2.0**64,
 1e-310,5e-324,1e300,-1e300,3.4028234663852886e38,1e39,float('inf'),float('-inf'),float('nan'),0.1,16777217.0,9007199254740993.0,123456789.123]
ivals=[0,1,-1,2,127,128,255,256,32767,32768,65535,65536,2**24+1,2**31-1,2**31,2**32-1,2**32,2**53+1,2**63-1,2**63,2**64-1,-2**31,-2**63,-129,0xfffffffffffffc00,0x8000000000000401,0xffffff8000000000]
def hexf(v):
    if v!=v: return '(0.0/0.0)' if False else '__builtin_nan("")'
    if v==float('inf'): return '__builtin_inf()'
    if v==float('-inf'): return '(-__builtin_inf())'
    return float.hex(v)
def in_range(v,bits,signed):
    if v!=v or v in(float('inf'),float('-inf')): return False
    t=math.trunc(v)
    lo,hi=(-(1<<(bits-1)),(1<<(bits-1))-1) if signed else (0,(1<<bits)-1)
    if bits==1: return True
    return lo<=t<=hi
lines=['int printf(const char*,...);','void dump(int id,void*p,int n){unsigned char*q=p;printf("%d ",id);for(int i=0;i<n;i++)printf("%02x",q[i]);printf("\\n");}']
cases=[]; body=[]
def add(desc,decl,expr,rt,n):
    i=len(cases); cases.append(desc)
    body.append(f'void c{i}(void){{ {decl} {rt} r = {expr}; dump({i},&r,{n}); }}')
SZ={'float':4,'double':8,'long double':10}
# chibicc lacks __builtin_nan: build values from bit patterns via union
def fpdecl(ft,v,name='a'):
    if ft=='float':
        b=struct.unpack('<I',struct.pack('<f',v))[0] if not (v==v and abs(v)>3.5e38 and abs(v)!=float('inf')) else struct.unpack('<I',struct.pack('<f',float('inf') if v>0 else float('-inf')))[0]
        return f'union{{unsigned u; float f;}} u{name}={{{b}u}}; volatile float {name}=u{name}.f;'
    b=struct.unpack('<Q',struct.pack('<d',v))[0]
    if ft=='double': return f'union{{unsigned long u; double f;}} u{name}={{{b}ul}}; volatile double {name}=u{name}.f;'
    return f'union{{unsigned long u; double f;}} u{name}={{{b}ul}}; volatile long double {name}=u{name}.f;'
def fval(ft,v):
    if ft=='float':
        try: return struct.unpack('<f',struct.pack('<f',v))[0]
        except OverflowError: return float('inf') if v>0 else float('-inf')
    return v
for ft in FPS:
    for v in vals:
        fv=fval(ft,v)
        for (it,bits,sg) in INTS:
            if in_range(fv,bits,sg): add(f'({it})({ft}){v!r}',fpdecl(ft,v),f'({it})a',it,max(1,bits//8))
        for ft2 in FPS:
            if ft2!=ft: add(f'({ft2})({ft}){v!r}',fpdecl(ft,v),f'({ft2})a',ft2,SZ[ft2])
        add(f'-({ft}){v!r}',fpdecl(ft,v),'-a',ft,SZ[ft])
        add(f'!({ft}){v!r}',fpdecl(ft,v),'!a','int',4)
        add(f'if({ft}){v!r}',fpdecl(ft,v),'a?1:0','int',4)
for (it,bits,sg) in INTS:
    for iv in ivals:
        m=1<<max(bits,1); x=iv%m if bits>1 else (1 if iv else 0)
        if sg and x>=m>>1: x-=m
        for ft in FPS:
            add(f'({ft})({it}){x}',f'volatile {it} a=({it}){x}{"ul" if x>=0 else "l"};' if x!=-2**63 else f'volatile {it} a=({it})(-9223372036854775807l-1);',f'({ft})a',ft,SZ[ft])
ops=['+','-','*','/','<','<=','>','>=','==','!=']
sv=[0.0,-0.0,1.0,-1.5,float('inf'),float('-inf'),float('nan'),1e-310,3.0,0.1,1e308,16777217.0]
for ft in FPS:
    for a,b in itertools.product(sv,sv):
        for op in ops:
            cmp=op in('<','<=','>','>=','==','!=')
            add(f'({ft}){a!r} {op} {b!r}',fpdecl(ft,a,'a')+fpdecl(ft,b,'b'),f'a {op} b','int' if cmp else ft,4 if cmp else SZ[ft])
src='\n'.join(lines+body)+'\nint main(){'+''.join(f'c{i}();' for i in range(len(cases)))+'}\n'
open('fc.c','w').write(src)
p=subprocess.run([C,'-o','fc.chi','fc.c'],capture_output=True,text=True); print('chibicc',p.returncode,p.stderr[-300:] if p.returncode else '')
g=subprocess.run(['gcc','-w','-O0','-o','fc.gcc','fc.c'],capture_output=True,text=True); print('gcc',g.returncode,g.stderr[-300:])
cl=subprocess.run(['clang','-w','-O0','-o','fc.clang','fc.c'],capture_output=True,text=True); print('clang',cl.returncode,cl.stderr[-300:])
o1=subprocess.run(['./fc.chi'],capture_output=True,text=True).stdout.split('\n')
o2=subprocess.run(['./fc.gcc'],capture_output=True,text=True).stdout.split('\n')
o3=subprocess.run(['./fc.clang'],capture_output=True,text=True).stdout.split('\n')
def isnan(desc,hexs):
    n=len(hexs)//2; b=bytes.fromhex(hexs)
    if n==4 and 'int' not in desc.split(')')[0]: 
        u=struct.unpack('<I',b)[0]; return (u&0x7f800000)==0x7f800000 and (u&0x7fffff)!=0
    if n==8: u=struct.unpack('<Q',b)[0]; return (u>>52)&0x7ff==0x7ff and (u&((1<<52)-1))!=0
    if n==10: m,e=struct.unpack('<QH',b); return (e&0x7fff)==0x7fff and (m<<1)&0xffffffffffffffff!=0
    return False
bad=collections.Counter(); ex={}
refdis=0
for i,d in enumerate(cases):
    a,b,c=o1[i],o2[i],o3[i]
    if b!=c:
        refdis+=1; continue
    if a!=b:
        ha,hb=a.split()[1],b.split()[1]
        if isnan(d,ha) and isnan(d,hb): continue
        import re
        key=re.sub(r'-?[0-9][0-9.e+\-]*|inf|nan','N',d)
        bad[key]+=1; ex.setdefault(key,(d,a,b))
print(len(cases),'cases; ref disagreements',refdis,'; chibicc mismatches',sum(bad.values()))
for k,n in bad.most_common(60): print(n,k,'   e.g.',ex[k])
