import subprocess, itertools, collections, tempfile, os
from cppfz import lex
C='/tmp/scratch/cc/chibicc'
TOK=['a','_b1','int','1','0x1f','1.5','.5','1e','1e+','08','"s"','L','u8',"'c'",'+','-','*','/','%','&','|','^','<','>','=','!','~','.','->','++','--','<<','>>','<=','>=','==','!=','&&','||','+=','-=','<<=','>>=','...','(',')','[',']','{','}',',',';',':','?','#','##']
forms=[('obj-obj','#define A {0}\n#define B {1}\nA B\n', None),
       ('obj-adj','#define A {0}\n#define B {1}\nx A/**/B y\n',None),
       ('tok-obj','#define B {1}\n{0} B\n',None),
       ('tokobj-nospace','#define B {1}\nx {0}B y\n',None),
       ('obj-tok-nospace','#define A {0}\nx A{1} y\n',None),
       ('fn-arg','#define F(p) {0}p\nx F({1}) y\n',None),
       ('fn-arg2','#define F(p) p{1}\nx F({0}) y\n',None),
       ('fn-result','#define F(p) p\nx F({0})F({1}) y\n',None)]
bad=collections.Counter(); ex={}; tot=0; rej=0
d=tempfile.mkdtemp(prefix='adj')
for name,tmpl,_ in forms:
    for a,b in itertools.product(TOK,TOK):
        if '#' in a or '#' in b: 
            if name.startswith('fn') or name.startswith('obj') : continue
        src=tmpl.format(a,b)
        # expected token stream: by construction the two tokens stay separate (they came from different macro bodies/args)
        f=f'{d}/t.c'; open(f,'w').write(src)
        p=subprocess.run(['timeout','5',C,'-E',f],capture_output=True,text=True)
        if p.returncode: rej+=1; continue
        out1=p.stdout; open(f'{d}/t2.c','w').write(out1)
        q=subprocess.run(['timeout','5',C,'-E',f'{d}/t2.c'],capture_output=True,text=True)
        g=subprocess.run(['gcc','-E','-P','-w',f],capture_output=True,text=True)
        if g.returncode: continue
        tot+=1
        t1=lex(out1); tg=lex(g.stdout)
        if t1!=tg:
            bad[name]+=1; ex.setdefault(name,[]).append((a,b,out1.strip()))
print('cases',tot,'rejected by chibicc',rej,dict(bad))
for k,v in ex.items(): print(k,len(v),v[:12])
