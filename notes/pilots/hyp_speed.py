import time, random
from hypothesis import given, settings, seed, strategies as st, HealthCheck, Phase
import intgen
class HChooser:
    """random.Random-compatible facade over hypothesis data.draw"""
    def __init__(s,data): s.d=data
    def random(s): return s.d.draw(st.integers(0,999))/1000.0
    def choice(s,seq): return seq[s.d.draw(st.integers(0,len(seq)-1))]
    def randint(s,a,b): return s.d.draw(st.integers(a,b))
    def getrandbits(s,n): return s.d.draw(st.integers(0,(1<<n)-1))
cnt=[0]; t0=time.time(); draws=[0]
@seed(12345)
@settings(max_examples=200,database=None,deadline=None,suppress_health_check=list(HealthCheck),phases=[Phase.generate])
@given(st.data())
def test(data):
    rng=HChooser(data)
    for i in range(30):
        g=intgen.Gen(rng); e=g.expr(rng.randint(1,4)); cnt[0]+=1
test()
dt=time.time()-t0
print(f'{cnt[0]} cases in {dt:.2f}s -> {cnt[0]/dt:.0f} cases/s per process')
