# Pilot (exploratory): include search order, re-inclusion shortcuts, -idirafter/-include/-D/-U order.
import random, subprocess, sys, collections, multiprocessing, tempfile, os, re
C = os.environ.get('CHI', '/tmp/scratch/cc/chibicc')
NAMES = ['hq_a.h', 'hq_b.h', 'hq_c.h', 'hq_d.h']

def run(seed):
    r = random.Random(seed); res = collections.Counter(); bad = []
    for it in range(15):
        d = tempfile.mkdtemp(prefix='ic')
        try:
            dirs = ['.', 'i1', 'i2', 'i3', 'aft1', 'aft2', 'sub']
            for x in dirs[1:]: os.mkdir(f'{d}/{x}')
            feat = set(); files = {}
            # place headers
            for nm in NAMES:
                for dr in dirs:
                    if r.random() < 0.45: files[(dr, nm)] = None
            if not files: files[('i1', NAMES[0])] = None
            order = list(files)
            for (dr, nm) in order:
                body = []; tag = f'M_{dr.replace(".", "top")}_{nm[3]}'
                style = r.choice(['plain', 'plain', 'guard', 'guard', 'once', 'guard_tail', 'guard_else', 'guard_undef'])
                inner = [tag + ';']
                if r.random() < 0.5:
                    other = r.choice(NAMES)
                    if other != nm:
                        form = r.choice(['"{}"', '<{}>'])
                        inner.append('#include ' + form.format(other)); feat.add('nested')
                if r.random() < float(os.environ.get('P_NEXT','0.12')):
                    inner.append(f'#include_next <{nm}>'); feat.add('include_next')
                g = f'G_{dr.replace(".", "top")}_{nm[3]}'.upper()
                if style == 'plain': body = inner
                elif style == 'guard': body = [f'#ifndef {g}', f'#define {g}'] + inner + ['#endif']
                elif style == 'once': body = ['#pragma once'] + inner; feat.add('once')
                elif style == 'guard_tail': body = [f'#ifndef {g}', f'#define {g}'] + inner + ['#endif', tag + '_tail;', '#if 0', '#endif']; feat.add('guard_tail')
                elif style == 'guard_else': body = [f'#ifndef {g}', f'#define {g}'] + inner + ['#else', tag + '_again;', '#endif']; feat.add('guard_else')
                else: body = [f'#ifndef {g}', f'#define {g}'] + inner + ['#endif']; feat.add('guard_undef')
                files[(dr, nm)] = (body, g, style)
            # break include cycles crudely: a header may only include names that sort after it
            for (dr, nm), (body, g, style) in files.items():
                nb = []
                for l in body:
                    m = re.match(r'#include(_next)? [<"](hq_.\.h)[>"]', l)
                    if m and not m.group(1) and m.group(2) <= nm: continue
                    nb.append(l)
                open(f'{d}/{dr}/{nm}', 'w').write('\n'.join(nb) + '\n')
            main = []
            for _ in range(r.randint(2, 6)):
                nm = r.choice(NAMES); form = r.choice(['"{}"', '<{}>', '"sub/../{}"' if False else '"{}"'])
                main.append('#include ' + form.format(nm))
                if r.random() < 0.25:
                    gs = [v[1] for v in files.values()]; main.append(f'#undef {r.choice(gs)}')
                main.append(f'MAIN_{len(main)};')
            main.append('#ifdef DX\nDX_is DX;\n#endif')
            open(f'{d}/main.c', 'w').write('\n'.join(main) + '\n')
            opts = []
            il = [x for x in ['i1', 'i2', 'i3'] if r.random() < 0.8]; r.shuffle(il)
            al = [x for x in ['aft1', 'aft2'] if r.random() < 0.7]; r.shuffle(al)
            seq = [('-I', x) for x in il] + [('-idirafter', x) for x in al]
            r.shuffle(seq)
            for k, v in seq: opts += ([k + v] if k == '-I' else [k, v])
            if al: feat.add('idirafter')
            dopts = r.choice([[], ['-DDX=1'], ['-DDX=1', '-UDX'], ['-DDX=1', '-UDX', '-DDX=2'], ['-UDX', '-DDX']])
            opts += dopts
            def markers(out): return re.findall(r'(?:M_\w+|MAIN_\d+|DX_is \w+)', out)
            g = subprocess.run(['gcc', '-E', '-P', '-w'] + opts + ['main.c'], cwd=d, capture_output=True, text=True)
            c = subprocess.run(['clang', '-E', '-P', '-w'] + opts + ['main.c'], cwd=d, capture_output=True, text=True)
            if g.returncode or c.returncode: res['ref-reject'] += 1; continue
            if markers(g.stdout) != markers(c.stdout): res['ref-disagree'] += 1; continue
            try: x = subprocess.run([C, '-E'] + opts + ['main.c'], cwd=d, capture_output=True, text=True, timeout=10)
            except subprocess.TimeoutExpired:
                res['HANG'] += 1; bad.append(('HANG', tuple(sorted(feat)), opts, '')); continue
            if x.returncode: res['chi-reject'] += 1; bad.append(('REJ', tuple(sorted(feat)), opts, x.stderr.strip().split('\n')[-1][-80:])); continue
            if markers(x.stdout) == markers(g.stdout): res['ok'] += 1
            else:
                res['MIS'] += 1
                tree = {f'{dr}/{nm}': open(f'{d}/{dr}/{nm}').read() for (dr, nm) in files}
                bad.append(('MIS', tuple(sorted(feat)), opts, (' '.join(markers(x.stdout)), ' '.join(markers(g.stdout)), open(f'{d}/main.c').read(), tree)))
        finally: subprocess.run(['rm', '-rf', d])
    return res, bad

if __name__ == '__main__':
    with multiprocessing.Pool(16) as p: out = p.map(run, range(int(sys.argv[1])))
    tot = collections.Counter(); bad = []; byfeat = collections.Counter()
    for c, b in out: tot.update(c); bad += b
    for b in bad: byfeat[(b[0], b[1])] += 1
    print(tot)
    for k, v in byfeat.most_common(12): print(v, k)
    bad.sort(key=lambda b: len(str(b[3])))
    for k, feat, opts, info in bad[:int(sys.argv[2])]:
        print('-----', k, feat, opts)
        if k == 'MIS':
            print(' chi:', info[0]); print(' ref:', info[1]); print(info[2])
            for fn, t in info[3].items(): print('  ==', fn); print('    ' + t.replace('\n', '\n    '))
        else: print(info)
