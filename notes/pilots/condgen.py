import random, subprocess, sys, collections, multiprocessing, tempfile
from cppfz import lex
C='/tmp/scratch/cc/chibicc'
def pexpr(r,d,macs):
    if d<=0 or r.random()<0.25:
        k=r.random()
        if k<0.35: return r.choice(['0','1','2','-1','3u','0x7fffffffffffffff','18446744073709551615u','4294967296','-2','07','0x10'])
        if k<0.5: return r.choice(['defined X','defined(Y)','defined ( Z )','!defined X','defined UNDEF'])
        if k<0.7: return r.choice(macs+['UNDEF','UNDEF2'])
        return r.choice(["'a'","'\\0'",'(1)','(0)'])
    k=r.random()
    if k<0.55:
        op=r.choice(['+','-','*','<','<=','>','>=','==','!=','&&','||','&','|','^','<<','>>','/','%'])
        a=pexpr(r,d-1,macs); b=pexpr(r,d-1,macs)
        if op in('/','%'): b=f'(({b})|1)'
        if op in('<<','>>'): b=f'(({b})&31)'; a=f'(({a})&0xffff)'
        return f'({a} {op} {b})'
    if k<0.7: return f'({r.choice(["-","~","!","+"])}{pexpr(r,d-1,macs)})'
    if k<0.85: return f'({pexpr(r,d-1,macs)} ? {pexpr(r,d-1,macs)} : {pexpr(r,d-1,macs)})'
    return f'({pexpr(r,d-1,macs)})'
def group(r,d,macs,cnt,skipped=False):
    out=[]
    for _ in range(r.randint(1,3)):
        k=r.random(); cnt[0]+=1; m=cnt[0]
        if d>0 and k<0.45:
            form=r.choice(['if','if','ifdef','ifndef'])
            if form=='if': out.append(f'#if {pexpr(r,2,macs)}')
            else: out.append(f'#{form} {r.choice(["X","Y","Z","UNDEF"])}'+r.choice(['',' trailing',' /* c */']))
            out+=group(r,d-1,macs,cnt)
            for _ in range(r.randint(0,2)):
                out.append(f'#elif {pexpr(r,2,macs)}'); out+=group(r,d-1,macs,cnt)
            if r.random()<0.6:
                out.append('#else'+r.choice(['',' junk','// c'])); out+=group(r,d-1,macs,cnt)
            out.append('#endif'+r.choice(['','',' X',' /* c */',' // e']))
        elif k<0.55:
            nm=r.choice(['X','Y','Z']); 
            if r.random()<0.6: out.append(f'#define {nm} {r.choice(["1","0","(2-1)","-1",""])}')
            else: out.append(f'#undef {nm}')
            out.append(f'm{m}')
        else: out.append(f'm{m}')
    return out
def run(seed):
    r=random.Random(seed); res=collections.Counter(); bad=[]
    d=tempfile.mkdtemp(prefix='cd')
    for k in range(100):
        macs=['X','Y','Z']; cnt=[0]
        pre=[f'#define {m} {r.choice(["1","0","5","(3)"])}' for m in macs if r.random()<0.6]
        src='\n'.join(pre+group(r,3,macs,cnt))+'\n'
        f=f'{d}/t.c'; open(f,'w').write(src)
        g=subprocess.run(['gcc','-E','-P','-w',f],capture_output=True,text=True); c=subprocess.run(['clang','-E','-P','-w',f],capture_output=True,text=True)
        if g.returncode or c.returncode: res['ref-reject']+=1; continue
        if lex(g.stdout)!=lex(c.stdout): res['ref-disagree']+=1; continue
        try: x=subprocess.run([C,'-E',f],capture_output=True,text=True,timeout=10)
        except subprocess.TimeoutExpired: res['HANG']+=1; continue
        if x.returncode: res['chi-reject']+=1; bad.append(('REJ',src,x.stderr.strip().split('\n')[-2:])); continue
        if lex(x.stdout)==lex(g.stdout): res['ok']+=1
        else: res['MISMATCH']+=1; bad.append(('MIS',src,(' '.join(lex(x.stdout)),' '.join(lex(g.stdout)))))
    subprocess.run(['rm','-rf',d]); return res,bad
if __name__=='__main__':
    with multiprocessing.Pool(16) as p: out=p.map(run,range(int(sys.argv[1])))
    tot=collections.Counter(); bad=[]
    for r_,b in out: tot.update(r_); bad+=b
    print(tot); bad.sort(key=lambda b:len(b[1]))
    for k,src,info in bad[:int(sys.argv[2])]: print('-----',k); print(src,end=''); print('  =>',info)
