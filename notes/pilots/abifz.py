import random, subprocess, sys, collections, multiprocessing, tempfile, os
C='/tmp/scratch/cc/chibicc'
SCAL=[('char',1,'i'),('unsigned char',1,'i'),('short',2,'i'),('unsigned short',2,'i'),('int',4,'i'),('unsigned',4,'i'),('long',8,'i'),('unsigned long',8,'i'),('_Bool',1,'b'),('float',4,'f'),('double',8,'f'),('long double',16,'x'),('void*',8,'p')]
def gen_struct(rng,name,feat,depth=1):
    n=rng.randint(1,5); mems=[]; kind='union' if rng.random()<0.12 else 'struct'
    for i in range(n):
        r=rng.random()
        t,sz,cl=rng.choice(SCAL[:-2]+[SCAL[-1]] if rng.random()<0.93 else SCAL)
        if cl=='x': feat.add('ld_in_struct')
        if r<0.2: k=rng.randint(1,4); mems.append(f'{t} m{i}[{k}];')
        elif r<0.3 and depth>0:
            sub,_=gen_struct(rng,None,feat,depth-1); mems.append(f'{sub} m{i};')
        else: mems.append(f'{t} m{i};')
    body=f'{kind} {{ '+' '.join(mems)+' }'
    return body,kind
def gen_sig(rng,idx):
    feat=set(); types=[]  # typedefs
    def pick(ret=False):
        r=rng.random()
        if r<0.35:
            body,kind=gen_struct(rng,None,feat); tn=f'S{idx}_{len(types)}'; types.append(f'typedef {body} {tn};'); feat.add('agg'); return tn,'agg'
        t,sz,cl=rng.choice(SCAL)
        if cl=='x': feat.add('ld')
        return t,cl
    # choose prefix to exhaust registers
    params=[]
    ngp=rng.choice([0,0,1,3,4,5,6,7]); nfp=rng.choice([0,0,2,6,7,8,9])
    pre=[('long','i')]*ngp+[('double','f')]*nfp; rng.shuffle(pre)
    params+=pre
    for _ in range(rng.randint(1,4)): params.append(pick())
    rng.shuffle(params) if rng.random()<0.3 else None
    ret=pick(True) if rng.random()<0.7 else ('void','v')
    variadic=rng.random()<0.2
    vargs=[]
    if variadic:
        feat.add('variadic')
        for _ in range(rng.randint(1,5)): vargs.append(rng.choice([('int','i'),('long','i'),('double','f'),('void*','p'),('unsigned','i')]))
        if sum(1 for t,c in params if c in 'ibp')>6 or sum(1 for t,c in params if c=='f')>8 or any(c in('x','agg') for t,c in params): feat.add('va_named_maybe_stack')
    return dict(idx=idx,types=types,params=params,ret=ret,vargs=vargs,feat=feat)
def emit(sig,side):
    """side: 'callee' or 'caller' -> C text"""
    i=sig['idx']; P=sig['params']; R=sig['ret'][0]; V=sig['vargs']
    plist=', '.join(f'{t} p{k}' for k,(t,c) in enumerate(P)) or 'void'
    if V: plist+=', ...'
    proto=f'{R} f{i}({plist})'
    out=[]
    if side=='callee':
        b=f'{proto} {{\n'
        for k,(t,c) in enumerate(P): b+=f'  logbytes({i},{k},&p{k},sizeof(p{k}));\n'
        if V:
            last=f'p{len(P)-1}'
            b+=f'  va_list ap; va_start(ap,{last});\n'
            for k,(t,c) in enumerate(V): b+=f'  {{ {t} v=va_arg(ap,{t}); logbytes({i},{100+k},&v,sizeof(v)); }}\n'
            b+='  va_end(ap);\n'
        if R!='void': b+=f'  {R} r; fill(&r,sizeof(r),{i}*7+1); return r;\n'
        b+='}\n'; out.append(b)
    else:
        b=f'{proto};\nvoid call{i}(void) {{\n'
        args=[]
        for k,(t,c) in enumerate(P):
            b+=f'  {t} a{k}; fill(&a{k},sizeof(a{k}),{i}*13+{k}*5+3);\n'; args.append(f'a{k}')
        for k,(t,c) in enumerate(V):
            b+=f'  {t} va{k}; fill(&va{k},sizeof(va{k}),{i}*11+{k}*3+9);\n'; args.append(f'va{k}')
        call=f'f{i}({", ".join(args)})'
        if R!='void': b+=f'  {R} r = {call}; logbytes({i},999,&r,sizeof(r));\n'
        else: b+=f'  {call};\n'
        b+='}\n'; out.append(b)
    return ''.join(out)
COMMON='''#include <stdarg.h>
int printf(const char*,...);
void logbytes(int f,int k,void*p,int n);
void fill(void*p,int n,int seed);
'''
SUPPORT='''int printf(const char*,...);
void logbytes(int f,int k,void*p,int n){unsigned char*q=p;printf("%d.%d:",f,k);for(int i=0;i<n;i++)printf("%02x",q[i]);printf("\\n");}
/* fill with valid patterns: avoid NaN-irrelevant issues; bytes are raw so _Bool must be 0/1: handled by masking at use */
void fill(void*p,int n,int seed){unsigned char*q=p;for(int i=0;i<n;i++)q[i]=(unsigned char)(seed*31+i*17+1)&0x7f;}
'''
def run(seed):
    rng=random.Random(seed); sigs=[gen_sig(rng,i) for i in range(12)]
    # _Bool params filled with arbitrary bytes is UB: restrict fill to &1 for bool -> skip sigs with _Bool for prototype
    def has_bool(s): return any(t=='_Bool' for t,c in s['params']) or s['ret'][0]=='_Bool' or any('_Bool' in x for x in s['types'])
    def has_pad(s): return False
    sigs=[s for s in sigs if not has_bool(s)]
    tdefs=''.join(t+'\n' for s in sigs for t in s['types'])
    callee=COMMON+tdefs+''.join(emit(s,'callee') for s in sigs)
    caller=COMMON+tdefs+''.join(emit(s,'caller') for s in sigs)+'int main(){'+''.join(f'call{s["idx"]}();' for s in sigs)+'return 0;}\n'
    d=tempfile.mkdtemp(prefix='ab')
    open(f'{d}/callee.c','w').write(callee); open(f'{d}/caller.c','w').write(caller); open(f'{d}/sup.c','w').write(SUPPORT)
    subprocess.run(['gcc','-w','-c',f'{d}/sup.c','-o',f'{d}/sup.o'])
    objs={}
    for comp in('gcc','chi'):
        for unit in('callee','caller'):
            o=f'{d}/{unit}.{comp}.o'
            if comp=='gcc': p=subprocess.run(['gcc','-w','-O0','-c',f'{d}/{unit}.c','-o',o],capture_output=True,text=True)
            else: p=subprocess.run([C,'-I/tmp/scratch/cc/include','-c',f'{d}/{unit}.c','-o',o],capture_output=True,text=True)
            if p.returncode!=0: return seed,f'{comp}-fail',p.stderr[-400:],[]
    outs={}
    for a in('gcc','chi'):
        for b in('gcc','chi'):
            exe=f'{d}/x.{a}.{b}'
            subprocess.run(['gcc','-o',exe,f'{d}/caller.{a}.o',f'{d}/callee.{b}.o',f'{d}/sup.o'],capture_output=True)
            r=subprocess.run([exe],capture_output=True,text=True,timeout=10)
            outs[(a,b)]=(r.returncode,r.stdout.split('\n'))
    ref=outs[('gcc','gcc')][1]
    # padding bytes inside structs are unspecified -> compare only ... prototype: fill sets all bytes incl padding; copies may not preserve padding. Use mask of bytes that gcc/gcc preserved? crude: compare to ref and also accept if differing only... keep strict for pilot
    bad=[]
    for key,(rc,o) in outs.items():
        if key==('gcc','gcc'): continue
        for s in sigs:
            i=s['idx']
            a=[l for l in o if l.startswith(f'{i}.')]; b=[l for l in ref if l.startswith(f'{i}.')]
            if a!=b or rc!=0 and not a:
                bad.append((key,tuple(sorted(s['feat'])),s,[(x,y) for x,y in zip(a,b) if x!=y][:2],rc))
    subprocess.run(['rm','-rf',d])
    return seed,'ok','',bad
if __name__=='__main__':
    n=int(sys.argv[1])
    with multiprocessing.Pool(16) as p: res=p.map(run,range(n))
    cnt=collections.Counter(); by=collections.Counter(); ex={}
    for seed,st,msg,bad in res:
        cnt[st]+=1
        if st!='ok': print(seed,st,msg[:300])
        for key,feat,s,diff,rc in bad:
            k=(key,feat); by[k]+=1
            sz=len(str(s['params']))+len(str(s['types']))
            if k not in ex or sz<ex[k][0]: ex[k]=(sz,s,diff,rc)
    print(cnt)
    for k,c in by.most_common(40):
        sz,s,diff,rc=ex[k]
        print(c,k,'\n    types',s['types'],'\n    sig',s['ret'][0],[t for t,c in s['params']],'va',[t for t,c in s['vargs']],'rc',rc,'\n    ',diff)
