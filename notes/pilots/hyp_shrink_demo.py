# Pilot (exploratory): does Hypothesis shrink a *batch* translation unit down to one minimal
# failing case in reasonable time?  Uses intgen.py's generator through a Chooser facade and the
# pinned compiler (which has defect D01), gcc as reference.
import time, subprocess, tempfile, os, sys
from hypothesis import given, settings, seed, strategies as st, HealthCheck, Phase
import intgen
CHI=os.environ.get('CHI','/tmp/scratch/s12/s1/chibicc')
class HChooser:
    def __init__(s,data): s.d=data
    def random(s): return s.d.draw(st.integers(0,999))/1000.0
    def choice(s,seq): return seq[s.d.draw(st.integers(0,len(seq)-1))]
    def randint(s,a,b): return s.d.draw(st.integers(a,b))
    def getrandbits(s,n): return s.d.draw(st.integers(0,(1<<n)-1))
stats={'examples':0,'cases':0,'fail_examples':0}
last={}
def run_batch(cases):
    src=['int printf(const char*,...);']
    for i,(decl,txt) in enumerate(cases):
        src.append(f'void c{i}(void){{\n{decl}  printf("{i} %lx %d %d\\n",(unsigned long)({txt}),(int)sizeof({txt}),(int)((__typeof__({txt}))-1 < 0));\n}}')
    src.append('int main(){'+''.join(f'c{i}();' for i in range(len(cases)))+'return 0;}')
    d=tempfile.mkdtemp(prefix='hs'); f=f'{d}/t.c'; open(f,'w').write('\n'.join(src))
    try:
        p=subprocess.run([CHI,'-o',f'{d}/chi',f],capture_output=True,text=True,timeout=20)
        g=subprocess.run(['gcc','-w','-O0','-o',f'{d}/gcc',f],capture_output=True,text=True)
        if p.returncode or g.returncode: return None
        a=subprocess.run([f'{d}/chi'],capture_output=True,text=True).stdout.split('\n'); b=subprocess.run([f'{d}/gcc'],capture_output=True,text=True).stdout.split('\n')
        return [i for i in range(len(cases)) if a[i]!=b[i]]
    finally: subprocess.run(['rm','-rf',d])
@seed(int(os.environ.get('VERIF_SEED','7')))
@settings(max_examples=60,database=None,deadline=None,suppress_health_check=list(HealthCheck),phases=[Phase.generate,Phase.shrink],report_multiple_bugs=False)
@given(st.data())
def test(data):
    rng=HChooser(data); cases=[]
    while len(cases)<25 and (not cases or data.draw(st.integers(0,9))>0):      # "one more?" flag before each case: deletable blocks
        g=intgen.Gen(rng); e=g.expr(rng.randint(1,4))
        decl=''.join(f'  volatile {t.name} {nm} = {intgen.lit(rng,t,v)};\n' for nm,t,v in g.vars)
        cases.append((decl,e.txt))
    stats['examples']+=1; stats['cases']+=len(cases)
    bad=run_batch(cases)
    if bad:
        stats['fail_examples']+=1; last['cases']=[cases[i] for i in bad]; last['n']=len(cases)
        assert False, 'mismatch'
t0=time.time()
try: test()
except AssertionError: pass
print(f"examples run {stats['examples']} ({stats['cases']} cases), failing examples seen {stats['fail_examples']}, wall {time.time()-t0:.1f}s")
print('minimal failing batch size:',last.get('n')); 
for d,t in last.get('cases',[])[:2]: print('  decl:',d.strip().replace('\n',' ')); print('  expr:',t)
