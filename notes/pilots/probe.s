  .text
  .globl sp_probe
sp_probe:            # returns caller's rsp (value before the call pushed the return address)
  lea 8(%rsp), %rax
  ret
  .globl x87_probe
x87_probe:           # returns (TOP<<16) | tag word ; tag word 0xffff = all empty
  sub $32, %rsp
  fnstenv (%rsp)
  movzwl 8(%rsp), %eax      # tag word
  movzwl 4(%rsp), %edx      # status word
  shr $11, %edx
  and $7, %edx
  shl $16, %edx
  or %edx, %eax
  fldenv (%rsp)
  add $32, %rsp
  ret
  .section .note.GNU-stack,"",@progbits
