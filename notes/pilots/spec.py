import itertools, subprocess
C='/tmp/scratch/cc/chibicc'
multisets=[('char',),('signed','char'),('unsigned','char'),('short',),('short','int'),('signed','short'),('signed','short','int'),('unsigned','short'),('unsigned','short','int'),('int',),('signed',),('signed','int'),('unsigned',),('unsigned','int'),('long',),('long','int'),('long','long'),('long','long','int'),('signed','long'),('signed','long','int'),('signed','long','long'),('signed','long','long','int'),('unsigned','long'),('unsigned','long','int'),('unsigned','long','long'),('unsigned','long','long','int'),('float',),('double',),('long','double'),('_Bool',),('void','*')]
quals=['const','volatile','static','register','_Atomic','extern']
cases=[]
for ms in multisets:
    if ms==('void','*'): continue
    for p in set(itertools.permutations(ms)):
        cases.append(' '.join(p))
        for q in ('const','volatile'):
            for pos in range(len(p)+1):
                cases.append(' '.join(p[:pos]+(q,)+p[pos:]))
src=['int printf(const char*,...);','int main(){']
for i,c in enumerate(cases):
    src.append(f'{{ {c} v = 0; printf("{i} %d %d %d\\n",(int)sizeof(v),(int)_Alignof({c}),(int)((__typeof__(v))-1 < 0)); }}')
# typedef combos & declarator nests
decls=['int (*(*p)[3])(void)','char *(*q[2])[5]','long (*r(void))[4]' ,'short (*s)[2][3]','int (*(*t)(int))[7]']
src.append('}')
open('spec.c','w').write('\n'.join(src))
p=subprocess.run(['timeout','20',C,'-o','spec.chi','spec.c'],capture_output=True,text=True); print(p.returncode,p.stderr[-300:].replace('\n',' ')[-200:])
g=subprocess.run(['gcc','-w','-o','spec.gcc','spec.c'],capture_output=True,text=True); print(g.returncode,g.stderr[:200])
a=subprocess.run(['./spec.chi'],capture_output=True,text=True).stdout.split('\n'); b=subprocess.run(['./spec.gcc'],capture_output=True,text=True).stdout.split('\n')
bad=[(cases[i],a[i],b[i]) for i in range(len(cases)) if i<len(a) and a[i]!=b[i]]
print(len(cases),'spellings;',len(bad),'differ',bad[:6])
