# Pilot (exploratory): #define/#undef/-D/-U histories over macro names whose FNV-1 hashes share the low 12 bits.
import random, subprocess, sys, os, tempfile, collections, multiprocessing
C=os.environ.get('CHI','/tmp/scratch/s12/s1/chibicc')
def fnv(s):
    h=0xcbf29ce484222325
    for c in s.encode(): h=(h*0x100000001b3)&0xffffffffffffffff; h^=c
    return h
def pool(bits=12,groups=3,per=6):
    by=collections.defaultdict(list); i=0
    while sum(1 for v in by.values() if len(v)>=per)<groups:
        n=f'm{i}'; by[fnv(n)&((1<<bits)-1)].append(n); i+=1
    return [v[:per] for v in by.values() if len(v)>=per][:groups]
POOL=pool()
def run(seed):
    r=random.Random(seed); res=collections.Counter(); bad=[]
    names=[n for g in POOL for n in g]
    d=tempfile.mkdtemp(prefix='mh')
    try:
        for it in range(30):
            model={}; lines=[]; opts=[]
            for k in range(r.randint(0,4)):
                n=r.choice(names)
                if r.random()<0.6: v=r.randint(1,99); opts.append(f'-D{n}={v}'); model[n]=str(v)
                else: opts.append(f'-U{n}'); model.pop(n,None)
            exp=[]
            for step in range(r.randint(5,60)):
                n=r.choice(names); k=r.random()
                if k<0.5:
                    v=r.randint(100,999)
                    if n in model and r.random()<0.5: lines.append(f'#undef {n}')
                    lines.append(f'#define {n} {v}'); model[n]=str(v)
                elif k<0.85: lines.append(f'#undef {n}'); model.pop(n,None)
                # probe a few names
                for q in r.sample(names,3):
                    lines.append(f'#ifdef {q}\nP{len(exp)} {q}\n#else\nP{len(exp)} undef\n#endif'); exp.append(model.get(q,'undef'))
            open(f'{d}/t.c','w').write('\n'.join(lines)+'\n')
            try: p=subprocess.run([C,'-E']+opts+[f'{d}/t.c'],capture_output=True,text=True,timeout=20)
            except subprocess.TimeoutExpired: res['HANG']+=1; continue
            if p.returncode: res['FAIL rc=%s'%p.returncode]+=1; bad.append((p.returncode,p.stderr[-150:],len(lines))); continue
            got=[l.split()[1] for l in p.stdout.split('\n') if l.startswith('P')]
            if got==exp: res['ok']+=1
            else: res['MIS']+=1; bad.append(('MIS',[ (i,a,b) for i,(a,b) in enumerate(zip(got,exp)) if a!=b][:3],len(lines)))
        return res,bad
    finally: subprocess.run(['rm','-rf',d])
if __name__=='__main__':
    with multiprocessing.Pool(16) as p: out=p.map(run,range(int(sys.argv[1])))
    tot=collections.Counter(); bad=[]
    for c,b in out: tot.update(c); bad+=b
    print(POOL[0][:3],tot); print(bad[:4])
