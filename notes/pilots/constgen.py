import random, subprocess, sys, collections, multiprocessing, tempfile
from intgen import *
class CGen(Gen):
    def newvar(s,t,v): return E(lit(s.rng,t,v),t,v)   # constants only
    def leaf(s):
        r=s.rng; t=r.choice(TYPES); v=conv(r.choice(BOUND(t)) if r.random()<0.7 else r.getrandbits(64),t)
        k=r.random()
        if k<0.5: return E(lit(r,t,v),t,v)
        # plain literal spellings with natural types
        if k<0.7: v=r.choice([0,1,2,5,100,255,65535,2147483647]); return E(str(v),INT,v)
        if k<0.8: v=r.choice([0,1,4294967295,2147483648]); return E(f'{v}u',UINT,v)
        if k<0.9: v=r.choice([0,1,4294967296,9223372036854775807]); return E(f'{v}L',LONG,v)
        v=r.choice([0,1,18446744073709551615,9223372036854775808]); return E(f'{v}UL',ULONG,v)
def run(seed):
    rng=random.Random(seed); out=['int printf(const char*,...);']; body=[]; cases=[]
    for i in range(40):
        g=CGen(rng); e=g.expr(rng.randint(1,4))
        while ', ' in e.txt: g=CGen(rng); e=g.expr(rng.randint(1,4))
        ctx=rng.choice(['init','init','arr','enum','case','bf','static_local'])
        tt=rng.choice(TYPES)
        if ctx in('init','static_local'):
            exp=conv(e.v,tt)
            if ctx=='init': out.append(f'{tt.name} g{i} = {e.txt};'); b=f'printf("{i} %lx\\n",(unsigned long)g{i});'
            else: b=f'static {tt.name} s = {e.txt}; printf("{i} %lx\\n",(unsigned long)s);'
            expect=f'{i} {conv(exp,ULONG):x}'
        elif ctx=='arr':
            n=(conv(e.v,ULONG)&63)+1
            b=f'char a[(({e.txt}) & 63) + 1]; printf("{i} %lx\\n",(unsigned long)sizeof(a));'; expect=f'{i} {n:x}'
        elif ctx=='enum':
            v=conv(conv(e.v,ULONG)&0xffff,INT); 
            out.append(f'enum {{ K{i} = ({e.txt}) & 0xffff }};'); b=f'printf("{i} %lx\\n",(unsigned long)K{i});'; expect=f'{i} {v:x}'
        elif ctx=='case':
            v=conv(e.v,INT)
            b=f'int r=0; switch ((int){lit(rng,INT,v)}) {{ case (int)({e.txt}): r=1; break; default: r=2; }} printf("{i} %lx\\n",(unsigned long)r);'; expect=f'{i} 1'
        else:
            w=(conv(e.v,ULONG)&15)+1
            b=f'struct {{ unsigned f : (({e.txt}) & 15) + 1; }} s; s.f = -1; printf("{i} %lx\\n",(unsigned long)s.f);'; expect=f'{i} {(1<<w)-1:x}'
        body.append(f'void c{i}(void){{ {b} }}'); cases.append((ctx,tt.name,e.txt,expect))
    src='\n'.join(out+body)+'\nint main(){'+''.join(f'c{i}();' for i in range(40))+'}\n'
    d=tempfile.mkdtemp(prefix='cg'); f=f'{d}/t.c'; open(f,'w').write(src)
    try:
        g=subprocess.run(['gcc','-w','-O0','-o',f'{d}/gcc',f],capture_output=True,text=True)
        if g.returncode: return seed,'gcc-fail',g.stderr[:400],[]
        try: p=subprocess.run([C,'-o',f'{d}/chi',f],capture_output=True,text=True,timeout=20)
        except subprocess.TimeoutExpired: return seed,'chi-hang','',[]
        if p.returncode: return seed,'chi-fail',p.stderr[-300:],[]
        o1=subprocess.run([f'{d}/chi'],capture_output=True,text=True).stdout.split('\n'); o2=subprocess.run([f'{d}/gcc'],capture_output=True,text=True).stdout.split('\n')
        bad=[]
        for k,(ctx,tn,txt,exp) in enumerate(cases):
            if o2[k]!=exp: bad.append(('MODEL',ctx,tn,txt,exp,o2[k],o1[k]))
            elif o1[k]!=exp: bad.append(('CHI',ctx,tn,txt,exp,o2[k],o1[k]))
        return seed,'ok','',bad
    finally: subprocess.run(['rm','-rf',d])
if __name__=='__main__':
    with multiprocessing.Pool(16) as p: res=p.map(run,range(int(sys.argv[1])))
    cnt=collections.Counter(); bad=[]
    for seed,st,msg,b in res:
        cnt[st]+=1
        if st!='ok' and cnt[st]<=2: print(seed,st,msg)
        for x in b: cnt[x[0]]+=1; bad.append(x)
    print(cnt); bad.sort(key=lambda b:len(b[3]))
    for x in bad[:int(sys.argv[2])]: print(x)
