import random, subprocess, sys, collections, multiprocessing, tempfile, re
from cppfz import lex
C='/tmp/scratch/cc/chibicc'
IDS=['a','b','c','x','y','z']; MAC=['F','G','H','OBJ','P','Q','V']
PLAIN=['1','2','+','-','*','"s"','a','b','x','.5','e','<','>>','=','( a )','( 1 , b )',"'c'",'3u']
def gen(rng):
    lines=[]; macs={}   # name -> (kind, nparams, variadic)
    def body(params,va,fn):
        out=[]; n=rng.randint(0,7); last_paste=False
        for i in range(n):
            r=rng.random()
            if params and r<0.30: out.append(rng.choice(params))
            elif fn and params and r<0.40: out.append('#'+rng.choice(params))
            elif r<0.58 and macs:
                m=rng.choice(list(macs)+[None]) 
                if m is None: out.append(rng.choice(MAC))   # possibly self / undefined
                else:
                    out.append(m)
                    k,np,v=macs[m]
                    if k=='f' and rng.random()<0.7:
                        na=np+(rng.randint(0,2) if v else 0)
                        if np==0 and not v: out.append('( )')
                        else: out.append('( '+' , '.join(rng.choice(['1','a','b']+(params or ['2'])) for _ in range(max(na,1)))+' )')
            elif fn and r<0.66 and out and i<n-1 and params:
                # paste: ident-ish operands only, non-empty by construction: left literal ident, right param or ident
                out.append(rng.choice(['p','q'])+' ## '+rng.choice(['r','1',rng.choice(params)])); 
            else: out.append(rng.choice(PLAIN))
        if va:
            out.append(rng.choice(['__VA_ARGS__','# __VA_ARGS__','__VA_ARGS__']))
        s=''
        for t in out: s+=t+rng.choice([' ',' ','  '])
        return s.strip()
    for k in range(rng.randint(1,5)):
        name=rng.choice(MAC)
        if rng.random()<0.35:
            lines.append(f'#define {name} {body([],False,False)}'); macs[name]=('o',0,False)
        else:
            np=rng.randint(0,3); params=rng.sample(IDS,np); va=rng.random()<0.3
            plist=','.join(params+(['...'] if va else []))
            lines.append(f'#define {name}({plist}) {body(params,va,True)}'); macs[name]=('f',np,va)
        if rng.random()<0.08: 
            u=rng.choice(list(macs)); lines.append(f'#undef {u}'); del macs[u]
    if not macs: lines.append('#define OBJ 1'); macs['OBJ']=('o',0,False)
    def arg(d,allow_empty=True):
        r=rng.random()
        if r<0.12 and allow_empty: return ''
        if r<0.4 and d>0: return inv(d-1)
        if r<0.5 and d>0: return '('+arg(d-1)+','+arg(d-1)+')'
        return ' '.join(rng.choice(PLAIN[:6]+IDS+list(macs)) for _ in range(rng.randint(1,3)))
    def inv(d):
        m=rng.choice(list(macs)); k,np,v=macs[m]
        if k=='o' or rng.random()<0.1: return m
        na=np+(rng.randint(0,2) if v else 0)
        if np==0 and not v: return m+rng.choice(['()',' ( )'])
        if na==0: na= 1 if np==0 and v else na
        # single-param macro with empty arg is valid: F()
        args=[arg(d) for _ in range(max(na,1) if (np>0 or v) else 0)]
        return m+rng.choice(['',' '])+'('+','.join(args)+')'
    for k in range(rng.randint(1,4)):
        lines.append(f'[ {inv(2)} ] {rng.choice(PLAIN)} {rng.choice(list(macs)+IDS)}')
    return '\n'.join(lines)+'\n'
def run(seed):
    rng=random.Random(seed); res=collections.Counter(); bad=[]
    d=tempfile.mkdtemp(prefix='cq')
    for k in range(150):
        src=gen(rng); f=f'{d}/t.c'; open(f,'w').write(src)
        g=subprocess.run(['gcc','-E','-P','-std=gnu11','-w',f],capture_output=True,text=True)
        c=subprocess.run(['clang','-E','-P','-std=gnu11','-w',f],capture_output=True,text=True)
        if g.returncode or c.returncode: res['ref-reject']+=1; continue
        gt=lex(g.stdout); ct=lex(c.stdout)
        if gt!=ct: res['ref-disagree']+=1; continue
        try: x=subprocess.run([C,'-E',f],capture_output=True,text=True,timeout=10)
        except subprocess.TimeoutExpired: res['HANG']+=1; bad.append(('HANG',src,'')); continue
        if x.returncode!=0: res['chi-reject']+=1; bad.append(('REJ',src,x.stderr.strip().split('\n')[-1])); continue
        xt=lex(x.stdout)
        if xt==gt: res['ok']+=1
        elif ''.join(xt)==''.join(gt): res['spacing-only']+=1
        else: res['MISMATCH']+=1; bad.append(('MIS',src,' '.join(xt)+'   VS   '+' '.join(gt)))
    subprocess.run(['rm','-rf',d]); return res,bad
if __name__=='__main__':
    with multiprocessing.Pool(16) as p: out=p.map(run,range(int(sys.argv[1])))
    tot=collections.Counter(); bad=[]
    for r,b in out: tot.update(r); bad+=b
    print(tot); bad.sort(key=lambda b:len(b[1]))
    for k,src,info in bad[:int(sys.argv[2])]:
        print('-----',k); print(src,end=''); print('  =>',info)
