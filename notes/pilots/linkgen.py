# Pilot (exploratory): multi-TU linkage generator. Oracle: output of the gcc-built program and
# the set of (name, binding, kind) of externally visible symbols per object file vs gcc.
import random, subprocess, sys, collections, multiprocessing, tempfile, os, re
C = os.environ.get('CHI', '/tmp/scratch/cc/chibicc')

def gen(r, ntu, common):
    tus = [[] for _ in range(ntu)]; uses = [[] for _ in range(ntu)]; feat = set()
    # ---- objects
    for k in range(r.randint(2, 6)):
        name = f'o{k}'; ty = r.choice(['int', 'long', 'char', 'short']); tls = r.random() < 0.2
        pre = '_Thread_local ' if tls else ''
        mode = r.choice(['ext', 'ext', 'static', 'tentative' if common and not tls else 'ext'])
        val = r.randint(1, 90)
        if mode == 'static':
            feat.add('static_obj')
            for t in range(ntu):
                if r.random() < 0.6:
                    seq = []
                    n = r.randint(1, 3); definit = r.random() < 0.6; pos = r.randrange(n)
                    for i in range(n):
                        if definit and i == pos: seq.append(f'static {pre}{ty} {name} = {val + t};')
                        else: seq.append(f'static {pre}{ty} {name};')
                    if n > 1: feat.add('repeat_decl')
                    tus[t] += seq; uses[t].append((name, (val + t) if definit else 0))
        elif mode == 'tentative':
            feat.add('tentative_multi')
            for t in range(ntu):
                n = r.randint(0, 2)
                if t == 0 and n == 0: n = 1
                tus[t] += [f'{ty} {name};'] * n
                if n == 0: tus[t].append(f'extern {ty} {name};')
                if n > 1: feat.add('repeat_tentative')
                uses[t].append((name, 0))
        else:
            owner = r.randrange(ntu); init = r.random() < 0.7
            for t in range(ntu):
                seq = []
                if t == owner:
                    n = r.randint(1, 3); pos = r.randrange(n)
                    for i in range(n):
                        if i == pos: seq.append(f'{pre}{ty} {name} = {val};' if init else f'{pre}{ty} {name};')
                        else:
                            seq.append(r.choice([f'extern {pre}{ty} {name};', f'{pre}{ty} {name};' if not tls else f'extern {pre}{ty} {name};']))
                    if n > 1: feat.add('repeat_decl')
                    if tls: feat.add('tls')
                else:
                    if r.random() < 0.2: continue
                    seq = [f'extern {pre}{ty} {name};'] * r.randint(1, 2)
                tus[t] += seq; uses[t].append((name, val if init else 0))
    # ---- functions
    nfun = r.randint(2, 6); fdefs = {}
    for k in range(nfun):
        name = f'f{k}'; kind = r.choice(['ext', 'static', 'sinline', 'sinline', 'einline'])
        fdefs[name] = kind
    names = list(fdefs)
    for t in range(ntu):
        local = []
        for name, kind in fdefs.items():
            callees = [n for n in r.sample(names, r.randint(0, 2)) if n != name]
            body = ' + '.join([str(r.randint(1, 9))] + [f'{c}(d-1)' for c in callees])
            txt = f'(int d) {{ if (d <= 0) return {r.randint(1,9)}; return {body}; }}'
            if kind == 'ext':
                if t == 0: tus[t].append(('FN', name, f'int {name}{txt}', callees))
                else: tus[t].append(f'int {name}(int d);')
            elif kind == 'einline':
                if t == 0: tus[t].append(('FN', name, f'extern inline int {name}{txt}', callees))
                else: tus[t].append(f'int {name}(int d);')
            elif kind == 'static':
                tus[t].append(('FN', name, f'static int {name}{txt}', callees))
            else:
                tus[t].append(('FN', name, f'static inline int {name}{txt}', callees)); feat.add('sinline')
    # prototypes first so that any call order is fine
    out = []
    for t in range(ntu):
        lines = ['int printf(const char*,...);']
        for it in tus[t]:
            if isinstance(it, tuple):
                sig = it[2].split('{')[0].strip()
                lines.append(sig.replace('(int d)', '(int d);') if True else '')
        body = []
        for it in tus[t]:
            body.append(it if isinstance(it, str) else it[2])
        r.shuffle(body) if False else None
        # which functions get referenced from roots in this TU
        fns = [it[1] for it in tus[t] if isinstance(it, tuple)]
        called = r.sample(fns, r.randint(0, len(fns))) if fns else []
        if r.random() < 0.4 and fns:
            fpn = r.choice(fns); body.append(f'int (*fp{t})(int) = {fpn};'); feat.add('fnptr_init'); called_fp = fpn
        else: called_fp = None
        prn = ''.join(f' printf("{n}@{t}=%ld\\n",(long){n}); {n} += {t+1};' for n, v in uses[t])
        prn += ''.join(f' printf("{c}@{t}=%d\\n",{c}(2));' for c in called)
        if called_fp: prn += f' printf("fp@{t}=%d\\n", fp{t}(2));'
        body.append(f'void run{t}(void) {{{prn} }}')
        lines += body
        if t == 0:
            lines.append(''.join(f'void run{i}(void);' for i in range(1, ntu)))
            lines.append('int main(void) { ' + ''.join(f'run{i}(); ' for i in range(ntu)) + ''.join(f'run{i}(); ' for i in range(ntu)) + 'return 0; }')
        out.append('\n'.join(lines) + '\n')
    return out, feat

def syms(obj):
    p = subprocess.run(['readelf', '-sW', obj], capture_output=True, text=True).stdout
    s = set()
    for l in p.split('\n'):
        f = l.split()
        if len(f) >= 8 and f[4] in ('GLOBAL', 'WEAK') and f[7] not in ('_GLOBAL_OFFSET_TABLE_', 'printf', '__tls_get_addr'):
            kind = 'UND' if f[6] == 'UND' else ('COM' if f[6] == 'COM' else 'DEF')
            s.add((f[7], kind, f[3] if kind != 'UND' else '-'))
    return s

def run(seed):
    r = random.Random(seed); res = []
    d = tempfile.mkdtemp(prefix='lk')
    try:
        for it in range(6):
            ntu = r.randint(1, 3); common = r.random() < 0.5
            srcs, feat = gen(r, ntu, common)
            files = []
            for t, s in enumerate(srcs):
                f = f'{d}/u{t}.c'; open(f, 'w').write(s); files.append(f)
            copt = '-fcommon' if common else '-fno-common'
            g = subprocess.run(['gcc', '-w', '-O0', copt, '-o', f'{d}/ref'] + files, capture_output=True, text=True)
            if g.returncode: res.append(('ref-fail', feat, g.stderr[:300], srcs)); continue
            ref = subprocess.run([f'{d}/ref'], capture_output=True, text=True, timeout=10).stdout
            for cfg in (['-fPIC'], [], ['-static']):
                try: p = subprocess.run([C, copt] + cfg + ['-o', f'{d}/chi'] + files, capture_output=True, text=True, timeout=30)
                except subprocess.TimeoutExpired: res.append(('HANG', feat, '', srcs)); continue
                err = '\n'.join(l for l in p.stderr.split('\n') if 'GNU-stack' not in l and 'NOTE:' not in l)
                if p.returncode: res.append(('chi-fail' + str(cfg), feat, err[-300:], srcs)); continue
                out = subprocess.run([f'{d}/chi'], capture_output=True, text=True, timeout=10).stdout
                res.append(('ok' if out == ref else 'MISMATCH' + str(cfg), feat, '', srcs))
            # symbol comparison
            for t, f in enumerate(files):
                subprocess.run(['gcc', '-w', '-O0', copt, '-c', f, '-o', f'{d}/g{t}.o']); q = subprocess.run([C, copt, '-c', f, '-o', f'{d}/c{t}.o'], capture_output=True, timeout=20)
                if q.returncode == 0:
                    a, b = syms(f'{d}/c{t}.o'), syms(f'{d}/g{t}.o')
                    # undefined symbols that are never referenced may legitimately differ; compare definitions
                    da = {x for x in a if x[1] != 'UND'}; db = {x for x in b if x[1] != 'UND'}
                    res.append(('sym-ok' if da == db else 'SYMDIFF', feat, str(sorted(da ^ db)), [srcs[t]]))
        return res
    finally: subprocess.run(['rm', '-rf', d])

if __name__ == '__main__':
    with multiprocessing.Pool(16) as p: out = p.map(run, range(int(sys.argv[1])))
    cnt = collections.Counter(); ex = {}
    for rr in out:
        for st, feat, msg, srcs in rr:
            cnt[st] += 1
            key = (st, msg.strip().split('\n')[-1][-70:] if st.startswith('chi-fail') else (msg[:80] if st == 'SYMDIFF' else ''))
            if st not in ('ok', 'sym-ok'):
                sz = sum(len(s) for s in srcs)
                if key not in ex or sz < ex[key][0]: ex[key] = (sz, srcs, msg)
    print(cnt)
    for key, (sz, srcs, msg) in sorted(ex.items(), key=lambda kv: kv[1][0])[:int(sys.argv[2])]:
        print('=====', key); print(msg[-400:])
        for i, s in enumerate(srcs): print(f'--- u{i}.c'); print(s)
