import subprocess, os, sys, glob
env=dict(os.environ); env['PATH']=os.getcwd()+'/shim:'+env['PATH']; env['CNT']=os.getcwd()+'/cnt'; env['LD_PRELOAD']=os.getcwd()+'/preload.so'; env['VERIF_TMPLOG']=os.getcwd()+'/tmplog'
for k,v in [a.split('=') for a in sys.argv[2:]]: env[k]=v
for f in glob.glob('cnt*')+['tmplog']+glob.glob('*.o')+['a.out']:
    if os.path.exists(f): os.remove(f)
args=sys.argv[1].split()
p=subprocess.run([os.getcwd()+'/shim/cc1shim']+args, executable='/tmp/scratch/cc/chibicc', env=env, capture_output=True, text=True, timeout=20)
log=open('tmplog').read().split('\n') if os.path.exists('tmplog') else []
left=[l.split()[2] for l in log if l and os.path.exists(l.split()[2])]
print(sys.argv[1:], 'rc',p.returncode,'files',sorted(glob.glob('*.o')+glob.glob('a.out')),'tmp created',len([l for l in log if l]),'left',left, '|', p.stderr.strip().split('\n')[-1][:70])
