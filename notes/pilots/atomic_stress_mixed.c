#include <stdatomic.h>
int printf(const char*,...);
typedef unsigned long pthread_t;
int pthread_create(pthread_t*,void*,void*(*)(void*),void*); int pthread_join(pthread_t,void**);
void *malloc(unsigned long);
#define N 200000
#define T 8
struct R { char pad; _Atomic short s; _Atomic long l; } r;
_Atomic unsigned char g8; _Atomic unsigned short g16; _Atomic int g32; _Atomic long g64; _Atomic unsigned gx; _Atomic long gcas; _Atomic int gexch = 0; _Atomic long exch_sum;
_Atomic int *heap;
static void *th(void *a){ long id=(long)a; long got=0;
  for(int i=0;i<N;i++){ g8 += 1; g16 -= 1; g32++; --g64; gx ^= (1u<<(id*3)); r.s += 1; r.l -= 2; *heap += 3;
    long old = gcas; while(!atomic_compare_exchange_weak(&gcas,&old,old+id+1)) ;
    got += atomic_exchange(&gexch, (int)(id*N+i+1)); }
  exch_sum += got; return 0; }
int main(){ heap = malloc(sizeof(int)); *heap = 0; pthread_t t[T]; long total=0;
  for(long i=0;i<T;i++) pthread_create(&t[i],0,th,(void*)i); for(int i=0;i<T;i++) pthread_join(t[i],0);
  long want_cas=0; for(long id=0;id<T;id++) want_cas += (id+1)*(long)N;
  long put=0; for(long id=0;id<T;id++) for(long i=0;i<N;i++) put += id*N+i+1;
  printf("g8=%d(%d) g16=%d(%d) g32=%d(%d) g64=%ld(%ld) gx=%u(%u) r.s=%d(%d) r.l=%ld(%ld) heap=%d(%d) cas=%ld(%ld) exch=%ld(%ld)\n",
    g8,(unsigned char)(T*N), g16,(unsigned short)(-T*N), g32,T*N, g64,-(long)T*N, gx, 0u, r.s,(short)(T*N), r.l,-2L*T*N, *heap,3*T*N, gcas,want_cas, exch_sum+gexch, put);
  return 0; }
