import random, subprocess, sys, collections, multiprocessing, tempfile
import os
C=os.environ.get('CHI','/tmp/scratch/cc/chibicc')
SCAL=[('char','i'),('unsigned char','i'),('short','i'),('unsigned short','i'),('int','i'),('unsigned','i'),('long','i'),('unsigned long','i'),('float','f'),('double','f'),('long double','x'),('void*','p')]
class Ty:
    def __init__(s,kind,name,mems=None,n=0,el=None): s.kind,s.name,s.mems,s.n,s.el=kind,name,mems,n,el
def leaves(t,path):
    if t.kind=='s': yield path,t
    elif t.kind=='a':
        for i in range(t.n): yield from leaves(t.el,f'{path}[{i}]')
    else:
        ms=t.mems if t.kind=='st' else t.mems[:1]
        for mn,mt in ms: yield from leaves(mt,f'{path}.{mn}')
def has_ld(t): return any(l.name=='long double' for p,l in leaves(t,''))
def gen_agg(r,idx,k,depth=1):
    mems=[]; kind='un' if r.random()<0.1 else 'st'
    for i in range(r.randint(1,4)):
        x=r.random()
        base=Ty('s',r.choice(SCAL[:10]+[SCAL[11]])[0]) if r.random()<0.95 else Ty('s','long double')
        if x<0.2: mems.append((f'm{i}',Ty('a',None,n=r.randint(1,3),el=base)))
        elif x<0.3 and depth>0: mems.append((f'm{i}',gen_agg(r,idx,f'{k}_{i}',depth-1)))
        else: mems.append((f'm{i}',base))
    return Ty(kind,f'S{idx}_{k}',mems=mems)
def decl(t,name):
    if t.kind=='s': return f'{t.name} {name}'
    if t.kind=='a': return decl(t.el,f'{name}[{t.n}]')
    return f'{"union" if t.kind=="un" else "struct"} {{ '+' '.join(decl(mt,mn)+';' for mn,mt in t.mems)+f' }} {name}'
def gen_sig(r,idx):
    tdefs=[]; 
    def pick():
        if r.random()<0.35:
            a=gen_agg(r,idx,len(tdefs)); tdefs.append(a); return a
        return Ty('s',r.choice(SCAL)[0])
    ngp=r.choice([0,0,1,3,4,5,6,7]); nfp=r.choice([0,0,2,6,7,8,9])
    params=[Ty('s','long')]*ngp+[Ty('s','double')]*nfp; r.shuffle(params)
    for _ in range(r.randint(1,4)): params.insert(r.randint(0,len(params)) if r.random()<0.3 else len(params),pick())
    ret=pick() if r.random()<0.7 else None
    feat=set()
    for t in params+([ret] if ret else []):
        if t.kind!='s':
            feat.add('agg')
            if has_ld(t): feat.add('ld_in_agg')
        elif t.name=='long double': feat.add('ld')
    return dict(idx=idx,tdefs=tdefs,params=params,ret=ret,feat=feat)
def tname(t): return t.name
def fillcode(t,var,seed):
    out=''
    for k,(p,l) in enumerate(leaves(t,var)):
        v=(seed*7+k*3+1)%100
        out+=f'  {p} = ({l.name}){v}{".25" if l.name in("float","double","long double") else ""};\n' if l.name!='void*' else f'  {p} = (void*){v}L;\n'
    return out
def logcode(t,var,fi,k):
    out=''
    for j,(p,l) in enumerate(leaves(t,var)):
        if l.name in('float','double','long double'): out+=f'  printf("{fi}.{k}.{j} %g\\n",(double){p});\n'
        elif l.name=='void*': out+=f'  printf("{fi}.{k}.{j} %ld\\n",(long){p});\n'
        else: out+=f'  printf("{fi}.{k}.{j} %ld\\n",(long){p});\n'
    return out
def emit(sig,side):
    i=sig['idx']; P=sig['params']; R=sig['ret']
    plist=', '.join(f'{tname(t)} p{k}' for k,t in enumerate(P)) or 'void'
    proto=f'{tname(R) if R else "void"} f{i}({plist})'
    if side=='callee':
        b=f'{proto} {{\n  align_probe();\n'
        for k,t in enumerate(P): b+=logcode(t,f'p{k}',i,k)
        if R: b+=f'  {tname(R)} r;\n'+(f'  memset(&r,0,sizeof r);\n' if R.kind!='s' else '')+fillcode(R,'r',i+50)+'  return r;\n'
        return b+'}\n'
    b=f'{proto};\nvoid call{i}(void) {{\n'
    for k,t in enumerate(P): b+=f'  {tname(t)} a{k};\n'+(f'  memset(&a{k},0,sizeof a{k});\n' if t.kind!='s' else '')+fillcode(t,f'a{k}',i*3+k)
    call=f'f{i}({", ".join(f"a{k}" for k in range(len(P)))})'
    if R: b+=f'  {tname(R)} r = {call};\n'+logcode(R,'r',i,99)
    else: b+=f'  {call};\n'
    # call nested in an expression with pending temporaries too
    return b+'}\n'
COMMON='int printf(const char*,...);\nvoid *memset(void*,int,long);\nvoid align_probe(void);\n'
SUPPORT='#include <stdio.h>\n#include <stdint.h>\nvoid align_probe(void){ volatile __attribute__((aligned(16))) char x[16]; if (((uintptr_t)__builtin_frame_address(0)) % 16) printf("MISALIGNED\\n"); __asm__ volatile("movaps %%xmm0, %0" : "=m"(x)); }\n'
def run(seed):
    r=random.Random(seed); sigs=[gen_sig(r,i) for i in range(14)]
    tdefs=''.join(f'typedef {decl(t,t.name)};\n' for s in sigs for t in s['tdefs'])
    callee=COMMON+tdefs+''.join(emit(s,'callee') for s in sigs)
    caller=COMMON+tdefs+''.join(emit(s,'caller') for s in sigs)+'int main(){'+''.join(f'call{s["idx"]}();' for s in sigs)+'return 0;}\n'
    d=tempfile.mkdtemp(prefix='a2')
    try:
        open(f'{d}/callee.c','w').write(callee); open(f'{d}/caller.c','w').write(caller); open(f'{d}/sup.c','w').write(SUPPORT)
        subprocess.run(['gcc','-w','-c',f'{d}/sup.c','-o',f'{d}/sup.o'])
        for comp in('gcc','chi'):
            for unit in('callee','caller'):
                o=f'{d}/{unit}.{comp}.o'
                if comp=='gcc': p=subprocess.run(['gcc','-w','-O0','-c',f'{d}/{unit}.c','-o',o],capture_output=True,text=True)
                else: p=subprocess.run([C,'-c',f'{d}/{unit}.c','-o',o],capture_output=True,text=True,timeout=20)
                if p.returncode!=0: return seed,f'{comp}-fail',p.stderr[-400:],[]
        outs={}
        for a in('gcc','chi'):
            for b in('gcc','chi'):
                exe=f'{d}/x.{a}.{b}'
                subprocess.run(['gcc','-o',exe,f'{d}/caller.{a}.o',f'{d}/callee.{b}.o',f'{d}/sup.o'],capture_output=True)
                try: rr=subprocess.run([exe],capture_output=True,text=True,timeout=10); outs[(a,b)]=(rr.returncode,rr.stdout.split('\n'))
                except subprocess.TimeoutExpired: outs[(a,b)]=('timeout',[])
        ref=outs[('gcc','gcc')][1]; bad=[]
        for key,(rc,o) in outs.items():
            if key==('gcc','gcc'): continue
            for s in sigs:
                i=s['idx']; a=[l for l in o if l.startswith(f'{i}.')]; b=[l for l in ref if l.startswith(f'{i}.')]
                if a!=b: bad.append((key,tuple(sorted(s['feat'])),s,[(x,y) for x,y in zip(a,b) if x!=y][:2],rc))
            if 'MISALIGNED' in o: bad.append((key,('MISALIGNED',),sigs[0],[],rc))
        return seed,'ok','',bad
    finally: subprocess.run(['rm','-rf',d])
if __name__=='__main__':
    with multiprocessing.Pool(16) as p: res=p.map(run,range(int(sys.argv[1])))
    cnt=collections.Counter(); by=collections.Counter(); ex={}
    for seed,st,msg,bad in res:
        cnt[st]+=1
        if st!='ok' and cnt[st]<3: print(seed,st,msg[:300])
        for key,feat,s,diff,rc in bad:
            k=(key,feat); by[k]+=1; sz=sum(len(decl(t,'x')) for t in s['params'])
            if k not in ex or sz<ex[k][0]: ex[k]=(sz,s,diff,rc)
    print(cnt, sum(by.values()))
    for k,c in by.most_common(25):
        sz,s,diff,rc=ex[k]
        print(c,k,'\n   ',(decl(s['ret'],'') if s['ret'] else 'void'),[decl(t,'') for t in s['params']],'rc',rc,'\n    ',diff)
