# Prototype: typed integer expression generator with a reference model (UB avoidance), differential vs gcc.
import random, subprocess, sys, os, collections, multiprocessing, tempfile
C='/tmp/scratch/cc/chibicc'
class T:
    def __init__(s,name,bits,signed,rank): s.name,s.bits,s.signed,s.rank=name,bits,signed,rank
    def __repr__(s): return s.name
    def min(s): return -(1<<(s.bits-1)) if s.signed else 0
    def max(s): return (1<<(s.bits-1))-1 if s.signed else (1<<s.bits)-1
BOOL=T('_Bool',1,False,0)
CHAR=T('char',8,True,1); UCHAR=T('unsigned char',8,False,1)
SHORT=T('short',16,True,2); USHORT=T('unsigned short',16,False,2)
INT=T('int',32,True,3); UINT=T('unsigned int',32,False,3)
LONG=T('long',64,True,4); ULONG=T('unsigned long',64,False,4)
TYPES=[BOOL,CHAR,UCHAR,SHORT,USHORT,INT,UINT,LONG,ULONG]
def size(t): return 1 if t is BOOL else t.bits//8
def conv(v,t):
    if t is BOOL: return 1 if v!=0 else 0
    m=(1<<t.bits); v%=m
    if t.signed and v>=m>>1: v-=m
    return v
def promote(t): return INT if t.rank<3 else t
def common(a,b):
    a,b=promote(a),promote(b)
    if a is b: return a
    if a.signed==b.signed: return a if a.rank>b.rank else b
    u,s=(a,b) if not a.signed else (b,a)
    if u.rank>=s.rank: return u
    if s.bits>u.bits: return s
    return {INT:UINT,LONG:ULONG}[s]
class E:
    def __init__(s,txt,t,v): s.txt,s.t,s.v=txt,t,v
BOUND=lambda t:[0,1,2,t.max(),t.max()-1,t.min(),t.min()+1,-1,t.max()>>1,(t.max()>>1)+1,3,7,100,255,256,65535,65536,0x7fffffff,0x80000000,0xffffffff,0x100000000]
def lit(rng,t,v):
    # spell value v of type t as a cast literal
    if t is BOOL: return f'((_Bool){v})'
    if t.signed:
        if v==t.min(): return f'(({t.name})(-{-(v+1)}L-1))'
        return f'(({t.name}){v}L)' if v>=0 else f'(({t.name})-{-v}L)'
    return f'(({t.name}){v}UL)'
class Gen:
    def __init__(s,rng): s.rng=rng; s.vars=[]; s.feat=set()
    def newvar(s,t,v):
        n=f'v{len(s.vars)}'; s.vars.append((n,t,v)); return E(n,t,v)
    def leaf(s):
        r=s.rng; t=r.choice(TYPES)
        v=conv(r.choice(BOUND(t)) if r.random()<0.7 else r.getrandbits(64),t)
        if r.random()<0.3: return E(lit(r,t,v),t,v)
        return s.newvar(t,v)
    def expr(s,d):
        r=s.rng
        if d<=0 or r.random()<0.15: return s.leaf()
        k=r.choice(['bin']*6+['un','cast','cmp','cmp','log','cond','shift','shift','comma'])
        if k=='bin':
            op=r.choice('+-*/%&|^'); a=s.expr(d-1); b=s.expr(d-1); ct=common(a.t,b.t)
            x,y=conv(a.v,ct),conv(b.v,ct)
            if op in '/%':
                if y==0 or (ct.signed and x==ct.min() and y==-1):
                    b=E(f'({b.txt}|1)',common(b.t,INT),None); 
                    bt=common(b.t,INT); yv=conv(conv(b.v if b.v is not None else 0,bt),bt)
                    # recompute b value
                    return s.expr(d-1)
                if op=='/':
                    q=abs(x)//abs(y); q=q if (x<0)==(y<0) else -q; res=q
                else:
                    q=abs(x)//abs(y); q=q if (x<0)==(y<0) else -q; res=x-q*y
            elif op=='+': res=x+y
            elif op=='-': res=x-y
            elif op=='*': res=x*y
            elif op=='&': res=x&y
            elif op=='|': res=x|y
            else: res=x^y
            if ct.signed and not (ct.min()<=res<=ct.max()):
                # overflow: make unsigned
                ut={INT:UINT,LONG:ULONG}[ct]
                a=E(f'(({ut.name}){a.txt})',ut,conv(a.v,ut)); ct=common(a.t,b.t); x,y=conv(a.v,ct),conv(b.v,ct)
                res={'+':x+y,'-':x-y,'*':x*y}[op]
            s.feat.add(('bin',op,a.t.name,b.t.name))
            return E(f'({a.txt} {op} {b.txt})',ct,conv(res,ct))
        if k=='shift':
            op=r.choice(['<<','>>']); a=s.expr(d-1); b=s.expr(d-1); pt=promote(a.t); x=conv(a.v,pt)
            cnt=conv(b.v,promote(b.t)); 
            btxt=b.txt
            if not (0<=cnt<pt.bits):
                btxt=f'({b.txt} & {pt.bits-1})'; cnt=conv(b.v,promote(b.t)) & (pt.bits-1)
            if op=='<<':
                if pt.signed and (x<0 or (x<<cnt)>pt.max()):
                    ut={INT:UINT,LONG:ULONG}[pt]; a=E(f'(({ut.name}){a.txt})',ut,conv(a.v,ut)); pt=ut; x=a.v
                res=conv(x<<cnt,pt)
            else:
                res=x>>cnt  # arithmetic for negative: implementation-defined; gcc arithmetic
            s.feat.add(('shift',op,a.t.name,b.t.name))
            return E(f'({a.txt} {op} {btxt})',pt,conv(res,pt))
        if k=='un':
            op=r.choice('-~!+'); a=s.expr(d-1); pt=promote(a.t); x=conv(a.v,pt)
            if op=='!': return E(f'(!{a.txt})',INT,int(a.v==0))
            if op=='+': return E(f'(+{a.txt})',pt,x)
            if op=='~': 
                s.feat.add(('~',a.t.name)); return E(f'(~{a.txt})',pt,conv(~x,pt))
            if pt.signed and x==pt.min(): return a
            return E(f'(-{a.txt})',pt,conv(-x,pt))
        if k=='cast':
            a=s.expr(d-1); t=r.choice(TYPES); s.feat.add(('cast',a.t.name,t.name)); return E(f'(({t.name}){a.txt})',t,conv(a.v,t))
        if k=='cmp':
            op=r.choice(['<','<=','>','>=','==','!=']); a=s.expr(d-1); b=s.expr(d-1); ct=common(a.t,b.t); x,y=conv(a.v,ct),conv(b.v,ct)
            res={'<':x<y,'<=':x<=y,'>':x>y,'>=':x>=y,'==':x==y,'!=':x!=y}[op]
            s.feat.add(('cmp',op,a.t.name,b.t.name))
            return E(f'({a.txt} {op} {b.txt})',INT,int(res))
        if k=='log':
            op=r.choice(['&&','||']); a=s.expr(d-1); b=s.expr(d-1)
            res=(a.v!=0 and b.v!=0) if op=='&&' else (a.v!=0 or b.v!=0)
            return E(f'({a.txt} {op} {b.txt})',INT,int(res))
        if k=='cond':
            c=s.expr(d-1); a=s.expr(d-1); b=s.expr(d-1); ct=common(a.t,b.t)
            res=conv(a.v,ct) if c.v!=0 else conv(b.v,ct)
            s.feat.add(('cond',a.t.name,b.t.name))
            return E(f'({c.txt} ? {a.txt} : {b.txt})',ct,res)
        if k=='comma':
            a=s.expr(d-1); b=s.expr(d-1); return E(f'({a.txt}, {b.txt})',b.t,b.v)
def gen_tu(seed,ncases,depth):
    rng=random.Random(seed); out=['int printf(const char*,...);']; cases=[]
    for i in range(ncases):
        g=Gen(rng); e=g.expr(rng.randint(1,depth))
        decl=''.join(f'  volatile {t.name} {n} = {lit(rng,t,v)};\n' for n,t,v in g.vars)
        out.append(f'void c{i}(void){{\n{decl}  printf("{i} %lx %d %d\\n",(unsigned long)({e.txt}),(int)sizeof({e.txt}),(int)((__typeof__({e.txt}))-1 < 0));\n}}')
        exp=f'{i} {conv(e.v,ULONG):x} {size(e.t)} {int(e.t.signed)}'
        cases.append((e.txt,exp,decl))
    out.append('int main(){'+''.join(f'c{i}();' for i in range(ncases))+'return 0;}')
    return '\n'.join(out),cases
def run(seed):
    src,cases=gen_tu(seed,60,4)
    d=tempfile.mkdtemp(prefix='ig'); f=f'{d}/t.c'; open(f,'w').write(src)
    r=[]
    p=subprocess.run([C,'-o',f'{d}/chi',f],capture_output=True,text=True)
    if p.returncode!=0: return seed,'chibicc-fail',p.stderr[-300:],[]
    g=subprocess.run(['gcc','-w','-O0','-o',f'{d}/gcc',f],capture_output=True,text=True)
    if g.returncode!=0: return seed,'gcc-fail',g.stderr[-300:],[]
    o1=subprocess.run([f'{d}/chi'],capture_output=True,text=True).stdout.split('\n')
    o2=subprocess.run([f'{d}/gcc'],capture_output=True,text=True).stdout.split('\n')
    bad=[]
    for i,(txt,exp,decl) in enumerate(cases):
        a=o1[i] if i<len(o1) else '?'; b=o2[i] if i<len(o2) else '?'
        if b!=exp: bad.append(('MODEL',txt,decl,exp,b,a))
        elif a!=b: bad.append(('CHI',txt,decl,exp,b,a))
    subprocess.run(['rm','-rf',d])
    return seed,'ok','',bad
if __name__=='__main__':
    n=int(sys.argv[1])
    with multiprocessing.Pool(16) as p:
        res=p.map(run,range(n))
    cnt=collections.Counter(); shown=0
    for seed,st,msg,bad in res:
        cnt[st]+=1
        if st!='ok' and shown<5: print(seed,st,msg); shown+=1
        for b in bad:
            cnt[b[0]]+=1
    print(cnt)
    k=0
    allbad=[b for r in res for b in r[3]]
    allbad.sort(key=lambda b:len(b[1]))
    for b in allbad[:int(sys.argv[2]) if len(sys.argv)>2 else 12]:
        print(b[0],b[1],'\n   decl:',b[2].replace('\n',' '),'\n   exp',b[3],'gcc',b[4],'chi',b[5])
