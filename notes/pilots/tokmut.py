import random, subprocess, os, re, sys, collections, multiprocessing, signal, tempfile
C='/tmp/scratch/cc/chibicc'
TOK=re.compile(r'''[A-Za-z_]\w*|\.?\d(?:[eEpP][+-]|[\w.])*|"(?:\\.|[^"\\\n])*"|'(?:\\.|[^'\\\n])*'|<<=|>>=|\.\.\.|->|\+\+|--|<<|>>|<=|>=|==|!=|&&|\|\||[-+*/%&|^]=|##|\S''')
def toks(src):
    out=[]
    for line in src.split('\n'):
        out.append(TOK.findall(line)+['\n'])
    return [t for l in out for t in l]
seeds=[]
for f in sorted(os.listdir('/tmp/scratch/cc/test')):
    if f.endswith('.c'):
        p=subprocess.run([C,'-E','-I/tmp/scratch/cc/include','-I/tmp/scratch/cc/test','/tmp/scratch/cc/test/'+f],capture_output=True,text=True)
        if p.returncode==0: seeds.append(toks(p.stdout))
# also raw (with directives)
for f in ['macro.c','line.c','pragma-once.c']:
    seeds.append(toks(open('/tmp/scratch/cc/test/'+f).read()))
pool=[t for s in seeds for t in s if t!='\n']
def mutate(rng,s):
    s=list(s)
    # take a window to keep it small: pick function-ish chunk
    n=len(s); 
    for _ in range(rng.randint(1,3)):
        if not s: break
        i=rng.randrange(len(s)); op=rng.randrange(5)
        if op==0: del s[i]
        elif op==1: s[i]=rng.choice(pool)
        elif op==2: s.insert(i,rng.choice(pool))
        elif op==3: s.insert(i,s[i])
        else:
            j=rng.randrange(len(s)); s[i],s[j]=s[j],s[i]
    return s
def render(s):
    return ' '.join(s).replace(' \n ','\n')
def work(args):
    wid,n=args
    rng=random.Random(wid)
    res=collections.Counter(); ex={}
    d=tempfile.mkdtemp(prefix='fz')
    for k in range(n):
        base=rng.choice(seeds)
        # choose a chunk of lines
        src=render(mutate(rng,base))
        fn=f'{d}/x.c'; open(fn,'w').write(src)
        try:
            p=subprocess.run([C,'-cc1','-cc1-input',fn,'-cc1-output','/dev/null',fn],capture_output=True,timeout=10)
            rc=p.returncode; err=p.stderr.decode('latin1')
        except subprocess.TimeoutExpired:
            rc='timeout'; err=''
        key=rc
        if rc==1:
            if 'internal error' in err: key='internal'
            elif not re.search(r'^[^\n:]+:\d+: ',err,re.M): key='nodiag:'+err[:60]
        if isinstance(key,int) and key<0 or key in('timeout','internal') or (isinstance(key,str) and key.startswith('nodiag')):
            if key not in ex or len(src)<len(ex[key][0]): ex[key]=(src,err[-300:])
            os.makedirs('crash',exist_ok=True)
            open(f'crash/{wid}_{k}_{key if isinstance(key,int) else "x"}.c','w').write(src)
        res[key]+=1
    return res,ex
if __name__=='__main__':
    N=int(sys.argv[1])
    with multiprocessing.Pool(16) as p:
        out=p.map(work,[(i,N) for i in range(16)])
    tot=collections.Counter()
    for r,e in out: tot.update(r)
    print(tot)
