# Pilot (exploratory): physical-line probes through blank lines, comments, splices, includes, CRLF.
import random, subprocess, sys, collections, multiprocessing, tempfile, os, re
C = os.environ.get('CHI', '/tmp/scratch/cc/chibicc')

def gen_file(r, d, name, depth, cnt):
    """returns list of physical lines (without newline) and list of (probe id, expected line, expected file)"""
    lines = []; probes = []
    def add(txt): lines.append(txt)
    for _ in range(r.randint(3, 14)):
        k = r.random(); cnt[0] += 1; n = cnt[0]
        if k < 0.15:
            for _ in range(r.randint(1, 3)): add('')
        elif k < 0.25: add('// comment ' + 'x' * r.randint(0, 5))
        elif k < 0.37:
            m = r.randint(2, 4); add('/* c' + str(n)); [add(' mid') for _ in range(m - 2)]; add(' end */' + (f' int after_c{n};' if r.random() < 0.5 else ''))
        elif k < 0.5:
            # declaration spliced over several lines (no probe on the continuation lines)
            parts = ['int', f's{n}', '=', str(n), ';']; cut = sorted(r.sample(range(1, 5), r.randint(1, 3)))
            cur = ''
            for i, p in enumerate(parts):
                if i in cut: add(cur + ' \\'); cur = ' ' + p
                else: cur += (' ' if cur else '') + p
            add(cur)
        elif k < 0.56:
            add(f'int lo\\'); add(f'ng_{n};')                      # splice inside an identifier
        elif k < 0.62:
            add(f'// line comment continued \\'); add(f'still comment {n}')
        elif k < 0.7:
            add(f'#define M{n}(x) \\'); add(f'  (x + \\'); add(f'   {n})')
        elif k < 0.8 and depth > 0:
            hn = f'h{n}.h'; hl, hp = gen_file(r, d, hn, depth - 1, cnt)
            open(f'{d}/{hn}', 'w').write('\n'.join(hl) + '\n'); probes += hp
            add(f'#include "{hn}"')
        else:
            form = r.choice(['direct', 'obj', 'fn', 'file'])
            ln = len(lines) + 1
            if form == 'direct': add(f'int p{n} = __LINE__;')
            elif form == 'obj': add(f'int p{n} = LN;')
            elif form == 'fn': add(f'int p{n} = ID(__LINE__);')
            else: add(f'char *p{n} = __FILE__; int q{n} = __LINE__;'); probes.append((f'q{n}', ln, None))
            if form != 'file': probes.append((f'p{n}', ln, None))
            else: probes.append((f'p{n}', None, name))
    return lines, probes

def run(seed):
    r = random.Random(seed); res = collections.Counter(); bad = []
    for it in range(20):
        d = tempfile.mkdtemp(prefix='ln')
        try:
            cnt = [0]; lines, probes = gen_file(r, d, 'main.c', 2, cnt)
            lines = ['#define LN __LINE__', '#define ID(x) x'] + lines
            probes = [(p, (l + 2 if fn is None and False else l), fn) for p, l, fn in probes]
            # physical lines of main.c probes shift by 2; header probes do not: recompute by search
            text = '\n'.join(lines) + '\n'
            crlf = r.random() < 0.3
            open(f'{d}/main.c', 'w', newline='').write(text.replace('\n', '\r\n') if crlf else text)
            def expected():
                exp = {}
                for fn in os.listdir(d):
                    for i, l in enumerate(open(f'{d}/{fn}', newline='').read().replace('\r\n', '\n').split('\n')):
                        for m in re.finditer(r'int ([pq]\d+) = (__LINE__|LN|ID\(__LINE__\));', l): exp[m.group(1)] = str(i + 1)
                        for m in re.finditer(r'char \*(p\d+) = __FILE__;', l): exp[m.group(1)] = f'"{fn if fn == "main.c" else "./" + fn}"'
                return exp
            exp = expected()
            def parse(out):
                got = {}
                for m in re.finditer(r'(?:int|char \*) ?([pq]\d+) = ("[^"]*"|\d+)', out.replace('\n', ' ')): got[m.group(1)] = m.group(2)
                return got
            x = subprocess.run([C, '-E', 'main.c'], cwd=d, capture_output=True, text=True, timeout=10)
            g = subprocess.run(['gcc', '-E', '-P', 'main.c'], cwd=d, capture_output=True, text=True)
            if x.returncode: res['chi-fail'] += 1; bad.append(('FAIL', text, x.stderr[-200:])); continue
            got = parse(x.stdout); ref = parse(g.stdout)
            for k, v in exp.items():
                rv = ref.get(k)
                if v.startswith('"'):
                    # gcc prints the path as written in #include: "h3.h"; chibicc "./h3.h": compare basenames
                    ok_ref = rv is not None and os.path.basename(rv.strip('"')) == os.path.basename(v.strip('"'))
                    ok = got.get(k) is not None and os.path.basename(got[k].strip('"')) == os.path.basename(v.strip('"'))
                else: ok_ref = rv == v; ok = got.get(k) == v
                if not ok_ref: res['MODEL'] += 1; bad.append(('MODEL', text, (k, v, rv))); continue
                if ok: res['ok'] += 1
                else: res['MIS'] += 1; bad.append(('MIS', text, (k, v, got.get(k), 'crlf' if crlf else '')))
        finally: subprocess.run(['rm', '-rf', d])
    return res, bad

if __name__ == '__main__':
    with multiprocessing.Pool(16) as p: out = p.map(run, range(int(sys.argv[1])))
    tot = collections.Counter(); bad = []
    for c, b in out: tot.update(c); bad += b
    print(tot); bad.sort(key=lambda b: len(b[1]))
    for k, text, info in bad[:int(sys.argv[2])]: print('-----', k, info); print(text)
