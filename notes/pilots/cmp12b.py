import subprocess, glob, os, sys, collections, multiprocessing, random, tempfile
sys.path.insert(0,'/tmp/scratch/fz')
import fz
S1='/tmp/scratch/s12/s1'; S2='/tmp/scratch/s12/s2'
def run(stage,args,inp):
    try:
        p=subprocess.run(['./chibicc']+args+[inp],cwd=stage,capture_output=True,timeout=20)
        return p.returncode,p.stdout,p.stderr
    except subprocess.TimeoutExpired: return 'timeout',b'',b''
def work(w):
    rng=random.Random(1000+w); c=collections.Counter(); diffs=[]
    d=tempfile.mkdtemp(prefix='c12')
    for k in range(400):
        src=fz.render(fz.mutate(rng,rng.choice(fz.seeds))); f=f'{d}/x{k%4}.c'; open(f,'w').write(src)
        a=run(S1,['-S','-o-'],f); b=run(S2,['-S','-o-'],f)
        if isinstance(a[0],int) and a[0]<0 or isinstance(b[0],int) and b[0]<0: c['signal']+=1; continue
        if a==b: c['same:%s'%a[0]]+=1
        else: c['DIFF']+=1; diffs.append((src,a[0],b[0],a[2][-200:],b[2][-200:]))
    subprocess.run(['rm','-rf',d]); return c,diffs
if __name__=='__main__':
    with multiprocessing.Pool(16) as p: out=p.map(work,range(16))
    tot=collections.Counter(); diffs=[]
    for c,d in out: tot.update(c); diffs+=d
    print(tot)
    for s,a,b,ea,eb in sorted(diffs,key=lambda x:len(x[0]))[:3]: print(a,b,ea,eb)
