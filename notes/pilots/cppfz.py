import random, subprocess, sys, collections, multiprocessing, tempfile, re, os
C='/tmp/scratch/cc/chibicc'
PPTOK=re.compile(r'''(?:u8|u|U|L)?"(?:\\.|[^"\\\n])*"|(?:u|U|L)?'(?:\\.|[^'\\\n])*'|[A-Za-z_]\w*|\.?\d(?:[eEpP][+-]|[\w.])*|<<=|>>=|\.\.\.|->|\+\+|--|<<|>>|<=|>=|==|!=|&&|\|\||[-+*/%&|^]=|##|\S''')
def lex(s): return PPTOK.findall(s)
IDS=['a','b','c','x','y','z']
MAC=['F','G','H','OBJ','P','Q','V']
ATOMS=['1','2','+','-','*','(',')',',','"s"','a','b','x','.5','e','->','<','>>','=']
def gen_body(rng,params,macs,va):
    n=rng.randint(0,7); out=[]
    for i in range(n):
        r=rng.random()
        if params and r<0.35:
            p=rng.choice(params); out.append(p)
        elif params and r<0.45:
            out.append('#'+rng.choice(params))
        elif r<0.6 and macs:
            m=rng.choice(macs); out.append(m)
            if rng.random()<0.6: out.append('('+','.join(rng.choice(ATOMS[:2]+IDS+(params or ['1'])) for _ in range(rng.randint(0,3)))+')')
        elif r<0.7 and out and i<n-1:
            out.append('##')
        else:
            out.append(rng.choice(ATOMS))
    # cleanup: ## not at start/end
    while out and out[0]=='##': out.pop(0)
    while out and out[-1]=='##': out.pop()
    if va and rng.random()<0.6: out.append(rng.choice(['__VA_ARGS__','#__VA_ARGS__',', ## __VA_ARGS__']))
    sep=lambda: rng.choice([' ',' ',' ','','  '])
    s=''
    for t in out: s+=t+sep()
    return s.strip()
def gen(rng):
    lines=[]; macs=[]
    for k in range(rng.randint(1,5)):
        name=rng.choice(MAC)
        if rng.random()<0.35:
            lines.append(f'#define {name} {gen_body(rng,[],macs+[name],False)}')
        else:
            np=rng.randint(0,3); params=rng.sample(IDS,np); va=rng.random()<0.25
            plist=','.join(params+(['...'] if va else []))
            lines.append(f'#define {name}({plist}) {gen_body(rng,params+([] ),macs+[name],va)}')
        if name not in macs: macs.append(name)
        if rng.random()<0.1: lines.append(f'#undef {rng.choice(macs)}')
    for k in range(rng.randint(1,4)):
        m=rng.choice(macs)
        def arg(d):
            r=rng.random()
            if r<0.15: return ''
            if r<0.4 and d>0: 
                mm=rng.choice(macs); return mm+'('+','.join(arg(d-1) for _ in range(rng.randint(0,3)))+')'
            if r<0.5: return '('+arg(d-1)+','+arg(d-1)+')' if d>0 else 'a'
            return ' '.join(rng.choice(ATOMS[:6]+IDS+ATOMS[8:]+macs) for _ in range(rng.randint(1,3)))
        inv=m
        if rng.random()<0.85: 
            args=','.join(arg(2) for _ in range(rng.randint(0,4)))
            nl=rng.random()<0.15
            inv=m+('\n' if nl else rng.choice(['',' ']))+'('+args.replace(',', ',\n' if nl else ',')+')'
        lines.append(f'[ {inv} ] {rng.choice(ATOMS)} {rng.choice(macs+IDS)}')
    return '\n'.join(lines)+'\n'
def balanced(s):
    d=0
    for ch in s:
        if ch=='(':d+=1
        elif ch==')':
            d-=1
            if d<0: return False
    return d==0
def run(seed):
    rng=random.Random(seed); res=collections.Counter(); bad=[]
    d=tempfile.mkdtemp(prefix='cp')
    for k in range(150):
        src=gen(rng); f=f'{d}/t.c'; open(f,'w').write(src)
        g=subprocess.run(['gcc','-E','-P','-std=gnu11','-w',f],capture_output=True,text=True)
        c=subprocess.run(['clang','-E','-P','-std=gnu11','-w',f],capture_output=True,text=True)
        if g.returncode!=0 or c.returncode!=0: res['ref-reject']+=1; 
        gt=lex(g.stdout); ct=lex(c.stdout)
        x=subprocess.run([C,'-E',f],capture_output=True,text=True,timeout=10)
        if g.returncode!=0 or c.returncode!=0:
            if x.returncode==0 and g.returncode!=0 and c.returncode!=0: res['chi-accepts-invalid']+=1
            continue
        if gt!=ct: res['ref-disagree']+=1; continue
        if x.returncode!=0:
            res['chi-reject-valid']+=1; bad.append(('REJ',src,x.stderr.strip().split('\n')[-1])); continue
        xt=lex(x.stdout)
        if xt==gt: res['ok']+=1
        elif ''.join(xt)==''.join(gt): res['spacing-only(C19)']+=1
        else: res['MISMATCH']+=1; bad.append(('MIS',src,' '.join(xt)+'   VS   '+' '.join(gt)))
    subprocess.run(['rm','-rf',d])
    return res,bad
if __name__=='__main__':
    n=int(sys.argv[1])
    with multiprocessing.Pool(16) as p: out=p.map(run,range(n))
    tot=collections.Counter(); bad=[]
    for r,b in out: tot.update(r); bad+=b
    print(tot)
    bad.sort(key=lambda b:len(b[1]))
    seen=collections.Counter()
    for k,src,info in bad[:int(sys.argv[2])]:
        print('-----',k); print(src,end=''); print('  =>',info)
