import subprocess, glob, os, sys, collections, multiprocessing, random
S1='/tmp/scratch/s12/s1'; S2='/tmp/scratch/s12/s2'
def run(stage,args,inp):
    try:
        p=subprocess.run(['./chibicc']+args+[inp],cwd=stage,capture_output=True,timeout=20)
        return p.returncode,p.stdout,p.stderr
    except subprocess.TimeoutExpired: return 'timeout',b'',b''
def one(job):
    args,inp=job
    a=run(S1,args,inp); b=run(S2,args,inp)
    return (args,inp,a==b,a[0],b[0])
if __name__=='__main__':
    inputs=sorted(glob.glob('/repo/test/*.c'))+sorted(glob.glob('/repo/*.c'))+sorted(glob.glob('/tmp/scratch/fz/crash/*.c'))[:150]+glob.glob('/tmp/scratch/proto/*.c')+glob.glob('/tmp/scratch/*.c')
    opts=[['-S','-o-','-I/repo/test'],['-E','-I/repo/test'],['-S','-o-','-fPIC','-fno-common','-I/repo/test'],['-M','-I/repo/test']]
    jobs=[(o,i) for i in inputs for o in opts]
    with multiprocessing.Pool(16) as p: res=p.map(one,jobs)
    c=collections.Counter((r[2],str(r[3]),str(r[4])) for r in res); print(len(jobs),c)
    for r in res:
        if not r[2]: print('DIFF',r[0],r[1],r[3],r[4])
