#include <stdatomic.h>
struct R { int pad; _Atomic int cnt; };
void op_plain(void *p) { *(_Atomic int *)p += 3; }
void op_member(void *p) { ((struct R *)p)->cnt += 3; }
void op_xor(void *p) { *(_Atomic short *)p ^= 0x11; }
