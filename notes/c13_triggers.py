# Draft corpus for C13: one minimal invalid program per front-end diagnostic site of the
# pinned tree (message text -> trigger).  Run as a script to see which triggers reach their
# site with the compiler given in $CHI (default: scratch build of the pinned tree).
# Not part of the framework; to be moved to /verif/corpus/c13/ when the check is built.
import subprocess, os, sys, tempfile
CHI = os.environ.get('CHI', '/tmp/scratch/s12/s1/chibicc')

T = [
 # ---- tokenize.c / unicode.c
 ("invalid hex escape sequence", 'char *s = "\\xg";\n'),
 ("unclosed string literal", 'char *s = "abc;\n'),
 ("unclosed char literal", "int c = 'a;\n"),
 ("unclosed char literal", "int c = '"),
 ("invalid numeric constant", 'int x = 1.2.3;\n'),
 ("unclosed block comment", 'int x; /* never closed\n'),
 ("invalid token", 'int x = 1 \x01 2;\n'),
 ("invalid UTF-8 sequence", b'int \xc3(;\n'),
 ("invalid UTF-8 sequence", b'int x\xff;\n'),
 ("expected ','", 'int x\nint y;\n'),
 # ---- preprocess.c
 ("macro name must be an identifier", '#if defined 3\n#endif\n'),
 ("no expression", '#if\n#endif\n'),
 ("extra token", '#if 1 2\n#endif\n'),
 ("expected an identifier", '#define F(1) x\n'),
 ("macro name must be an identifier", '#define 3 x\n'),
 ("premature end of input", '#define F(x) x\nF(1\n'),
 # preprocess.c "too many arguments" (read_macro_args): `pp` is always NULL after the loop - unreachable
 ("expected ','", '#define F(x,y) x\nF(1)\n'),
 ("pasting forms", '#define C(a,b) a##b\nC(+,/)\n'),
 ("'#' is not followed by a macro parameter", '#define F(x) #y\nF(1)\n'),
 ("'##' cannot appear at start of macro expansion", '#define F(x) ## x\nF(1)\n'),
 ("'##' cannot appear at end of macro expansion", '#define F(x) x ##\nF(1)\n'),
 ("expected '>'", '#include <stdio.h\n'),
 ("expected a filename", '#include 3\n'),
 ("cannot open file", '#include "no_such_file_xyz.h"\n'),
 ("invalid line marker", '#line foo\n'),
 ("filename expected", '#line 3 4\n'),
 ("macro name must be an identifier", '#undef 3\n'),
 ("stray #elif", '#elif 1\n'),
 ("stray #else", '#else\n'),
 ("stray #endif", '#endif\n'),
 ("error", '#error stop here\n'),
 ("invalid preprocessor directive", '#frobnicate\n'),
 ("unsupported non-standard concatenation of string literals", 'void *p = u"a" U"b";\n'),
 ("unterminated conditional directive", '#if 1\nint x;\n'),
 # ---- parse.c
 ("expected an identifier", 'int f(void) { goto 3; }\n'),
 ("storage class specifier is not allowed in this context", 'int f(static int x);\n'),
 ("typedef may not be used together with static", 'typedef static extern int T;\n'),
 ("_Alignas is not allowed in this context", 'int x = sizeof(_Alignas(8) int);\n'),
 ("invalid type", 'char int x;\n'),
 ("unknown enum type", 'enum E x;\n'),
 ("not an enum tag", 'struct S { int a; }; enum S x;\n'),
 ("variable declared void", 'void f(void) { void x; }\n'),
 ("variable name omitted", 'void f(void) { int *; }\n'),
 ("variable-sized object may not be initialized", 'void f(int n) { int a[n] = {0}; }\n'),
 ("variable has incomplete type", 'void f(void) { struct U u; }\n'),
 ("array designator index exceeds array bounds", 'int a[2] = { [2] = 1 };\n'),
 ("array designator index exceeds array bounds", 'int a[4] = { [1 ... 4] = 1 };\n'),
 ("array designator range", 'int a[4] = { [2 ... 1] = 1 };\n'),
 ("expected a field designator", 'struct { int a; } s = { . 3 = 1 };\n'),
 ("struct has no such member", 'struct { int a; } s = { .b = 1 };\n'),
 ("array index in non-array initializer", 'struct { struct { int a; } in; } s = { .in[0] = 1 };\n'),
 ("field name not in struct or union initializer", 'int a[2][2] = { [0].x = 1 };\n'),
 ("expected string literal", 'void f(void) { asm(3); }\n'),
 ("stray case", 'void f(void) { case 1: ; }\n'),
 ("empty case range specified", 'void f(int x) { switch (x) { case 3 ... 1: ; } }\n'),
 ("stray default", 'void f(void) { default: ; }\n'),
 ("stray break", 'void f(void) { break; }\n'),
 ("stray continue", 'void f(void) { continue; }\n'),
 ("not a compile-time constant", 'int g; int a[3] = { [g] = 1 };\n'),
 ("invalid initializer", 'struct { int a; } s; int *p = (int *)s.a;\n'),
 ("not a compile-time constant", 'void f(void) { int l; static int *p = &l; }\n'),
 ("invalid initializer", 'int g; int h = g;\n'),
 ("not a compile-time constant", 'int f(void); int x = f();\n'),
 ("not a compile-time constant", 'int g; double d = 1.0 + (double)g;\n'),
 ("invalid operands", 'int *p, *q; long f(void) { return (long)(p + q); }\n'),
 ("invalid operands", 'int *p; long f(void) { return (long)(1 - p); }\n'),
 ("cannot take address of bitfield", 'struct { int a : 3; } s; void *f(void) { return &s.a; }\n'),
 ("unknown attribute", 'struct __attribute__((weird)) S { int a; };\n'),
 ("not a struct nor a union", 'int x; int f(void) { return x.a; }\n'),
 ("no such member", 'struct { int a; } s; int f(void) { return s.b; }\n'),
 ("not a function", 'int x; int f(void) { return x(); }\n'),
 ("too many arguments", 'int g(int a); int f(void) { return g(1, 2); }\n'),
 ("too few arguments", 'int g(int a, int b); int f(void) { return g(1); }\n'),
 ("controlling expression type not compatible", 'int f(void) { return _Generic(1.0f, int: 1, long: 2); }\n'),
 ("implicit declaration of a function", 'int f(void) { return undeclared_fn(1); }\n'),
 ("undefined variable", 'int f(void) { return undeclared_var; }\n'),
 ("expected an expression", 'int f(void) { return ; + ; }\n'),
 ("typedef name omitted", 'typedef int *;\n'),
 ("parameter name omitted", 'int f(int) { return 0; }\n'),
 ("use of undeclared label", 'void f(void) { goto nowhere; }\n'),
 ("function name omitted", 'int ()(void) { return 0; }\n'),
 # "redeclared as a different kind of symbol": find_func() only returns functions - unreachable
 ("redefinition of", 'int f(void) { return 0; } int f(void) { return 1; }\n'),
 ("static declaration follows a non-static declaration", 'int f(void); static int f(void) { return 0; }\n'),
 ("variable name omitted", 'int *;\n'),
 # ---- type.c
 ("not an lvalue", 'int a[2], b[2]; void f(void) { a = b; }\n'),
 ("invalid pointer dereference", 'int x; int f(void) { return *x; }\n'),
 ("dereferencing a void pointer", 'void *p; void f(void) { *p; }\n'),
 ("statement expression returning void is not supported", 'int f(void) { return ({ ; }); }\n'),
 ("pointer expected", 'int x, y; int f(void) { return __builtin_compare_and_swap(x, &y, 1); }\n'),
 ("pointer expected", 'int x, y; int f(void) { return __builtin_compare_and_swap(&x, y, 1); }\n'),
 ("pointer expected", 'int x; int f(void) { return __builtin_atomic_exchange(x, 1); }\n'),
 # ---- codegen.c
 ("not an lvalue", 'int f(void) { return &1 != 0; }\n'),
 ("not an lvalue", 'void f(void) { 1 = 2; }\n'),
 ("invalid expression", 'double d; double f(void) { return d % 2.0; }\n'),
 ("invalid expression", 'long double d; long double f(void) { return d % 2.0L; }\n'),
 ("invalid expression", 'double d; double f(void) { return d << 2; }\n'),
 ("invalid statement", ''),
]

if __name__ == '__main__':
    d = tempfile.mkdtemp(prefix='c13t'); ok = miss = crash = 0
    for msg, src in T:
        if not src: continue
        f = f'{d}/t.c'; open(f, 'wb').write(src if isinstance(src, bytes) else src.encode())
        p = subprocess.run(['timeout', '10', CHI, '-cc1', '-cc1-input', f, '-cc1-output', '/dev/null', f], capture_output=True)
        err = p.stderr.decode('latin1')
        if p.returncode not in (0, 1): crash += 1; print('CRASH', p.returncode, repr(msg), repr(src)[:70])
        elif msg in err: ok += 1
        else: miss += 1; print('MISS', p.returncode, repr(msg), repr(src)[:70], '->', err.strip().split('\n')[-1][-60:])
    print(f'{ok} reach their site, {miss} miss, {crash} crash, of {len([1 for m,s in T if s])}')
    subprocess.run(['rm', '-rf', d])
