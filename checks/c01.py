"""C01 Integer expressions have the C11 value and the C11 type.

Generator: typed integer expression trees (vlib/igen.py) placed in the contexts the property
lists.  Oracle: the integer model's prediction, cross-checked by gcc and clang (consensus)."""
import itertools, os
from vlib import core, diffprog, igen
from vlib.igen import TYPES, INT, UINT, LONG, ULONG, BOOL, conv, promote, common, lit


def ux(v):
    return '%x' % conv(v, ULONG)


CONTEXTS = ['value+type', 'initializer', 'arg+return', 'condition', 'assignment', 'return-expr', 'index']


class C01:
    id = 'C01'
    level = 'exploration'
    rule = ('cases = typed integer expression trees (depth<=D) over volatile objects, cast literals, enumeration constants and '
            'pointers into arrays, placed in one of 7 contexts (value+sizeof+sign probe, initializer, argument/return, condition, '
            'assignment, return expression, array index); expected value/type from the integer model and checked against gcc and clang. '
            'non-trivial = the tree contains an operator whose operand types differ, a value-changing conversion, a shift, a '
            'side effect or a boundary operand; distinct = by (set of operator/type-pair features, context).')
    assumptions = ['gcc 12 and clang 14 at -O0 implement C11 integer semantics; a case counts only when both agree with each other and with the model',
                   'implementation-defined behaviour pinned to the references: arithmetic >> on negative values, modulo narrowing conversions, char is signed',
                   ]
    excl = {}

    def budget(self, tier):
        return 1400 if tier == 'quick' else 16000

    def gen_case(self, ch, depth):
        g = igen.Gen(ch, excl=self.excl)
        c = ch.int(0, len(CONTEXTS) - 1)
        e = g.expr(ch.int(1, depth))
        decls = ''
        lines = []
        exp = []
        if c == 0:
            lines.append('printf("@ %%lx %%d %%d\\n", (unsigned long)(%s), (int)sizeof(%s), (int)((__typeof__(%s))-1 < 0));' % (e.txt, e.txt, e.txt))
            exp.append('%s %d %d' % (ux(e.v), e.t.size, int(e.t.signed)))
        elif c == 1:
            t = ch.choice(TYPES)
            st = ch.choice(['', 'static ', 'volatile '])
            lines.append('{ %s%s x = %s; printf("@ %%lx\\n", (unsigned long)x); }' % ('' if st == 'static ' else st, t.name, e.txt))
            exp.append(ux(conv(e.v, t)))
            g.feat.add('init:%s<%s' % (t.short, e.t.short))
        elif c == 2:
            p = ch.choice(TYPES); r = ch.choice(TYPES)
            decls = 'static %s @f(%s p) { return p; }\n' % (r.name, p.name)
            lines.append('printf("@ %%lx %%d %%d\\n", (unsigned long)@f(%s), (int)sizeof(@f(%s)), (int)((__typeof__(@f(%s)))-1 < 0));' % (e.txt, e.txt, e.txt))
            v = conv(conv(e.v, p), r)
            exp.append('%s %d %d' % (ux(v), r.size, int(r.signed)))
            g.feat.add('call:%s>%s>%s' % (e.t.short, p.short, r.short))
        elif c == 3:
            form = ch.int(0, 5)
            tv = int(e.v != 0)
            if form == 0:
                lines.append('if (%s) printf("@ 1\\n"); else printf("@ 0\\n");' % e.txt)
            elif form == 1:
                lines.append('{ int n = 0; while (%s) { n++; break; } printf("@ %%d\\n", n); }' % e.txt)
            elif form == 2:
                lines.append('{ int n = 0; for (; %s; ) { n++; break; } printf("@ %%d\\n", n); }' % e.txt)
            elif form == 3:
                lines.append('printf("@ %%d\\n", (%s) ? 1 : 0);' % e.txt)
            elif form == 4:
                lines.append('printf("@ %%d\\n", (%s) && 1);' % e.txt)
            else:
                lines.append('{ int n = 0; do { n++; if (n > 1) break; } while (%s); printf("@ %%d\\n", n - 1); }' % e.txt)
            exp.append(str(tv))
            g.feat.add('cond%d:%s' % (form, e.t.short))
        elif c == 4:
            t = ch.choice(TYPES)
            lines.append('{ %s x; x = %s; printf("@ %%lx\\n", (unsigned long)x); }' % (t.name, e.txt))
            exp.append(ux(conv(e.v, t)))
            g.feat.add('asg:%s<%s' % (t.short, e.t.short))
        elif c == 5:
            r = ch.choice(TYPES)
            # the whole expression lives in the callee; objects become file-scope there
            lines.append('printf("@ %lx\\n", (unsigned long)@g());')
            exp.append(ux(conv(e.v, r)))
            g.feat.add('ret:%s<%s' % (r.short, e.t.short))
            decls = 'static %s @g(void) {\n%s  return %s;\n}\n' % (r.name, g.decls_local(), e.txt)
        else:
            # the expression (reduced to a small range) indexes an array: scaling of every index type
            et = ch.choice([igen.CHAR, igen.SHORT, INT, LONG, igen.UCHAR, UINT])
            lines.append('{ static %s arr[8] = {11,22,33,44,55,66,77,88}; printf("@ %%d\\n", (int)arr[(%s) & 7]); }' % (et.name, e.txt))
            ct = common(e.t, INT)
            exp.append(str([11, 22, 33, 44, 55, 66, 77, 88][conv(e.v, ct) & 7]))
            g.feat.add('idx:%s' % e.t.short)
        body = ''
        if c != 5:
            body += g.decls_local()
        body += '\n'.join('  ' + l for l in lines) + '\n'
        if c == 5:
            # mods live inside the callee; their stored values are not observable from here
            pass
        else:
            for n, t, v0, fin in g.mods:
                body += '  printf("@ m %%lx\\n", (unsigned long)%s);\n' % n
                exp.append('m ' + ux(fin))
        nt = (tuple(sorted(g.feat)), c) if (g.nt or c != 0) else None
        tags = ['ctx:' + CONTEXTS[c]] + sorted(g.feat)
        return diffprog.Case(decls=decls, body=body, expect=exp, nt=nt, tags=tags)

    def example(self, ch, ctx):
        depth = 4 if ctx.quick else 5
        cases = []
        while ch.more(len(cases), 1, 40):
            cases.append(self.gen_case(ch, depth))
        fails = diffprog.judge(ctx, cases)
        if fails:
            raise diffprog.violation_from(cases, fails[0])

    def replay(self, tree, rep, wd):
        if rep.get('kind') == 'sweep':
            return sweep_replay(tree, rep, wd)
        return diffprog.replay(tree, rep, wd)

    # ---- exhaustive operator x type-pair x boundary-value sweep
    def extra(self, tree, tier, stats, top):
        return sweep(tree, tier, stats, top)


BINOPS = ['+', '-', '*', '/', '%', '&', '|', '^', '<<', '>>', '<', '<=', '>', '>=', '==', '!=', '&&', '||']
UNOPS = ['-', '~', '!', '+']


def sweep_values(t, tier):
    if tier == 'quick':
        vs = [0, 1, -1, t.max(), t.min(), 2, t.max() >> 1, 0x80, 0xffff, 0x80000000, 0xffffffff]
    else:
        vs = igen.bound_values(t)
    out = []
    for v in vs:
        v = conv(v, t)
        if v not in out:
            out.append(v)
    return out


def model_bin(op, ta, va, tb, vb):
    """Expected (type, value) or None if C11 leaves the operation undefined."""
    if op in ('<<', '>>'):
        pt = promote(ta); x = conv(va, pt); cnt = conv(vb, promote(tb))
        if not (0 <= cnt < pt.bits):
            return None
        if op == '<<':
            if pt.signed and (x < 0 or (x << cnt) > pt.max()):
                return None
            return pt, conv(x << cnt, pt)
        return pt, conv(x >> cnt, pt)
    if op in ('&&', '||'):
        return INT, int((va != 0 and vb != 0) if op == '&&' else (va != 0 or vb != 0))
    ct = common(ta, tb); x, y = conv(va, ct), conv(vb, ct)
    if op in ('<', '<=', '>', '>=', '==', '!='):
        return INT, int({'<': x < y, '<=': x <= y, '>': x > y, '>=': x >= y, '==': x == y, '!=': x != y}[op])
    if op in '/%':
        if y == 0 or (ct.signed and x == ct.min() and y == -1):
            return None
        q = igen.cdiv(x, y)
        return ct, conv(q if op == '/' else x - q * y, ct)
    res = {'+': x + y, '-': x - y, '*': x * y, '&': x & y, '|': x | y, '^': x ^ y}[op]
    if ct.signed and not (ct.min() <= res <= ct.max()):
        return None
    return ct, conv(res, ct)


def sweep_unit(ta, tb, ops, tier):
    """One translation unit: every op in ops x every boundary value pair for the type pair (ta,tb).
    Returns (source, expected lines, n_cases)."""
    va_s = sweep_values(ta, tier); vb_s = sweep_values(tb, tier)
    src = [diffprog.PRELUDE, 'volatile %s A[%d] = {%s};\n' % (ta.name, len(va_s), ','.join(lit(ta, v) for v in va_s)),
           'volatile %s B[%d] = {%s};\n' % (tb.name, len(vb_s), ','.join(lit(tb, v) for v in vb_s))]
    exp = []
    body = []
    n = 0
    for oi, op in enumerate(ops):
        for i, va in enumerate(va_s):
            for j, vb in enumerate(vb_s):
                m = model_bin(op, ta, va, tb, vb)
                if m is None:
                    continue
                t, v = m
                e = '(A[%d] %s B[%d])' % (i, op, j)
                body.append(' printf("%d %d %d %%lx %%d %%d\\n", (unsigned long)%s, (int)sizeof%s, (int)((__typeof__%s)-1 < 0));\n' % (oi, i, j, e, e, e))
                exp.append('%d %d %d %s %d %d' % (oi, i, j, ux(v), t.size, int(t.signed)))
                n += 1
    # compound assignment forms for the same pairs
    for oi, op in enumerate(ops):
        if op in ('<', '<=', '>', '>=', '==', '!=', '&&', '||'):
            continue
        for i, va in enumerate(va_s):
            for j, vb in enumerate(vb_s):
                m = model_bin(op, ta, va, tb, vb)
                if m is None:
                    continue
                t, v = m
                body.append(' { %s x = A[%d]; %s r = (x %s= B[%d]); printf("a%d %d %d %%lx %%lx\\n", (unsigned long)x, (unsigned long)r); }\n' % (ta.name, i, ta.name, op, j, oi, i, j))
                fin = conv(v, ta)
                exp.append('a%d %d %d %s %s' % (oi, i, j, ux(fin), ux(fin)))
                n += 1
    src.append('int main(void){\n' + ''.join(body) + ' return 0;\n}\n')
    return ''.join(src), exp, n


def _sweep_job(args):
    tree_dir, tier, pairs, wd = args
    tree = core.Tree(tree_dir)
    res = []
    for (ia, ib) in pairs:
        ta, tb = TYPES[ia], TYPES[ib]
        for ops in (BINOPS[:8], BINOPS[8:]):
            src, exp, n = sweep_unit(ta, tb, ops, tier)
            d = os.path.join(wd, 'sw_%d_%d_%s' % (ia, ib, 'a' if ops is BINOPS[:8] else str(len(ops))))
            os.makedirs(d, exist_ok=True)
            bad, det, stat = sweep_run(tree, src, exp, d)
            res.append((ta.short, tb.short, n, bad, det, stat, src if bad else None, ops))
            import shutil
            shutil.rmtree(d, ignore_errors=True)
    return res


def sweep_run(tree, src, exp, d):
    p = os.path.join(d, 's.c')
    open(p, 'w').write(src)
    outs = {}
    for comp in ('gcc', 'chibicc'):
        exe = os.path.join(d, comp + '.exe')
        r = diffprog.compile_with(tree, comp, p, exe)
        if r.rc != 0 or r.timeout:
            outs[comp] = ['COMPILE-FAIL ' + (r.err or r.out)[:300]]
            continue
        rr = core.run([exe], timeout=60)
        outs[comp] = rr.out.split('\n')[:-1] if rr.rc == 0 and not rr.timeout else ['RUN-FAIL rc=%s' % rr.rc]
    if outs['gcc'] != exp:
        return False, 'model != gcc', 'model_disagree'
    if outs['chibicc'] != exp:
        diffs = [(e, o) for e, o in itertools.zip_longest(exp, outs['chibicc']) if e != o][:5]
        return True, 'first differing lines (expected, observed): %r' % diffs, 'ok'
    return False, '', 'ok'


def sweep(tree, tier, stats, top):
    import multiprocessing as mp
    pairs = [(i, j) for i in range(len(TYPES)) for j in range(len(TYPES))]
    chunks = [pairs[k::core.NPROC] for k in range(core.NPROC)]
    wd = os.path.join(top, 'sweep'); os.makedirs(wd, exist_ok=True)
    with mp.get_context('fork').Pool(core.NPROC) as pool:
        res = pool.map(_sweep_job, [(tree.dir, tier, c, wd) for c in chunks])
    viols = []
    for chunk in res:
        for ta, tb, n, bad, det, stat, src, ops in chunk:
            if stat == 'model_disagree':
                stats.count('sweep_model_disagree')
                continue
            stats.evaluations += n
            stats.count('sweep_cases', n)
            stats.nt.add(core.shash('sweep %s %s %s' % (ta, tb, ops)))
            if bad and len(viols) < 3:
                viols.append(({'kind': 'sweep', 'source': src, 'signature': 'sweep-%s-%s' % (ta, tb)},
                              'operator sweep %s x %s: %s' % (ta, tb, det)))
    return viols


def sweep_replay(tree, rep, wd):
    src = rep['source']
    p = os.path.join(wd, 's.c'); open(p, 'w').write(src)
    outs = {}
    for comp in ('gcc', 'clang', 'chibicc'):
        exe = os.path.join(wd, comp + '.exe')
        r = diffprog.compile_with(tree, comp, p, exe)
        if r.rc != 0:
            outs[comp] = 'COMPILE-FAIL'
            continue
        outs[comp] = core.run([exe], timeout=60).out
    if outs['gcc'] != outs['clang']:
        return False, 'references disagree'
    if outs['chibicc'] != outs['gcc']:
        a = outs['gcc'].split('\n'); b = outs['chibicc'].split('\n')
        return True, 'differing lines: %r' % [(x, y) for x, y in itertools.zip_longest(a, b) if x != y][:5]
    return False, 'agree'


CHECK = C01()
