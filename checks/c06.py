"""C06 Calls obey the System V x86-64 calling convention.

Generator: function signatures (0-12 parameters from the integer types, pointers, float, double, long double and
by-value struct/union types drawn to hit the eightbyte classes; explicit filler parameters that exhaust 0..7 GP and
0..9 SSE registers before the interesting ones; any return type; fixed or variadic with a va_arg walk).
Oracle: every signature is built as caller/callee pairs (gcc,gcc) = reference [cross-checked by (clang,gcc)],
(chibicc,gcc), (gcc,chibicc), (chibicc,chibicc); the callee logs every parameter leaf by leaf and returns a pattern,
the caller logs the returned leaves; all logs must equal the reference log.  The callee also reports the alignment of
a 16-byte aligned local (stack alignment at the call) and a gcc-assembled trampoline checks rbx, rbp, r12-r15."""
import os, shutil
from vlib import core, tgen, igen

HDR = ('int printf(const char*,...);\nvoid *memset(void*,int,unsigned long);\nenum ENEG { EN_LO = -1000000, EN_HI = 1000000 };\n'
       '#define LOG(...) printf(__VA_ARGS__)\n')

MAIN = r'''
int printf(const char*,...);
int atoi(const char*);
int fflush(void*);
extern void (*calls[])(void);
extern int ncalls;
extern int ids[];
/* call fn with canaries in the callee-saved registers and verify them afterwards */
static int check_call(void (*fn)(void)) {
  unsigned long bad = 0;
  __asm__ volatile(
    "mov %1, %%rax\n"
    "push %%rbx\n push %%r12\n push %%r13\n push %%r14\n push %%r15\n push %%rbp\n"
    "mov $0x1111111111111111, %%rbx\n mov $0x2222222222222222, %%r12\n mov $0x3333333333333333, %%r13\n"
    "mov $0x4444444444444444, %%r14\n mov $0x5555555555555555, %%r15\n mov %%rsp, %%rbp\n"
    "sub $8, %%rsp\n"           /* keep 16-byte alignment: 6 pushes = 48 bytes */
    "call *%%rax\n"
    "add $8, %%rsp\n"
    "xor %0, %0\n"
    "mov $0x1111111111111111, %%rax\n cmp %%rax, %%rbx\n je 1f\n or $1, %0\n1:\n"
    "mov $0x2222222222222222, %%rax\n cmp %%rax, %%r12\n je 2f\n or $2, %0\n2:\n"
    "mov $0x3333333333333333, %%rax\n cmp %%rax, %%r13\n je 3f\n or $4, %0\n3:\n"
    "mov $0x4444444444444444, %%rax\n cmp %%rax, %%r14\n je 4f\n or $8, %0\n4:\n"
    "mov $0x5555555555555555, %%rax\n cmp %%rax, %%r15\n je 5f\n or $16, %0\n5:\n"
    "cmp %%rsp, %%rbp\n je 6f\n or $32, %0\n6:\n"
    "mov %%rbp, %%rsp\n"
    "pop %%rbp\n pop %%r15\n pop %%r14\n pop %%r13\n pop %%r12\n pop %%rbx\n"
    : "=&d"(bad) : "r"(fn) : "rax", "rcx", "rsi", "rdi", "r8", "r9", "r10", "r11", "memory", "cc",
      "xmm0","xmm1","xmm2","xmm3","xmm4","xmm5","xmm6","xmm7","xmm8","xmm9","xmm10","xmm11","xmm12","xmm13","xmm14","xmm15");
  return (int)bad;
}
int main(int argc, char **argv) {
  int only = argc > 1 ? atoi(argv[1]) : -1;
  for (int i = 0; i < ncalls; i++) {
    if (only >= 0 && ids[i] != only) continue;
    int bad = check_call(calls[i]);
    printf("%d callee-saved %d\n", ids[i], bad);
    fflush(0);
  }
  return 0;
}
'''

SCALARS = [('char', 'i'), ('unsigned char', 'i'), ('short', 'i'), ('unsigned short', 'i'), ('int', 'i'), ('unsigned', 'i'), ('long', 'i'),
           ('unsigned long', 'i'), ('_Bool', 'b'), ('float', 'f'), ('double', 'f'), ('long double', 'f'), ('char *', 'p'), ('enum ENEG', 'i')]
WIDTH = {'enum ENEG': 20, 'char': 7, 'unsigned char': 8, 'short': 15, 'unsigned short': 16, 'int': 31, 'unsigned': 32, 'long': 62, 'unsigned long': 62}


class P:
    """a parameter or return type: text of the type, its definition (if aggregate), leaves [(path, kind, cname, bf)]"""

    def __init__(self, tname, defn, leaves, cls):
        self.tname, self.defn, self.leaves, self.cls = tname, defn, leaves, cls


def leaf_value(kind, cname, bf, seed):
    if kind == 'b':
        return str(seed & 1), str(seed & 1)
    if kind == 'f':
        frac = {'float': 0.5, 'double': 0.25, 'long double': 0.125}[cname]
        v = (seed % 1000) + frac
        return ('%r' % v) + {'float': 'f', 'double': '', 'long double': 'L'}[cname], '%g' % v
    if kind == 'p':
        v = 0x10000 + seed * 8
        return '(char *)%dL' % v, str(v)
    w = bf if bf else WIDTH[cname]
    signed = not cname.startswith('unsigned')
    lim = (1 << (w - 1 if (signed and bf) else w)) if bf else (1 << w)
    v = (seed * 2654435761 + 12345) % max(2, lim)
    if signed and not bf and seed % 3 == 0:
        v = -v
    if signed and bf and bf > 1 and seed % 3 == 0:
        v = -(v % (1 << (bf - 1)))
    return '(%dL)' % v, str(v)


def print_leaf(kind, expr):
    if kind == 'f':
        return '%g', '(double)%s' % expr
    if kind == 'p':
        return '%ld', '(long)%s' % expr
    return '%ld', '(long)%s' % expr


class SigGen:
    def __init__(self, ch, k, excl):
        self.ch, self.k, self.excl = ch, k, excl
        self.defs = []
        self.feat = set()
        self.nagg = 0

    def scalar(self, allow_ld=True):
        ch = self.ch
        while True:
            cname, kind = ch.choice(SCALARS)
            if cname == 'long double' and not allow_ld:
                continue
            return P(cname, '', [('', kind, cname, None)], 'ld' if cname == 'long double' else ('sse' if kind == 'f' else 'int'))

    def aggregate(self):
        ch = self.ch
        self.nagg += 1
        tag = 'S%d_%d' % (self.k, self.nagg)
        special = ch.int(0, 11)
        if special == 0:
            # an over-aligned aggregate of class MEMORY: its stack slot is aligned to 16 (never more) by caller and callee alike
            al = ch.choice([16, 32])
            self.feat.add('agg:overaligned-memory')
            lv = [('.m0', 'i', 'long', None), ('.m1', 'i', 'long', None), ('.m2', 'f', 'double', None)]
            return P('struct %s' % tag, 'struct %s { _Alignas(%d) long m0; long m1; double m2; };' % (tag, al), lv, 'agg')
        if special == 2:
            # an aggregate whose second eightbyte is alignment padding only (class NO_CLASS)
            self.feat.add('agg:padding-eightbyte')
            mt, kind = ch.choice([('int', 'i'), ('float', 'f'), ('long', 'i'), ('double', 'f'), ('char', 'i')])
            return P('struct %s' % tag, 'struct %s { _Alignas(16) %s m0; };' % (tag, mt), [('.m0', kind, mt, None)], 'agg')
        if special == 3 and ch.bool():
            # an empty aggregate (GNU): nothing is passed and no room is left for it, whatever its alignment
            self.feat.add('agg:empty')
            al = ch.choice(['', '_Alignas(16) ', '_Alignas(8) '])
            return P('struct %s' % tag, 'struct %s { %sint z[0]; };' % (tag, al), [], 'agg')
        packed = special == 1
        if packed:
            self.feat.add('agg:packed')
        g = tgen.TGen(ch, allow_bf=(ch.int(0, 3) == 0) and not packed, allow_packed=packed, allow_aligned=False, allow_union=True, allow_ld=False,
                      allow_anon=True, max_fields=ch.choice([1, 2, 2, 3, 4, 5]), excl={}, force_packed=packed)
        self.excl['D17'] = self.excl.get('D17', 0) + 1       # long double members never drawn (recorded finding D17)
        a = g.agg(ch.int(0, 1), tag=tag)

        def drop_padding_fields(agg):
            # (D73, eightbytes that consist of padding only, was repaired.)  Unnamed bit-fields of non-zero width are left out: gcc
            # classifies them INTEGER, clang ignores them as the psABI says (chibicc follows the psABI), and the (clang, gcc) link-up
            # used as consensus does not always show the disagreement (a value may sit in %xmm0 and %eax at once at -O0)
            keep = []
            for f in agg.fields:
                if f.bf is None and isinstance(f.ty, tgen.Agg):
                    drop_padding_fields(f.ty)
                if f.bf is not None and not f.name and f.bf > 0:
                    self.excl['ref-disagree:unnamed-bit-field'] = self.excl.get('ref-disagree:unnamed-bit-field', 0) + 1
                    continue
                keep.append(f)
            if not any(f.name for f in keep):
                keep.append(tgen.Field('mz', tgen.Scalar('int', 4, 'int', igen.INT)))
            agg.fields = keep
        drop_padding_fields(a)
        # unions: only the first member is written and logged (the others overlap it)
        lvs = []
        for lf in tgen.leaves(a):
            if lf.unions and any(idx != 0 for (_, idx) in lf.unions):
                continue
            if lf.bf is not None:
                lvs.append(('.' + lf.path, 'b' if lf.bf_base[0] == '_Bool' else 'i', lf.bf_base[0], lf.bf))
            else:
                kind = {'int': 'i', 'fp': 'f', 'ptr': 'p'}[lf.ty.kind]
                if lf.ty.cname == '_Bool':
                    kind = 'b'
                lvs.append(('.' + lf.path, kind, lf.ty.cname, None))
        self.feat |= {'agg:' + f for f in g.feat}
        return P(a.ref(), a.definition(), lvs, 'agg')

    def param(self, allow_ld=True, allow_agg=True):
        ch = self.ch
        k = ch.int(0, 9)
        if k < 4 and allow_agg:
            return self.aggregate()
        return self.scalar(allow_ld)

    def build(self):
        ch, k = self.ch, self.k
        variadic = ch.int(0, 4) == 0
        params = []
        # fillers that exhaust registers
        ngp = ch.choice([0, 0, 1, 2, 3, 4, 5, 6, 7])
        nfp = ch.choice([0, 0, 0, 2, 5, 6, 7, 8, 9])
        fill = [P('long', '', [('', 'i', 'long', None)], 'int')] * ngp + [P('double', '', [('', 'f', 'double', None)], 'sse')] * nfp
        fill = ch.shuffle(fill)
        params += fill
        nint = ch.int(0 if fill else 1, 5)
        for _ in range(nint):
            params.append(self.param())
        ret = ch.choice(['void', 'scalar', 'scalar', 'agg'])
        R = None if ret == 'void' else (self.scalar() if ret == 'scalar' else self.aggregate())
        va = []
        if variadic:
            for _ in range(ch.int(1, 9)):
                t = ch.choice([('int', 'i'), ('long', 'i'), ('double', 'f'), ('char *', 'p'), ('unsigned', 'i'), ('double', 'f'), ('long double', 'f'), ('BIG', 'a')])
                va.append(t)
            self.feat.add('variadic')
        # ---- text
        defs = []
        seen = set()
        for p_ in params + ([R] if R else []):
            if p_.defn and p_.tname not in seen:
                seen.add(p_.tname); defs.append(p_.defn)
        big = 'struct BIG%d { long a; double b; char c[9]; }' % k
        if any(t[0] == 'BIG' for t in va):
            defs.append(big + ';')
        plist = []
        if variadic:
            plist.append('int n')
        for i, p_ in enumerate(params):
            plist.append('%s a%d' % (p_.tname, i))
        proto = '%s f%d(%s%s)' % (R.tname if R else 'void', k, ', '.join(plist) if plist else 'void', ', ...' if variadic else '')
        # callee
        cal = [proto + ' {']
        cal.append('  _Alignas(16) char probe[16]; probe[0] = 1; LOG("%d align %%d\\n", (int)((unsigned long)probe %% 16) + probe[0] - 1);' % k)
        seed = k * 100
        cargs = []
        caller = ['void call_%d(void) {' % k]
        for i, p_ in enumerate(params):
            if p_.cls == 'agg':
                caller.append('  %s a%d; memset(&a%d, 0, sizeof a%d);' % (p_.tname, i, i, i))
            else:
                caller.append('  %s a%d;' % (p_.tname, i))
            for (path, kind, cname, bf) in p_.leaves:
                seed += 1
                lit, shown = leaf_value(kind, cname, bf, seed)
                caller.append('  a%d%s = %s;' % (i, path, lit))
                fmt, ex = print_leaf(kind, 'a%d%s' % (i, path))
                cal.append('  LOG("%d p%d%s %s\\n", %s);' % (k, i, path, fmt, ex))
            cargs.append('a%d' % i)
        if variadic:
            cal.append('  va_list ap; va_start(ap, %s);' % ('a%d' % (len(params) - 1) if params else 'n'))
            for j, (t, kind) in enumerate(va):
                seed += 1
                if t == 'BIG':
                    caller.append('  struct BIG%d v%d = { %d, %d.5, "v%d" };' % (k, j, seed, seed, j))
                    cal.append('  { struct BIG%d b = va_arg(ap, struct BIG%d); LOG("%d va%d %%ld %%g %%s\\n", b.a, b.b, b.c); }' % (k, k, k, j))
                    cargs.append('v%d' % j)
                    self.feat.add('va:big-struct')
                    continue
                lit, shown = leaf_value(kind, t, None, seed)
                fmt, ex = print_leaf(kind, 'v')
                cal.append('  { %s v = va_arg(ap, %s); LOG("%d va%d %s\\n", %s); }' % (t, t, k, j, fmt, ex))
                cargs.append('(%s)%s' % (t, lit))
                if t == 'long double':
                    self.feat.add('va:long double')
            cal.append('  va_end(ap);')
        # return value
        if R:
            if R.cls == 'agg':
                cal.append('  %s r; memset(&r, 0, sizeof r);' % R.tname)
            else:
                cal.append('  %s r;' % R.tname)
            rlog = []
            for (path, kind, cname, bf) in R.leaves:
                seed += 1
                lit, shown = leaf_value(kind, cname, bf, seed)
                cal.append('  r%s = %s;' % (path, lit))
                fmt, ex = print_leaf(kind, 'r%s' % path)
                rlog.append('  LOG("%d r%s %s\\n", %s);' % (k, path, fmt, ex))
            cal.append('  return r;')
            call = 'f%d(%s)' % (k, ', '.join((['%d' % len(va)] if variadic else []) + cargs))
            ctx = ch.int(0, 3)
            if ctx == 0 or R.cls == 'agg':
                caller.append('  %s r = %s;' % (R.tname, call))
            elif ctx == 1:
                caller.append('  %s r; r = %s;' % (R.tname, call))
            elif ctx == 2:
                # the call is an argument of another call, evaluated with pending temporaries
                caller.append('  %s r = pick%d(7, %s, 9);' % (R.tname, k, call))
                defs.append('%s pick%d(int a, %s v, int b);' % (R.tname, k, R.tname))
                cal.insert(0, '%s pick%d(int a, %s v, int b) { LOG("%d pick %%d %%d\\n", a, b); return v; }' % (R.tname, k, R.tname, k))
                self.feat.add('call-as-argument')
            else:
                caller.append('  long t1 = 11, t2 = 22; %s r; long t = t1 + (t2 + ((r = %s), 33)); LOG("%d t %%ld\\n", t);' % (R.tname, call, k))
                self.feat.add('call-with-pending-temps')
            caller += rlog
        else:
            caller.append('  f%d(%s);' % (k, ', '.join((['%d' % len(va)] if variadic else []) + cargs)))
            caller.append('  LOG("%d returned\\n");' % k)
        cal.append('}')
        caller.append('}')
        # classification signature for distinctness
        sig = (tuple((p_.cls, len(p_.leaves), sum(1 for l in p_.leaves if l[1] == 'f')) for p_ in params), R.cls if R else 'void', variadic, ngp, nfp)
        big_mem = any(p_.cls in ('ld',) for p_ in params)
        nt = sig if (variadic or (R and R.cls == 'agg') or any(p_.cls == 'agg' for p_ in params) or ngp >= 6 or nfp >= 8 or big_mem) else None
        for p_ in params:
            self.feat.add('param:' + p_.cls)
        self.feat.add('ret:' + (R.cls if R else 'void'))
        if ngp >= 6:
            self.feat.add('gp-exhausted')
        if nfp >= 8:
            self.feat.add('sse-exhausted')
        # a declaration without a prototype first: the composite type must still take the parameter list that follows
        # (allowed when every parameter type is its own default promotion, C11 6.7.6.3p15)
        if (not variadic and params and ch.int(0, 5) == 0 and
                all(p_.cls == 'agg' or p_.tname in ('int', 'unsigned', 'long', 'unsigned long', 'double', 'long double', 'char *', 'enum ENEG') for p_ in params)):
            defs.append('%s f%d();' % (R.tname if R else 'void', k))
            self.feat.add('unprototyped-first-decl')
            # and the arguments need the conversions that only the prototype asks for
            conv = {'double': '(int)', 'long double': '(long)', 'long': '(double)', 'unsigned long': '(float)', 'int': '(double)'}
            newargs = [(conv.get(p_.tname, '') + a) if p_.cls != 'agg' else a for p_, a in zip(params, cargs)]
            old_call = 'f%d(%s)' % (k, ', '.join(cargs)); new_call = 'f%d(%s)' % (k, ', '.join(newargs))
            caller = [l.replace(old_call, new_call) for l in caller]
        return {'k': k, 'defs': '\n'.join(defs) + '\n' + proto + ';\n', 'callee': '\n'.join(cal) + '\n', 'caller': '\n'.join(caller) + '\n', 'nt': nt, 'feat': self.feat}


def units(sigs):
    hdr = HDR + '#include <stdarg.h>\n' + ''.join(s['defs'] for s in sigs)
    callee = hdr + ''.join(s['callee'] for s in sigs)
    caller = hdr + ''.join(s['caller'] for s in sigs)
    caller += 'void (*calls[])(void) = { %s };\nint ncalls = %d;\nint ids[] = { %s };\n' % (', '.join('call_%d' % s['k'] for s in sigs), len(sigs), ', '.join(str(s['k']) for s in sigs))
    return caller, callee


def cc(tree, comp, src, obj):
    if comp == 'chibicc':
        return core.run([tree.cc, '-c', '-o', obj, src], timeout=30)
    return core.run([comp, '-O0', '-w', '-std=gnu11', '-c', '-o', obj, src], timeout=60)


COMBOS = [('gcc', 'gcc'), ('clang', 'gcc'), ('chibicc', 'gcc'), ('gcc', 'chibicc'), ('chibicc', 'chibicc')]


def build_and_run(tree, sigs, d):
    """returns dict combo -> {k: [lines]} or {k: 'ERR ...'}"""
    caller, callee = units(sigs)
    open(os.path.join(d, 'caller.c'), 'w').write(caller)
    open(os.path.join(d, 'callee.c'), 'w').write(callee)
    open(os.path.join(d, 'main.c'), 'w').write(MAIN)
    objs = {}
    errs = {}
    r = cc(tree, 'gcc', os.path.join(d, 'main.c'), os.path.join(d, 'main.o'))
    for comp in ('gcc', 'clang', 'chibicc'):
        for unit in ('caller', 'callee'):
            if comp == 'clang' and unit == 'callee':
                continue
            o = os.path.join(d, '%s_%s.o' % (unit, comp))
            r = cc(tree, comp, os.path.join(d, unit + '.c'), o)
            if r.rc != 0 or r.timeout:
                errs[(unit, comp)] = 'COMPILE-FAIL %s %s: rc=%s %s' % (comp, unit, r.rc, (r.err or r.out).strip().split('\n')[-1][-200:])
            else:
                objs[(unit, comp)] = o
    out = {}
    for (a, b) in COMBOS:
        if ('caller', a) in errs or ('callee', b) in errs:
            e = errs.get(('caller', a)) or errs.get(('callee', b))
            out[(a, b)] = {s['k']: e for s in sigs}
            continue
        exe = os.path.join(d, 'x_%s_%s' % (a, b))
        r = core.run(['gcc', '-o', exe, os.path.join(d, 'main.o'), objs[('caller', a)], objs[('callee', b)]], timeout=60)
        if r.rc != 0:
            out[(a, b)] = {s['k']: 'LINK-FAIL ' + r.err[-200:] for s in sigs}
            continue
        rr = core.run([exe], timeout=20)
        res = {}
        if rr.rc == 0 and not rr.timeout:
            for l in rr.out.split('\n'):
                if ' ' in l and l.split(' ', 1)[0].isdigit():
                    kk, rest = l.split(' ', 1)
                    res.setdefault(int(kk), []).append(rest)
            out[(a, b)] = {s['k']: res.get(s['k'], []) for s in sigs}
        else:
            # run each signature in its own process
            res = {}
            for s in sigs:
                r1 = core.run([exe, str(s['k'])], timeout=10)
                if r1.rc != 0 or r1.timeout:
                    res[s['k']] = 'RUN-FAIL rc=%s%s' % (r1.rc, ' timeout' if r1.timeout else '')
                else:
                    res[s['k']] = [l.split(' ', 1)[1] for l in r1.out.split('\n') if l.startswith('%d ' % s['k'])]
            out[(a, b)] = res
    return out


class C06:
    id = 'C06'
    level = 'exploration'
    rule = ('cases = function signatures: 0..7 long and 0..9 double filler parameters (shuffled) exhausting GP/SSE registers, then 0..5 parameters from 13 scalar types and random '
            'struct/union types (1..5 members, nested, arrays, bit-fields, all eightbyte class mixes, sizes above and below 16 bytes, packed structs with unaligned members, over-aligned structs passed in memory) and an enumerated type with negative values, return type void/scalar/aggregate, fixed or '
            'variadic (va_arg walk over int/long/unsigned/double/long double/pointers/structs > 16 bytes), call placed as initializer, assignment, argument of another call or under '
            'pending temporaries. Each signature is linked as (gcc,gcc) reference [must equal (clang,gcc)], (chibicc,gcc), (gcc,chibicc), (chibicc,chibicc); callee logs every parameter '
            'leaf and its stack alignment, caller logs returned leaves, an assembly trampoline checks rbx/rbp/rsp/r12-r15. non-trivial = aggregate parameter or return, variadic, register '
            'exhaustion, or long double in memory; distinct by classification vector.')
    assumptions = ['gcc and clang implement the psABI; a signature counts only if (gcc,gcc) and (clang,gcc) logs agree',
                   'recorded findings excluded by construction: D17 (aggregates with long double members), D18 (va_arg of aggregates <= 16 bytes)']
    excl = {'D17': 0, 'D18': 0}

    def budget(self, tier):
        return 2200 if tier == 'quick' else 26000

    def example(self, ch, ctx):
        st = ctx.stats
        sigs = []
        base = ch.int(0, 900) * 100
        while ch.more(len(sigs), 1, 10):
            sigs.append(SigGen(ch, len(sigs) + 1, self.excl).build())
        d = ctx.fresh_dir()
        try:
            out = build_and_run(ctx.tree, sigs, d)
            bad_sig = None
            for s in sigs:
                k = s['k']
                ref = out[('gcc', 'gcc')][k]
                ref2 = out[('clang', 'gcc')][k]
                if isinstance(ref, str) or isinstance(ref2, str):
                    st.count('ref_reject')
                    if st.counters['ref_reject'] <= 3:
                        st.samples.append({'ref_reject': str(ref if isinstance(ref, str) else ref2)[:300], 'callee': s['callee'][:600]})
                    continue
                if ref != ref2:
                    st.count('ref_disagree')
                    continue
                for f in s['feat']:
                    st.tag(f)
                st.case(s['nt'], sample=({'callee': s['callee'][:500], 'caller': s['caller'][:500], 'log': ref[:8]} if len(st.samples) < 2 else None))
                for combo in COMBOS[2:]:
                    got = out[combo][k]
                    if got != ref and bad_sig is None:
                        bad_sig = (s, combo, ref, got)
            if bad_sig:
                s, combo, ref, got = bad_sig
                # confirm on the signature alone (a crash or compile failure elsewhere in the batch must not be blamed on it)
                d2 = ctx.fresh_dir()
                out1 = build_and_run(ctx.tree, [s], d2)
                shutil.rmtree(d2, ignore_errors=True)
                ref1 = out1[('gcc', 'gcc')][s['k']]
                for combo in COMBOS[2:]:
                    got1 = out1[combo][s['k']]
                    if got1 != ref1:
                        rep = {'kind': 'abi', 'sig': {'k': s['k'], 'defs': s['defs'], 'callee': s['callee'], 'caller': s['caller']}, 'combo': list(combo),
                               'signature': core.shash(s['callee'] + s['caller'])}
                        diff = [(a, b) for a, b in zip(ref1, got1 if isinstance(got1, list) else [])][:0]
                        raise core.Violation(rep, 'caller=%s callee=%s log differs from the (gcc,gcc) reference\n expected: %s\n observed: %s\n--- callee ---\n%s--- caller ---\n%s'
                                             % (combo[0], combo[1], ref1 if isinstance(ref1, str) else ref1[:30], got1 if isinstance(got1, str) else got1[:30],
                                                (s['defs'] + s['callee'])[:2500], s['caller'][:2500]))
                st.count('batch_only_failures')
        finally:
            shutil.rmtree(d, ignore_errors=True)
            for k_, v in self.excl.items():
                ctx.stats.counters['excluded_by_known_finding:' + k_] = v

    def replay(self, tree, rep, wd):
        s = rep['sig']
        s = dict(s); s.setdefault('feat', set()); s.setdefault('nt', None)
        out = build_and_run(tree, [s], wd)
        k = s['k']
        ref, ref2 = out[('gcc', 'gcc')][k], out[('clang', 'gcc')][k]
        if isinstance(ref, str) or ref != ref2:
            return False, 'references do not agree (not decidable): %r / %r' % (ref, ref2)
        for combo in COMBOS[2:]:
            got = out[combo][k]
            if got != ref:
                return True, 'caller=%s callee=%s\nexpected %s\nobserved %s' % (combo[0], combo[1], ref[:40], got if isinstance(got, str) else got[:40])
        return False, 'all four link-ups produce the reference log'


CHECK = C06()
