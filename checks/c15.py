"""C15 Linkage, storage duration and symbol emission are correct in every configuration.

Generator: 1-3 translation units over a shared pool of names: objects declared external / static / tentative (also
repeatedly), extern declarations, thread-local objects of every linkage incl. block-scope statics, static locals;
functions plain / static / static inline / extern inline with a drawn call graph (cycles, references from file-scope
function-pointer initializers, redeclarations after the definition, references only from unreferenced inline
functions), constrained to be a valid linkable program.
Oracle: (1) the linked program's output in five configurations (default, -fno-common, -fPIC executable,
-fPIC main + -shared -fPIC library, -static) equals the gcc reference (confirmed by clang); (2) per object file the
set of defined external symbols (name, kind OBJECT/FUNC/TLS/COMMON, size) and the set of emitted static inline
functions equal those of gcc and clang."""
import os, re, shutil
from vlib import core


class LG:
    def __init__(self, ch):
        self.ch = ch
        self.feat = set()

    def gen(self, ntu, common):
        ch = self.ch
        tus = [[] for _ in range(ntu)]
        uses = [[] for _ in range(ntu)]
        feat = self.feat
        for k in range(ch.int(2, 6)):
            name = 'o%d' % k
            ty = ch.choice(['int', 'long', 'char', 'short'])
            tls = ch.int(0, 4) == 0
            pre = '_Thread_local ' if tls else ''
            mode = ch.choice(['ext', 'ext', 'static', 'tentative' if (common and not tls) else 'ext', 'tentative-one'])
            val = ch.int(1, 90)
            if mode == 'static':
                feat.add('static-object')
                for t in range(ntu):
                    if ch.int(0, 9) < 6:
                        n = ch.int(1, 3); definit = ch.int(0, 9) < 6; pos = ch.int(0, n - 1)
                        seq = []
                        for i in range(n):
                            # after the first declaration 'extern' keeps the internal linkage (6.2.2p4)
                            sc_ = 'extern' if (i > 0 and ch.int(0, 2) == 0) else 'static'
                            if sc_ == 'extern':
                                feat.add('extern-after-static')
                            seq.append('%s %s%s %s = %d;' % (sc_, pre, ty, name, val + t) if (definit and i == pos) else '%s %s%s %s;' % (sc_, pre, ty, name))
                        if n > 1:
                            feat.add('repeated-declaration')
                        if tls:
                            feat.add('tls-static')
                        tus[t] += seq
                        uses[t].append((name, (val + t) if definit else 0))
            elif mode == 'tentative':
                feat.add('tentative-in-several-units')
                for t in range(ntu):
                    n = ch.int(0, 2)
                    if t == 0 and n == 0:
                        n = 1
                    tus[t] += ['%s %s;' % (ty, name)] * n
                    if n == 0:
                        tus[t].append('extern %s %s;' % (ty, name))
                    if n > 1:
                        feat.add('repeated-tentative')
                    uses[t].append((name, 0))
            elif mode == 'tentative-one':
                # tentative definitions in one unit only (valid with and without -fcommon)
                owner = ch.int(0, ntu - 1)
                for t in range(ntu):
                    if t == owner:
                        n = ch.int(1, 3)
                        tus[t] += ['%s%s %s;' % (pre, ty, name)] * n
                        if n > 1:
                            feat.add('repeated-tentative')
                    else:
                        tus[t] += ['extern %s%s %s;' % (pre, ty, name)]
                    uses[t].append((name, 0))
                if tls:
                    feat.add('tls')
            else:
                owner = ch.int(0, ntu - 1); init = ch.int(0, 9) < 7
                for t in range(ntu):
                    seq = []
                    if t == owner:
                        n = ch.int(1, 3); pos = ch.int(0, n - 1)
                        for i in range(n):
                            if i == pos:
                                seq.append('%s%s %s = %d;' % (pre, ty, name, val) if init else '%s%s %s;' % (pre, ty, name))
                            else:
                                seq.append('extern %s%s %s;' % (pre, ty, name))
                        if n > 1:
                            feat.add('repeated-declaration')
                        if tls:
                            feat.add('tls')
                    else:
                        if ch.int(0, 4) == 0:
                            continue
                        seq = ['extern %s%s %s;' % (pre, ty, name)] * ch.int(1, 2)
                    tus[t] += seq
                    uses[t].append((name, val if init else 0))
        # ---- functions
        nfun = ch.int(2, 6)
        fdefs = {}
        for k in range(nfun):
            fdefs['f%d' % k] = ch.choice(['ext', 'static', 'sinline', 'sinline', 'einline', 'sinline'])
        names = sorted(fdefs)
        out = []
        self.sinline = set(n for n, k in fdefs.items() if k == 'sinline')
        for t in range(ntu):
            lines = ['int printf(const char*,...);']
            defs = []
            protos = []
            fns = []
            for name in names:
                kind = fdefs[name]
                callees = [n for n in ch.sample(names, ch.int(0, 2)) if n != name]
                body = ' + '.join([str(ch.int(1, 9))] + ['%s(d-1)' % c for c in callees])
                if ch.int(0, 5) == 0:
                    # block-scope static / thread-local counters
                    sl = ch.choice(['static int cnt = 5;', 'static _Thread_local int cnt = 7;', 'static long cnt;'])
                    body = '(cnt++) + ' + body
                    pre_ = ' ' + sl
                    feat.add('block-scope-' + ('tls' if 'Thread' in sl else 'static'))
                else:
                    pre_ = ''
                txt = '(int d) {%s if (d <= 0) return %d; return %s; }' % (pre_, ch.int(1, 9), body)
                if kind in ('ext', 'einline'):
                    if t == 0:
                        defs.append('%sint %s%s' % ('extern inline ' if kind == 'einline' else '', name, txt)); fns.append(name)
                        protos.append('int %s(int d);' % name)
                    else:
                        protos.append('int %s(int d);' % name); fns.append(name)
                elif kind == 'static':
                    defs.append('static int %s%s' % (name, txt)); fns.append(name)
                    protos.append('static int %s(int d);' % name)
                else:
                    defs.append('static inline int %s%s' % (name, txt)); fns.append(name)
                    protos.append('static inline int %s(int d);' % name)
                    feat.add('static-inline')
                    r = ch.int(0, 9)
                    if r == 0:
                        # redeclaration after the definition: internal linkage is kept (6.2.2p4)
                        defs.append(ch.choice(['extern int %s(int d);', 'int %s(int d);', 'static int %s(int d);', 'static inline int %s(int d);']) % name)
                        feat.add('redeclared-after-definition')
            called = ch.sample(fns, ch.int(0, len(fns))) if fns else []
            fp = None
            extra = []
            if fns and ch.int(0, 9) < 4:
                fp = ch.choice(fns)
                feat.add('function-pointer-initializer')
                # the reference may come before or after the definition, and before a later redeclaration
                pos = ch.int(0, len(defs))
                defs.insert(pos, 'int (*fp%d)(int) = %s;' % (t, fp))
                if fp in self.sinline and ch.bool():
                    defs.append('static inline int %s(int d);' % fp)
                    feat.add('redeclared-after-reference')
            prn = ''.join(' printf("%s@%d=%%ld\\n",(long)%s); %s += %d;' % (n, t, n, n, t + 1) for n, v in uses[t])
            prn += ''.join(' printf("%s@%d=%%d\\n",%s(2));' % (c, t, c) for c in called)
            if fp:
                prn += ' printf("fp@%d=%%d\\n", fp%d(2));' % (t, t)
            unev = [f for f in fns if f in self.sinline and f not in called and f != fp]
            if unev and ch.int(0, 2) == 0:
                # naming a function in an operand that is not evaluated is not a use (6.9p3): such a static inline function is not emitted
                f_ = ch.choice(unev)
                form = ch.int(0, 2)
                if form == 0:
                    prn += ' printf("sz@%d=%%d\\n", (int)sizeof(%s(1)));' % (t, f_)
                elif form == 1:
                    prn += ' { __typeof__(%s(1)) tv = 3; printf("sz@%d=%%d\\n", (int)sizeof tv + tv); }' % (f_, t)
                else:
                    prn += ' printf("sz@%d=%%d\\n", _Generic(1, int: 4, default: %s(1)));' % (t, f_)
                feat.add('function-named-in-unevaluated-operand')
            # one declaration may hold object and function declarators in any order ('int o1, f0(int d);')
            objs = list(tus[t])
            for pi, pr in enumerate(list(protos)):
                if pr.startswith('int f') and ch.int(0, 3) == 0:
                    cands = [i for i, l in enumerate(objs) if re.match(r'^(extern )?int o\d+;$', l)]
                    if cands:
                        i = ch.choice(cands)
                        base = objs[i][:-1]                      # 'int o1' / 'extern int o1'
                        fdecl = pr[len('int '):-1]               # 'f0(int d)'
                        if ch.bool():
                            objs[i] = '%s, %s;' % (base, fdecl)
                        else:
                            pfx, oname = base.rsplit(' ', 1)
                            objs[i] = '%s %s, %s;' % (pfx, fdecl, oname)
                        protos[pi] = ''
                        feat.add('mixed-declarators')
            blk = ''
            extfns = [n for n in fns if fdefs[n] == 'ext']
            if extfns and ch.int(0, 3) == 0:
                # and the same at block scope
                fn_ = ch.choice(extfns)
                blk = ' { int loc%d = %d, %s(int d), loc2 = 1; printf("blk@%d=%%d\\n", loc%d + loc2 + %s(1)); }' % (t, ch.int(1, 9), fn_, t, t, fn_) if ch.bool() else \
                      ' { int %s(int d), loc%d = %d; printf("blk@%d=%%d\\n", loc%d + %s(1)); }' % (fn_, t, ch.int(1, 9), t, t, fn_)
                feat.add('mixed-declarators-in-block')
            prn += blk
            lines += objs + [p_ for p_ in protos if p_] + defs
            lines.append('void run%d(void) {%s }' % (t, prn))
            if t == 0:
                lines.append(''.join('void run%d(void);' % i for i in range(1, ntu)))
                calls = ''.join('run%d(); ' % i for i in range(ntu))
                # the same calls again from a second thread (thread-local objects start afresh there), then once more from the main thread
                lines.append('int pthread_create(unsigned long *, void *, void *(*)(void *), void *); int pthread_join(unsigned long, void **);')
                lines.append('static void *thr(void *a) { printf("thread\\n"); %s return a; }' % calls)
                lines.append('int main(void) { unsigned long th; %s %s pthread_create(&th, 0, thr, 0); pthread_join(th, 0); printf("main again\\n"); %s return 0; }' % (calls, calls, calls))
            out.append('\n'.join(lines) + '\n')
        return out


def syms(obj, sinline):
    r = core.run(['readelf', '-sW', obj], timeout=20)
    ext = set(); loc = set()
    for l in r.out.split('\n'):
        f = l.split()
        if len(f) < 8:
            continue
        name = f[7]
        if f[4] in ('GLOBAL', 'WEAK') and name not in ('_GLOBAL_OFFSET_TABLE_', 'printf', '__tls_get_addr'):
            if f[6] == 'UND':
                continue
            kind = 'COM' if f[6] == 'COM' else f[3]
            size = f[2] if kind in ('OBJECT', 'TLS', 'COM') else '-'
            ext.add((name, kind, size))
        elif f[4] == 'LOCAL' and f[3] == 'FUNC' and name in sinline:
            loc.add(name)
    return ext, loc


CONFIGS = ['default', 'nocommon', 'pic', 'shared', 'static']


def build(tree, comp, files, cfg, common, d, tag):
    """returns (exe path or None, error)"""
    copt = ['-fcommon'] if common else ['-fno-common']
    if cfg == 'nocommon':
        copt = ['-fno-common']
    cc = [tree.cc] if comp == 'chibicc' else [comp, '-w', '-O0', '-std=gnu11']
    exe = os.path.join(d, 'x_%s_%s' % (tag, cfg))
    if cfg in ('default', 'nocommon'):
        r = core.run(cc + copt + ['-o', exe] + files, timeout=60)
    elif cfg == 'pic':
        r = core.run(cc + copt + ['-fPIC', '-o', exe] + files, timeout=60)
    elif cfg == 'static':
        r = core.run(cc + copt + ['-static', '-o', exe] + files, timeout=90)
    else:
        if len(files) < 2:
            return 'SKIP', ''
        lib = os.path.join(d, 'lib_%s.so' % tag)
        r = core.run(cc + copt + ['-fPIC', '-shared', '-o', lib] + files[1:], timeout=60)
        if r.rc == 0:
            r = core.run(cc + copt + (['-fPIC'] if cfg == 'shared' else []) + ['-o', exe, files[0], lib, '-Wl,-rpath,' + d], timeout=60)
    if r.rc != 0 or r.timeout:
        err = '\n'.join(l for l in (r.err or '').split('\n') if 'GNU-stack' not in l and 'NOTE:' not in l and l.strip())
        return None, err[-300:]
    return exe, ''


class C15:
    id = 'C15'
    level = 'exploration'
    rule = ('cases = 1-3 translation units over shared names: objects (external with/without initializer, static, tentative in one or several units, thread-local of every linkage, repeated '
            'declarations, extern redeclarations, block-scope static and thread-local objects) and functions (plain, static, static inline, extern inline) with a drawn call graph, file-scope '
            'function-pointer initializers placed before or after definitions, redeclarations after definition or reference; each built as default, -fno-common, -fPIC executable, -fPIC main '
            '+ -shared library, -static. Oracle: program output == gcc (== clang) in every configuration; defined external symbols (name, kind, size) and emitted static inline functions per '
            'object == gcc == clang. non-trivial = a name declared more than once in a unit or shared across units, an inline call graph, a TLS object, or a function pointer initializer; '
            'distinct by (sources hash, configuration).')
    assumptions = ['gcc and clang at -O0 emit exactly the reachable static inline functions and agree on external symbol tables',
                   'D58 (non-PIC code uses local-exec TLS for objects defined in a shared library) recorded: the main unit of the shared configuration is built -fPIC']

    def budget(self, tier):
        return 700 if tier == 'quick' else 8000

    def example(self, ch, ctx):
        st = ctx.stats
        g = LG(ch)
        ntu = ch.int(1, 3)
        common = ch.bool()
        srcs = g.gen(ntu, common)
        d = ctx.fresh_dir()
        try:
            files = []
            for t, s in enumerate(srcs):
                f = os.path.join(d, 'u%d.c' % t)
                open(f, 'w').write(s)
                files.append(f)
            cfgs = ch.sample(CONFIGS, ch.int(2, 4))
            if not common and 'default' in cfgs:
                pass
            key0 = core.shash(''.join(srcs))
            rep_base = {'kind': 'link', 'sources': srcs, 'common': common}
            for cfg in cfgs:
                ref, e1 = build(ctx.tree, 'gcc', files, cfg, common, d, 'g')
                if ref == 'SKIP':
                    continue
                ref2, e2 = build(ctx.tree, 'clang', files, cfg, common, d, 'c')
                if not ref or not ref2:
                    st.count('ref_reject')
                    if st.counters['ref_reject'] <= 3:
                        st.samples.append({'ref_reject': (e1 or e2)[:300], 'cfg': cfg})
                    continue
                o1 = core.run([ref], timeout=10).out
                o2 = core.run([ref2], timeout=10).out
                if o1 != o2:
                    st.count('ref_disagree'); continue
                for f in g.feat:
                    st.tag(f)
                st.tag('cfg:' + cfg)
                st.case((key0, cfg) if g.feat else None, sample=({'cfg': cfg, 'common': common, 'sources': srcs, 'output': o1[:200]} if len(st.samples) < 2 else None))
                exe, err = build(ctx.tree, 'chibicc', files, cfg, common, d, 'x')
                bad = None
                if not exe:
                    bad = 'chibicc fails to build a program that gcc and clang link (%s): %s' % (cfg, err)
                else:
                    r = core.run([exe], timeout=10)
                    if r.rc != 0 or r.out != o1:
                        a, b = o1.split('\n'), r.out.split('\n')
                        k = next((i for i in range(min(len(a), len(b))) if a[i] != b[i]), min(len(a), len(b)))
                        bad = 'program output differs in configuration %s (rc=%s): line %d expected %r observed %r' % (cfg, r.rc, k, a[k] if k < len(a) else None, b[k] if k < len(b) else None)
                if bad:
                    rep = dict(rep_base, cfg=cfg, signature=core.shash(key0 + cfg))
                    raise core.Violation(rep, bad + '\n' + '\n'.join('--- u%d.c\n%s' % (i, s) for i, s in enumerate(srcs)))
            # symbol tables
            copt = '-fcommon' if common else '-fno-common'
            for t, f in enumerate(files):
                og = os.path.join(d, 'g%d.o' % t); oc = os.path.join(d, 'c%d.o' % t); ox = os.path.join(d, 'x%d.o' % t)
                r1 = core.run(['gcc', '-w', '-O0', copt, '-c', f, '-o', og], timeout=30)
                r2 = core.run(['clang', '-w', '-O0', copt, '-c', f, '-o', oc], timeout=30)
                r3 = core.run([ctx.tree.cc, copt, '-c', f, '-o', ox], timeout=30)
                if r1.rc or r2.rc:
                    continue
                sg, sc = syms(og, g.sinline), syms(oc, g.sinline)
                if sg != sc:
                    st.count('sym_ref_disagree'); continue
                st.count('symbol_tables_compared')
                if r3.rc != 0:
                    continue
                sx = syms(ox, g.sinline)
                if sx != sg:
                    bad = 'object file of u%d.c: defined external symbols differ by %s; emitted static inline functions differ by %s' % (
                        t, sorted(sx[0] ^ sg[0]), sorted(sx[1] ^ sg[1]))
                    rep = dict(rep_base, cfg='symbols', unit=t, signature=core.shash(key0 + 'sym%d' % t))
                    raise core.Violation(rep, bad + '\n--- u%d.c\n%s' % (t, srcs[t]))
        finally:
            shutil.rmtree(d, ignore_errors=True)

    def replay(self, tree, rep, wd):
        files = []
        for t, s in enumerate(rep['sources']):
            f = os.path.join(wd, 'u%d.c' % t); open(f, 'w').write(s); files.append(f)
        common = rep['common']
        if rep['cfg'] == 'symbols':
            t = rep['unit']
            copt = '-fcommon' if common else '-fno-common'
            sin = set(re.findall(r'static inline int (f\d+)\(int d\) \{', rep['sources'][t]))
            og = os.path.join(wd, 'g.o'); ox = os.path.join(wd, 'x.o')
            core.run(['gcc', '-w', '-O0', copt, '-c', files[t], '-o', og], timeout=30)
            r3 = core.run([tree.cc, copt, '-c', files[t], '-o', ox], timeout=30)
            if r3.rc != 0:
                return True, 'chibicc fails: ' + r3.err[-200:]
            a, b = syms(og, sin), syms(ox, sin)
            return (a != b), 'gcc %s / chibicc %s' % (sorted(a[0] ^ b[0]), sorted(a[1] ^ b[1]))
        ref, e1 = build(tree, 'gcc', files, rep['cfg'], common, wd, 'g')
        if not ref or ref == 'SKIP':
            return False, 'reference does not build'
        o1 = core.run([ref], timeout=10).out
        exe, err = build(tree, 'chibicc', files, rep['cfg'], common, wd, 'x')
        if not exe:
            return True, 'chibicc fails to build: ' + err
        r = core.run([exe], timeout=10)
        return (r.rc != 0 or r.out != o1), 'expected %r observed %r (rc=%s)' % (o1[:300], r.out[:300], r.rc)


CHECK = C15()
