"""C04 Every lvalue designates exactly its object's bytes and bits.

(a) random aggregate types (vlib/tgen) instantiated in static / automatic / heap / pointer-accessed
storage between canaries; a generated sequence of stores, op=, ++/--, leaf copies, whole- and
sub-aggregate assignments through generated lvalue spellings; after every step all named leaves and the
canaries are dumped.  (b) VLA / alloca histories in generated call-nesting contexts with fill patterns,
overlap and alignment checks, alloca under pending temporaries.  (c) alignment of automatic objects.
Oracle: dumps printed by the chibicc build == gcc == clang (plus in-program invariants)."""
from vlib import core, diffprog, tgen, igen

PRE = diffprog.PRELUDE + r'''
#ifdef __chibicc__
void *alloca(unsigned long);
#else
#define alloca __builtin_alloca
#endif
static void HX(const void *p, int n) { const unsigned char *b = p; int i; for (i = 0; i < n; i++) printf("%02x", b[i]); }
'''

INT_VALUES = [0, 1, -1, 2, 3, 5, 7, 127, 128, 255, 256, 32767, 32768, 65535, 65536, 0x7fffffff, 0x80000000, 0xffffffff, 0x100000000,
              0x7fffffffffffffff, -0x80000000, 0x5a5a5a5a5a5a5a5a, 0xa5a5a5a5a5a5a5a5, 0x123456789abcdef]


def ival(ch):
    v = ch.choice(INT_VALUES) if ch.int(0, 9) < 8 else ch.bits(64)
    if v >= 1 << 63:
        return '%dUL' % v
    return '(%dL)' % v


def fval(ch):
    return ch.choice(['0.0', '1.0', '-1.5', '2.25', '1e10', '-0.0', '3.0', '0.1', '100.5', '-7.0'])


class AggCase:
    def __init__(self, ch, depth, excl):
        self.ch = ch
        g = tgen.TGen(ch, excl=excl, allow_aligned=True)
        self.g = g
        self.agg = g.agg(depth, tag='@S')
        self.leaves = tgen.leaves(self.agg)
        self.feat = set(g.feat)
        self.nt = False

    def dump_fn(self):
        lines = []
        for lf in self.leaves:
            acc = 'p->' + lf.path
            if lf.bf is None and lf.ty.cname == '_Bool':
                # the stored byte (an object overlapped through a union may hold a non-_Bool representation)
                lines.append('  printf(" b%%x", (unsigned)*(unsigned char *)&%s);' % acc)
            elif lf.bf is not None or lf.ty.kind == 'int':
                lines.append('  printf(" %%lx", (unsigned long)(long)%s);' % acc)
            elif lf.ty.kind == 'ptr':
                # pointers into @buf print as offsets; the small integer-valued pointers stored into union members print as -(value) - 10
                lines.append('  printf(" %%ld", (%s >= @buf && %s < @buf + 64) ? (long)(%s - @buf) : (unsigned long)%s - 1 < 0xffffUL ? -(long)(unsigned long)%s - 10 : -2L);' % (acc, acc, acc, acc, acc))
            else:
                n = {'float': 4, 'double': 8, 'long double': 10}[lf.ty.cname]
                lines.append('  printf(" "); HX((const void *)&%s, %d);' % (acc, n))
        return 'static char @buf[64];\nstatic void @dump(%s *p) {\n%s\n}\n' % (self.agg.ref(), '\n'.join(lines))

    def sub_aggs(self):
        """paths of nested aggregates/arrays that can be assigned as a whole (path, type)."""
        out = []

        def walk(ty, path):
            if isinstance(ty, tgen.Agg):
                for f in ty.fields:
                    if f.bf is not None:
                        continue
                    p = path if f.anon else ((path + '.' if path else '') + f.name)
                    if isinstance(f.ty, tgen.Agg) and not f.anon:
                        out.append((p, f.ty))
                    walk(f.ty, p)
            elif isinstance(ty, tgen.Array) and isinstance(ty.elem, tgen.Agg):
                for i in range(ty.n):
                    walk(ty.elem, '%s[%d]' % (path, i))
        walk(self.agg, '')
        return out

    def spell(self, base, path):
        """lvalue spelling for obj.path with a drawn access form.  base: (objexpr, ptrexpr)"""
        ch = self.ch
        obj, ptr = base
        f = ch.int(0, 4)
        if f == 0:
            t = '%s.%s' % (obj, path)
        elif f == 1:
            t = '%s->%s' % (ptr, path)
        elif f == 2:
            t = '(*%s).%s' % (ptr, path)
        elif f == 3:
            t = '(&%s)->%s' % (obj, path)
        else:
            t = '(*&%s).%s' % (obj, path)
        # array element spellings: a[i] -> *(a + i) or i[a] for the last index
        if t.endswith(']') and ch.int(0, 2) == 0:
            k = t.rindex('[')
            arr, idx = t[:k], t[k + 1:-1]
            t = '(*(%s + %s))' % (arr, idx) if ch.bool() else '%s[%s]' % (idx, arr)
            self.feat.add('ptr-arith-elem')
        return t

    def build(self):
        ch = self.ch
        S = self.agg.ref()
        storage = ch.choice(['static', 'auto', 'heap', 'static-local', 'compound-literal'])
        self.feat.add('storage:' + storage)
        pre = []
        if storage == 'static':
            decl_file = 'static struct { unsigned long c0; %s o; unsigned long c1; %s o2; unsigned long c2; } @w;\n' % (S, S)
            pre.append('%s *p = &@w.o, *q = &@w.o2;' % S)
            W = '@w'
        else:
            decl_file = ''
            W = 'w'
            if storage == 'auto':
                pre.append('struct { unsigned long c0; %s o; unsigned long c1; %s o2; unsigned long c2; } w; %s *p = &w.o, *q = &w.o2;' % (S, S, S))
            elif storage == 'static-local':
                pre.append('static struct { unsigned long c0; %s o; unsigned long c1; %s o2; unsigned long c2; } w; %s *p = &w.o, *q = &w.o2;' % (S, S, S))
            elif storage == 'heap':
                pre.append('struct W { unsigned long c0; %s o; unsigned long c1; %s o2; unsigned long c2; } *wp = malloc(sizeof(struct W)); %s *p = &wp->o, *q = &wp->o2;' % (S, S, S))
                W = '(*wp)'
            else:
                pre.append('struct W { unsigned long c0; %s o; unsigned long c1; %s o2; unsigned long c2; } *wp = &(struct W){0}; %s *p = &wp->o, *q = &wp->o2;' % (S, S, S))
                W = '(*wp)'
        has_bool = any(lf.bf is None and lf.ty.cname == '_Bool' for lf in self.leaves)
        pre.append('memset(&%s, 0x%02x, sizeof %s); %s.c0 = 0x1111111111111111; %s.c1 = 0x2222222222222222; %s.c2 = 0x3333333333333333;' % (W, 0 if has_bool else ch.choice([0, 0, 0x5a, 0xff]), W, W, W, W))
        base = ('%s.o' % W, 'p')
        base2 = ('%s.o2' % W, 'q')
        steps = []
        n = ch.int(2, 14)
        subs = self.sub_aggs()
        for st in range(n):
            k = ch.int(0, 19)
            lf = ch.choice(self.leaves)
            tgt = self.spell(base if ch.int(0, 3) else base2, lf.path)
            isint = lf.bf is not None or lf.ty.kind == 'int'
            it = lf.bf_base[2] if lf.bf is not None else (lf.ty.it if isint else None)
            uns = isint and (not it.signed)
            # a _Bool that a union may have overlapped with other bytes must not be read as _Bool
            rd_ok = lambda l: not (l.bf is None and l.ty.cname == '_Bool' and 'union' in self.feat)
            if not rd_ok(lf) and k >= 8:
                k = 0
            if k < 8 or (not isint and k < 14):
                if isint:
                    op = '%s = %s;' % (tgt, ival(ch))
                elif lf.ty.kind == 'ptr':
                    op = '%s = %s;' % (tgt, pval(lf, ch.int(0, 63)))
                else:
                    op = '%s = %s;' % (tgt, fval(ch))
                if lf.bf is not None:
                    self.feat.add('bf-store'); self.nt = True
            elif k < 11 and isint:
                if uns and ch.bool():
                    op = '%s %s %s;' % (tgt, ch.choice(['+=', '-=', '*=']), ch.choice(['1', '3', '255', '65537', '0x100000001UL']))
                else:
                    op = '%s %s %s;' % (tgt, ch.choice(['|=', '&=', '^=']), ival(ch))
                self.feat.add('op=member'); self.nt = True
                if lf.bf is not None:
                    self.feat.add('bf-op=')
            elif k < 13 and isint and uns:
                op = ('%s%s;' % (tgt, ch.choice(['++', '--']))) if ch.bool() else ('%s%s;' % (ch.choice(['++', '--']), tgt))
                self.feat.add('incdec-member'); self.nt = True
            elif k < 14 and isint and uns and it.bits >= 8:
                op = '%s %s %d;' % (tgt, ch.choice(['<<=', '>>=']), ch.int(0, min(7, (lf.bf or it.bits) - 1)))
            elif k < 16:
                lf2 = ch.choice(self.leaves)
                isint2 = lf2.bf is not None or lf2.ty.kind == 'int'
                if isint and isint2 and rd_ok(lf2):
                    op = '%s = %s;' % (tgt, self.spell(base if ch.bool() else base2, lf2.path))
                    self.feat.add('leaf-copy')
                else:
                    op = '%s = %s;' % (tgt, ival(ch) if isint else (pval(lf, 1) if lf.ty.kind == 'ptr' else fval(ch)))
            elif k < 18:
                form = ch.int(0, 4)
                a, b = ('%s.o' % W, '%s.o2' % W) if ch.bool() else ('%s.o2' % W, '%s.o' % W)
                pa, pb = ('p', 'q') if a.endswith('.o') else ('q', 'p')
                op = ['%s = %s;' % (a, b), '*%s = *%s;' % (pa, pb), '%s = *%s;' % (a, pb), '*%s = %s;' % (pa, b), '{ %s tmp = %s; %s = tmp; }' % (S, b, a)][form]
                self.feat.add('agg-assign'); self.nt = True
            elif subs:
                pth, ty = ch.choice(subs)
                a, b = (base, base2) if ch.bool() else (base2, base)
                op = '%s = %s;' % (self.spell(a, pth), self.spell(b, pth))
                self.feat.add('subagg-assign'); self.nt = True
            else:
                op = '%s = %s;' % (tgt, ival(ch) if isint else (pval(lf, 0) if lf.ty.kind == 'ptr' else fval(ch)))
            steps.append('  %s\n  printf("@ %d:"); @dump(p); printf(" |"); @dump(q); printf(" | %%lx %%lx %%lx\\n", %s.c0, %s.c1, %s.c2);' % (op, st, W, W, W))
        # value of a conditional / assignment lvalue member (read only)
        if ch.int(0, 3) == 0:
            lf = ch.choice(self.leaves)
            if (lf.bf is not None or lf.ty.kind == 'int') and not (lf.bf is None and lf.ty.cname == '_Bool' and 'union' in self.feat):
                steps.append('  printf("@ cond %%lx\\n", (unsigned long)(long)(%s.c0 ? %s.o : %s.o2).%s);\n  printf("@ asgv %%lx\\n", (unsigned long)(long)(%s.o = %s.o2).%s);' % (W, W, W, lf.path, W, W, lf.path))
                self.feat.add('cond-lvalue-member')
        if storage == 'heap':
            steps.append('  free(wp);')
        body = '  ' + '\n  '.join(pre) + '\n' + '\n'.join(steps) + '\n'
        decls = self.agg.definition() + '\n' + self.dump_fn() + decl_file
        nt = (tuple(sorted(self.feat)), core.shash(decls)) if (self.nt and (self.feat & {'bf', 'nested', 'union', 'packed', 'aligned', 'anon-member', 'array'})) else None
        return diffprog.Case(decls=decls, body=body, nt=nt, tags=sorted(self.feat))


def gen_dyn(ch):
    """VLA / alloca histories.  Every block gets a distinct fill pattern; after every later allocation all live blocks are re-verified;
    addresses are checked modulo 16 and for pairwise disjointness by the program itself (prints only booleans and sizes)."""
    feat = set()
    fns = []
    nblk = [0]

    def alloc_stmt(live, indent):
        k = ch.int(0, 9)
        i = nblk[0]
        nblk[0] += 1
        sz = ch.choice([1, 2, 7, 8, 15, 16, 17, 31, 32, 33, 100, 255, 256, 1000, 4096, 5000, 65536]) if ch.int(0, 3) else ch.int(1, 300)
        out = []
        if k < 4:
            feat.add('alloca')
            out.append('char *b%d = alloca(n%d);' % (i, i))
        elif k < 6:
            feat.add('alloca-pending-temps')
            form = ch.int(0, 2)
            if form == 0:
                out.append('char *b%d; long t%d = @id(11) + (long)(b%d = alloca(n%d)) * 0 + @id(22); @chk(t%d == 33);' % (i, i, i, i, i))
            elif form == 1:
                out.append('char *b%d = @pick(1, alloca(n%d), @id(5));' % (i, i))
            else:
                out.append('char *b%d; { long a1 = 1, a2 = 2, a3 = 3; long t = a1 + (a2 + (a3 + (long)((b%d = alloca(n%d)) != 0))); @chk(t == 7); }' % (i, i, i))
        elif k == 6:
            # VLA with a run-time row length: pointer arithmetic on rows scales by a run-time size
            feat.add('vla-rows')
            rows = ch.int(2, 6); r1 = ch.int(1, rows - 1); kk = ch.int(0, r1); j = ch.int(0, 2)
            sizes['r%d' % i] = rows
            out.append('int v%d[nr%d][n%d]; char *b%d = (char *)v%d; int (*p%d)[n%d] = v%d + %d;' % (i, i, i, i, i, i, i, i, r1))
            out.append('@chk(sizeof(v%d) == (unsigned long)nr%d * n%d * 4); @chk((char *)(v%d + %d) - b%d == (long)%d * n%d * 4); @chk(p%d - v%d == %d); @chk(v%d - p%d == -%d);'
                       % (i, i, i, i, r1, i, r1, i, i, i, r1, i, i, r1))
            out.append('@chk((p%d - %d) == v%d + %d); @chk((char *)(p%d - %d) == b%d + (long)%d * n%d * 4); @chk(&(*(v%d + %d - %d))[0] == &v%d[%d][0]);'
                       % (i, kk, i, r1 - kk, i, kk, i, r1 - kk, i, i, r1, kk, i, r1 - kk))
            out.append('{ int (*q)[n%d] = p%d; q -= %d; @chk(q == v%d + %d); q++; q--; q += %d; @chk(q == p%d); @chk((v%d + %d) - (v%d + %d) == %d); }'
                       % (i, i, kk, i, r1 - kk, kk, i, i, r1, i, r1 - kk, kk))
            if ch.bool():
                feat.add('vla-parameter')
                out.append('@chk(@vrow(nr%d, n%d, v%d, %d, %d) == ((long)%d * n%d + %d) * 4 + (long)n%d * 4 * 100000 + 8L * 10000000); @chk(@vptr(n%d, v%d, %d) == (long)%d * n%d * 4 + (long)n%d * 4 * 100000);'
                           % (i, i, i, r1, j, r1, i, j, i, i, i, r1, r1, i, i))
            live.append((i, 4 * rows))
            out.append('@fill(b%d, n%d * %d, %d); @al(b%d, 4);' % (i, i, 4 * rows, i + 1, i))
            out.append('(*(p%d - %d))[0] = (*(p%d - %d))[0]; @chk(v%d[%d][0] == (*(p%d - %d))[0]);' % (i, kk, i, kk, i, r1 - kk, i, kk))
            return i, max(1, sz % 40), out
        elif k < 9:
            feat.add('vla')
            el = ch.choice(['char', 'short', 'int', 'long'])
            esz = {'char': 1, 'short': 2, 'int': 4, 'long': 8}[el]
            out.append('%s v%d[n%d]; char *b%d = (char *)v%d; @chk(sizeof(v%d) == (unsigned long)n%d * %d);' % (el, i, i, i, i, i, i, esz))
            out.append('memset(b%d, 0, sizeof v%d);' % (i, i))
            live.append((i, esz))
            out.append('@fill(b%d, n%d * %d, %d); @al(b%d, %d);' % (i, i, esz, i + 1, i, esz))
            return i, sz, out
        else:
            feat.add('vla2d')
            out.append('int v%d[n%d][3]; char *b%d = (char *)v%d; @chk(sizeof(v%d) == (unsigned long)n%d * 12); @chk((char *)&v%d[n%d - 1][2] - b%d == (long)n%d * 12 - 4);' % (i, i, i, i, i, i, i, i, i, i))
            live.append((i, 12))
            out.append('@fill(b%d, n%d * 12, %d); @al(b%d, 4);' % (i, i, i + 1, i))
            return i, sz, out
        live.append((i, 1))
        out.append('@fill(b%d, n%d, %d); @al(b%d, 16);' % (i, i, i + 1, i))
        return i, sz, out

    def verify(live):
        return ' '.join('@ver(b%d, n%d * %d, %d);' % (i, i, m, i + 1) for i, m in live) + \
               ' '.join('@dis(b%d, n%d * %d, b%d, n%d * %d);' % (a, a, ma, b, b, mb) for x, (a, ma) in enumerate(live) for (b, mb) in live[x + 1:])

    sizes = {}

    def body(depth, live_outer):
        out = []
        live = []
        for _ in range(ch.int(1, 4)):
            k = ch.int(0, 9)
            if k < 6:
                i, sz, st = alloc_stmt(live, '')
                sizes[i] = sz
                out += st
                out.append(verify(live))
            elif k < 8 and depth > 0:
                # nested block scope: VLAs die at its end, alloca blocks stay alive
                inner, inner_live = body(depth - 1, live)
                out.append('{ ' + ' '.join(inner) + ' }')
                out.append(verify(live))
            elif depth > 0:
                f = len(fns)
                fns.append(None)
                sub, _ = body(depth - 1, [])
                fns[f] = 'static int @f%d(int d) { %s return d + 1; }' % (f, ' '.join(sub))
                feat.add('call-nesting')
                out.append('@chk(@f%d(3) == 4);' % f)
                out.append(verify(live))
            else:
                out.append('{ volatile long x = @id(7) * 3 + @id(2); @chk(x == 23); }')
        return out, live

    stmts, _ = body(2, [])
    ndecl = ' '.join('static volatile int n%s = %d;' % (i, s) for i, s in sorted(sizes.items(), key=str))
    decls = ('static int @bad, @cnt;\n'
             'static void @chk(int ok) { @cnt++; if (!ok) @bad++; }\n'
             'static long @id(long x) { return x; }\n'
             'static char *@pick(int w, char *a, long b) { return w ? a : (char *)b; }\n'
             'static void @fill(char *p, long n, int pat) { long i; for (i = 0; i < n; i++) p[i] = (char)(pat * 37 + i); }\n'
             'static void @ver(char *p, long n, int pat) { long i; int ok = 1; for (i = 0; i < n; i++) if (p[i] != (char)(pat * 37 + i)) ok = 0; @chk(ok); }\n'
             'static void @dis(char *a, long na, char *b, long nb) { @chk(a + na <= b || b + nb <= a); }\n'
             'static void @al(char *p, int a) { @chk(((unsigned long)p % a) == 0); }\n'
             # parameters of variably modified type: the bounds are earlier parameters, the sizes are computed on entry
             'static long @vrow(int r, int c, int a[r][c], int i, int j) { return ((char *)&a[i][j] - (char *)a) + (long)sizeof(a[0]) * 100000 + (long)sizeof(a) * 10000000; }\n'
             'static long @vptr(int c, int (*p)[c], int k) { return (char *)(p + k) - (char *)p + (long)sizeof(*p) * 100000; }\n'
             + ndecl + '\n' + '\n'.join(f for f in reversed(fns) if f) + '\n')
    # functions reference each other only downwards (higher index = deeper): reversed order defines callees first
    bodytxt = '  ' + '\n  '.join(stmts) + '\n  printf("@ bad=%d checks=%d\\n", @bad, @cnt);\n'
    nt = (tuple(sorted(feat)), core.shash(bodytxt)) if (('alloca-pending-temps' in feat) or ('vla-rows' in feat) or ('vla-parameter' in feat) or len(sizes) >= 2) else None
    return diffprog.Case(decls=decls, body=bodytxt, nt=nt, tags=sorted(feat))


def pval(lf, n):
    """a pointer value to store in leaf lf: an address inside @buf, except where a union lets other members read the same bytes -
    an address differs from one compiler's image to the next, so there the value is a small integer converted to a pointer"""
    return '@buf + %d' % n if not lf.unions else '(char *)%dUL' % (n * 1021 + 1)


def gen_align(ch, excl):
    """alignment of automatic objects (arrays >= 16 bytes, _Alignas) observed from several call depths."""
    objs = []
    chk = []
    for i in range(ch.int(1, 5)):
        k = ch.int(0, 3)
        if k == 0:
            # psABI 3.1.2: an array variable of at least 16 *bytes* is 16-byte aligned, whatever its element type and count
            et, esz, eal = ch.choice([('char', 1, 1), ('char', 1, 1), ('short', 2, 2), ('int', 4, 4), ('long', 8, 8), ('float', 4, 4), ('double', 8, 8), ('struct { int a; char c; }', 8, 4), ('struct { char c[3]; }', 3, 1)])
            n = ch.choice([16, 17, 24, 32, 100]) if et == 'char' and ch.bool() else ch.choice([1, 2, 3, 4, 5, 6, 8, 15, 16, 17])
            dims = '[%d]' % n
            if ch.int(0, 4) == 0:
                m = ch.choice([2, 3]); dims = '[%d][%d]' % (m, n); n *= m
            objs.append('%s a%d%s;' % (et, i, dims)); chk.append('(int)((unsigned long)a%d %% %d)' % (i, 16 if esz * n >= 16 else eal))
            if ch.bool():
                objs.append('char c%d; c%d = pad;' % (i, i))        # a byte between the objects moves the next one off a multiple of 16
        elif k == 1:
            al = ch.choice([1, 2, 4, 8, 16, 32, 64])
            if al > 16 and 'D59' in excl:
                excl['D59'] += 1
                al = 16
            t = ch.choice([x for x in ['char', 'short', 'int', 'long'] if {'char': 1, 'short': 2, 'int': 4, 'long': 8}[x] <= al])
            objs.append('_Alignas(%d) %s x%d;' % (al, t, i)); chk.append('(int)((unsigned long)&x%d %% %d)' % (i, al))
        elif k == 2:
            t, a = ch.choice([('long double', 16), ('double', 8), ('long', 8), ('int', 4), ('short', 2)])
            objs.append('%s y%d;' % (t, i)); chk.append('(int)((unsigned long)&y%d %% %d)' % (i, a))
        else:
            objs.append('struct { char c; long double l; } s%d;' % i); chk.append('(int)((unsigned long)&s%d %% 16)' % i)
    fmt = ' '.join(['%d'] * len(chk))
    decls = ('static void @show(int depth, char pad) { %s printf("@ d%%d %s\\n", depth, %s); if (depth < 3) { char q[depth * 5 + 1]; q[0] = pad; @show(depth + 1, q[0]); } }\n'
             % (' '.join(objs), fmt, ', '.join(chk)))
    body = '  @show(0, 1);\n  { char odd[3]; odd[0] = 1; @show(2, odd[0]); }\n'
    return diffprog.Case(decls=decls, body=body, nt=('align', core.shash(decls)), tags=['auto-align'])


class C04:
    id = 'C04'
    level = 'exploration'
    rule = ('cases: (a) a random aggregate type (depth<=2/3; scalars, arrays, nested/anonymous struct/union, bit-fields of every base type and width) held in static, automatic, '
            'static-local, heap or compound-literal storage between canaries, driven by 2..14 generated steps (store / op= / ++ -- / shift-assign / leaf copy / whole- and '
            'sub-aggregate assignment, through ., ->, (*p)., (&o)->, *(a+i), i[a] spellings); after every step every named leaf of both objects and the three canaries are dumped; '
            '(b) VLA/alloca histories over nested blocks and calls with fill patterns, re-verification of all live blocks after each allocation, disjointness and alignment checks, '
            'alloca evaluated while temporaries are pending; (c) alignment of automatic objects from several call depths. Oracle: gcc == clang == chibicc on the dumps. '
            'non-trivial = sequence has a bit-field store/op=, an aggregate or sub-aggregate copy, an op= on a member, alloca under pending temporaries or >=2 live dynamic blocks; '
            'distinct by (feature set, type/skeleton hash).')
    assumptions = ['objects are memset before use, so all bytes read through any member are determined; padding is never printed',
                   'packed aggregates with bit-fields/_Alignas members excluded (D12b/D12c recorded under C08); _Alignas(N>16) automatic objects excluded (D59 recorded)']
    excl = {'D12b': 0, 'D59': 0}

    def budget(self, tier):
        return 380 if tier == 'quick' else 4500

    def example(self, ch, ctx):
        depth = 2 if ctx.quick else 3
        cases = []
        while ch.more(len(cases), 1, 16):
            k = ch.int(0, 9)
            if k < 6:
                cases.append(AggCase(ch, depth, self.excl).build())
            elif k < 9:
                cases.append(gen_dyn(ch))
            else:
                cases.append(gen_align(ch, self.excl))
        fails = diffprog.judge(ctx, cases, prelude=PRE)
        for k, v in self.excl.items():
            ctx.stats.counters['excluded_by_known_finding:' + k] = v
        if fails:
            raise diffprog.violation_from(cases, fails[0], prelude=PRE)

    def replay(self, tree, rep, wd):
        return diffprog.replay(tree, rep, wd)


CHECK = C04()
