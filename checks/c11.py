"""C11 Literals have the C11 value, type and encoding.

(a) exhaustive: integer constants in 4 bases x 23 suffix spellings x magnitudes at every typing threshold (value, size,
signedness, with a model of 6.4.4.1p5 cross-checked by gcc and clang); (b) generated character constants and string
literals: 5 prefixes x content built from code points of every UTF-8/UTF-16 length class and boundary, simple / octal /
hex escapes, \\u / \\U, escaped backslashes followed by u/x/digits, concatenation of adjacent literals with the prefix
mixes C11 defines; Unicode identifiers (raw UTF-8 and UCN); with a Python encoder as model; (c) metamorphic
transformations of the same programs: BOM, LF -> CR/LF, backslash-newline inserted at arbitrary byte positions (also
inside tokens and literals): output must not change; (d) exhaustive native harness over all 1,114,112 code points for
unicode.c (encode/decode round trip, identifier classes vs C11 Annex D)."""
import os, shutil, itertools
from vlib import core, diffprog

PRE = diffprog.PRELUDE + 'typedef unsigned short C16; typedef unsigned int C32; typedef int WCH;\n'

# ---- (a) integer constants
SUFFIXES = ['', 'u', 'U', 'l', 'L', 'll', 'LL', 'ul', 'uL', 'Ul', 'UL', 'lu', 'Lu', 'lU', 'LU', 'ull', 'uLL', 'Ull', 'ULL', 'llu', 'LLu', 'llU', 'LLU']
MAGS = sorted(set([0, 1, 2, 7, 8, 255, 65535, 65536] + [2 ** k + d for k in (31, 32, 63) for d in (-2, -1, 0, 1)] + [2 ** 64 - 2, 2 ** 64 - 1, 2 ** 31 + 12345, 2 ** 40, 2 ** 62]))


def int_model(v, base, suf):
    """(size, signed) per C11 6.4.4.1p5 with int=32, long=long long=64"""
    u = 'u' in suf.lower()
    l = suf.lower().replace('u', '')
    cands = {('', False): [(4, True), (8, True)], ('', True): [(4, False), (8, False)],
             ('l', False): [(8, True)], ('l', True): [(8, False)], ('ll', False): [(8, True)], ('ll', True): [(8, False)]}[(l, u)]
    if base != 10 and not u:
        # octal/hex/binary constants may also take the unsigned type of each rank
        ext = []
        for sz, sg in cands:
            ext += [(sz, True), (sz, False)]
        cands = ext
    for sz, sg in cands:
        hi = (1 << (8 * sz - 1)) - 1 if sg else (1 << (8 * sz)) - 1
        if v <= hi:
            return sz, sg
    return None


def spell(v, base):
    return {2: '0b' + bin(v)[2:], 8: '0' + oct(v)[2:] if v else '0', 10: str(v), 16: hex(v)}[base]


def int_sweep_source():
    lines = []
    exp = []
    k = 0
    for base in (2, 8, 10, 16):
        for suf in SUFFIXES:
            for v in MAGS:
                m = int_model(v, base, suf)
                if m is None:
                    continue
                lit = spell(v, base) + suf
                if base == 16 and k % 3 == 0:
                    lit = lit.replace('0x', '0X').upper().replace('0X', '0X') if False else lit.replace('0x', '0X')
                lines.append(' printf("%d %%lx %%d %%d\\n", (unsigned long)(%s), (int)sizeof(%s), (int)((__typeof__(%s))-1 < 0));' % (k, lit, lit, lit))
                exp.append('%d %x %d %d' % (k, v, m[0], int(m[1])))
                k += 1
    src = diffprog.PRELUDE + 'int main(void){\n' + '\n'.join(lines) + '\n return 0;\n}\n'
    return src, exp


# ---- (b) strings and characters
CP_POOL = [0x41, 0x7a, 0x20, 0x7e, 0x7f, 0x80, 0xa0, 0xe9, 0xff, 0x100, 0x3b1, 0x7ff, 0x800, 0xfff, 0x1000, 0x20ac, 0x3042, 0xd7ff, 0xe000, 0xfffd, 0xffff,
           0x10000, 0x10437, 0x1f600, 0x2f800, 0xfffff, 0x100000, 0x10ffff, 0x24, 0x60, 0x0391, 0x4e2d, 0xac00]
SIMPLE = [("\\n", 10), ("\\t", 9), ("\\\\", 92), ("\\'", 39), ('\\"', 34), ("\\a", 7), ("\\b", 8), ("\\f", 12), ("\\r", 13), ("\\v", 11), ("\\?", 63), ("\\0", 0), ("\\e", 27)]


def utf8(cp):
    return list(chr(cp).encode('utf-8', 'surrogatepass'))


def utf16(cp):
    if cp < 0x10000:
        return [cp]
    cp -= 0x10000
    return [0xd800 + (cp >> 10), 0xdc00 + (cp & 0x3ff)]


class Elem:
    """one piece of literal content: source spelling + code points or raw unit value"""

    def __init__(self, src, cps=None, unit=None, ends_hex=False, ends_oct=False):
        self.src, self.cps, self.unit, self.ends_hex, self.ends_oct = src, cps, unit, ends_hex, ends_oct


def gen_elems(ch, prefix, feat, n=None):
    unit_max = {'': 0xff, 'u8': 0xff, 'u': 0xffff, 'U': 0xffffffff, 'L': 0x7fffffff}[prefix]
    out = []
    for _ in range(ch.int(0, 6) if n is None else n):
        k = ch.int(0, 19)
        if k < 6:
            cp = ch.choice(CP_POOL) if ch.int(0, 9) < 8 else ch.int(0x20, 0x10ffff)
            if 0xd800 <= cp <= 0xdfff or cp in (0x22, 0x27, 0x5c, 0x7f, 0x40) or cp < 0x20:      # 0x40 '@' is the case marker of the harness
                cp = 0x41
            out.append(Elem(chr(cp), [cp]))
            if cp >= 0x80:
                feat.add('raw-utf8-%d' % len(utf8(cp)))
        elif k < 9:
            s, v = ch.choice(SIMPLE)
            out.append(Elem(s, unit=v, ends_oct=(s == '\\0')))
            feat.add('simple-escape')
        elif k < 11:
            v = ch.int(0, min(0o777, unit_max)) if ch.bool() else ch.choice([0, 7, 0o10, 0o177, 0o200, 0o377])
            v = min(v, unit_max)
            digs = oct(v)[2:]
            if ch.bool() and len(digs) < 3:
                digs = digs.rjust(ch.int(len(digs), 3), '0')
            out.append(Elem('\\' + digs, unit=v, ends_oct=len(digs) < 3))
            feat.add('octal-escape')
        elif k < 13:
            v = ch.choice([0, 1, 0x7f, 0x80, 0xff, 0x100, 0xffff, 0x10000, 0x7fffffff, 0xe9])
            v = min(v, unit_max)
            out.append(Elem('\\x%x' % v if ch.bool() else '\\x%02X' % v, unit=v, ends_hex=True))
            feat.add('hex-escape')
        elif k < 16:
            cp = ch.choice([c for c in CP_POOL if c >= 0xa0 or c in (0x24, 0x60)])
            if cp > 0xffff or ch.bool():
                out.append(Elem('\\U%08x' % cp, [cp]))
            else:
                out.append(Elem('\\u%04x' % cp if ch.bool() else '\\u%04X' % cp, [cp]))
            feat.add('ucn')
        elif k < 18:
            # an escaped backslash followed by text that would be an escape if the backslash were live
            tail = ch.choice(['u0041', 'U0001F600', 'x41', 'n', '101', 'u00e9', '"'[:0] + 't'])
            out.append(Elem('\\\\' + tail, [92] + [ord(c) for c in tail]))
            feat.add('escaped-backslash+escape-like-text')
        else:
            out.append(Elem(ch.choice(['a', 'Z', '0', '9', ' ', 'f', 'F', '7', 'u', 'x']), None))
            out[-1].cps = [ord(out[-1].src)]
    return out


def units_of(elems, prefix):
    res = []
    for e in elems:
        if e.unit is not None:
            res.append(e.unit)
        else:
            for cp in e.cps:
                if prefix in ('', 'u8'):
                    res += utf8(cp)
                elif prefix == 'u':
                    res += utf16(cp)
                else:
                    res.append(cp)
    return res


def spell_literal(ch, prefix, elems):
    """join elements into one or more adjacent literals; split where a following character would extend a hex/octal escape"""
    parts = []
    cur = ''
    prev = None
    for e in elems:
        first = e.src[0] if e.src else ''
        split = False
        if prev is not None:
            if prev.ends_hex and (first in '0123456789abcdefABCDEF'):
                split = True
            if prev.ends_oct and first in '01234567':
                split = True
        if split or (cur and ch.int(0, 9) == 0):
            parts.append(cur); cur = ''
        cur += e.src
        prev = e
    parts.append(cur)
    return parts


class C11:
    id = 'C11'
    level = 'exploration'
    rule = ('cases: (a) exhaustive sweep of integer constants: bases 2/8/10/16 x 23 suffix spellings x %d magnitudes around 2^31, 2^32, 2^63, 2^64 (value, sizeof, signedness vs the 6.4.4.1p5 '
            'model, gcc and clang); (b) generated string literals and character constants with prefixes none/u8/u/U/L whose content mixes raw UTF-8 of every length class, simple/octal/hex '
            'escapes, \\u/\\U names, escaped backslashes followed by escape-like text, split into adjacent literals (also with C11 prefix mixes); Unicode identifiers as raw UTF-8 and UCN; '
            'model = Python encoder; (c) each such program again after BOM / CR-LF / backslash-newline insertion at drawn byte positions: same output; (d) exhaustive native sweep of all '
            '1,114,112 code points through unicode.c. non-trivial = literal within 2 of a typing threshold, non-ASCII or escaped content, a concatenation or a transformed file; distinct by spelling.' % len(MAGS))
    assumptions = ['gcc/clang encodings for u8/u/U/L literals (wchar_t = int) are the reference; the Python encoder must agree with them',
                   'unsuffixed decimal constants >= 2^63 have no type in C11 and are not generated', 'binary constants (0b) are a GNU extension accepted by all three compilers']
    exhaustive = None

    def budget(self, tier):
        return 2400 if tier == 'quick' else 28000

    def gen_case(self, ch):
        feat = set()
        kind = ch.int(0, 12)
        lines = []
        exp = []
        decls = ''
        if kind < 6:
            prefix = ch.choice(['', 'u8', 'u', 'U', 'L'])
            elems = gen_elems(ch, prefix, feat)
            parts = spell_literal(ch, prefix, elems)
            # prefix mixes: an unprefixed piece next to a prefixed one takes the prefix (C11 6.4.5p5)
            pieces = []
            for i, ptxt in enumerate(parts):
                pf = prefix if (i == 0 or ch.int(0, 2)) else ''
                if prefix == '' and False:
                    pf = ''
                pieces.append('%s"%s"' % (pf, ptxt))
            if not any(pc.startswith(prefix + '"') for pc in pieces):
                pieces[0] = prefix + pieces[0].lstrip('u8UL')
            if len(pieces) > 1:
                feat.add('concatenation')
            lit = ' '.join(pieces)
            ety = {'': 'char', 'u8': 'char', 'u': 'C16', 'U': 'C32', 'L': 'WCH'}[prefix]
            esz = {'': 1, 'u8': 1, 'u': 2, 'U': 4, 'L': 4}[prefix]
            units = units_of(elems, prefix) + [0]
            mask = (1 << (8 * esz)) - 1
            form = ch.int(0, 2)
            if form == 0:
                decls = 'static %s @s[] = %s;\n' % (ety, lit)
                obj = '@s'
            elif form == 1:
                lines.append('%s s[] = %s;' % (ety, lit)); obj = 's'
            else:
                lines.append('const %s *s = %s;' % (ety, lit)); obj = 's'
            n = len(units)
            if form != 2:
                lines.append('printf("@ n %%d\\n", (int)(sizeof(%s) / sizeof(%s[0])));' % (obj, obj))
                exp.append('n %d' % n)
            lines.append('printf("@ e %%d\\n", (int)sizeof(%s[0]));' % obj)
            exp.append('e %d' % esz)
            lines.append('{ int i; printf("@ u"); for (i = 0; i < %d; i++) printf(" %%lx", (unsigned long)%s[i] & 0x%xUL); printf("\\n"); }' % (n, obj, mask))
            exp.append('u ' + ' '.join('%x' % (u & mask) for u in units))
            feat.add('str:' + (prefix or 'plain'))
        elif kind < 9:
            prefix = ch.choice(['', 'L', 'u', 'U'])
            while True:
                elems = gen_elems(ch, prefix, feat, n=1)
                u = units_of(elems, {'': 'U'}.get(prefix, prefix))
                if len(u) == 1 and elems[0].src not in ("'",) and not (prefix == '' and (u[0] > 0xff or (elems[0].cps and elems[0].cps[0] > 0x7f))) and not (prefix == 'u' and u[0] > 0xffff):
                    break
            src = elems[0].src
            if src == '"':
                src = '\\"'
            if src == "'":
                src = "\\'"
            lit = "%s'%s'" % (prefix, src)
            v = u[0]
            if prefix == '':
                v = v - 256 if v >= 128 else v       # plain char is signed; the constant has type int
                sz, sg = 4, 1
            elif prefix == 'L':
                sz, sg = 4, 1
                v = v - (1 << 32) if v >= (1 << 31) else v
            elif prefix == 'u':
                sz, sg = 2, 0
            else:
                sz, sg = 4, 0
            lines.append('printf("@ c %%ld %%d %%d\\n", (long)%s, (int)sizeof(%s), (int)((__typeof__(%s))-1 < 0));' % (lit, lit, lit))
            exp.append('c %d %d %d' % (v, sz, sg))
            feat.add('char:' + (prefix or 'plain'))
        elif kind == 10:
            # multi-character constants: type int; value as both reference compilers define it (characters packed, first one uppermost);
            # the token must end at the closing quote whatever escapes it holds
            plain = 'abcdxyzRIFW 019_+-*/#%&(){}[]<>!?.,;:~^|='
            escs = [("\\'", 39), ('\\"', 34), ('\\\\', 92), ('\\n', 10), ('\\0', 0), ('\\377', 255), ('\\012', 10), ('\\101', 65), ('"', 34)]
            n = ch.int(2, 4)
            src = ''; v = 0
            for i in range(n):
                if ch.int(0, 2) == 0:
                    e, c = ch.choice(escs) if i < n - 1 or ch.bool() else ch.choice([('\\x7f', 127), ('\\xA9', 0xa9), ('\\x0', 0)])
                    if e == '\\0' and i < n - 1:
                        e = '\\000'
                else:
                    c = ord(ch.choice(plain)); e = chr(c)
                src += e; v = ((v << 8) | c) & 0xffffffff
            v = v - (1 << 32) if v >= (1 << 31) else v
            lit = "'%s'" % src
            lines.append('printf("@ mc %%ld %%d\\n", (long)%s, (int)sizeof(%s));' % (lit, lit))
            exp.append('mc %d 4' % v)
            feat.add('multichar'); feat.add('simple-escape')
        elif kind == 12:
            # floating constants: decimal and hexadecimal spellings x suffixes; value (all bytes), size and type as gcc and clang have them
            suf = ch.choice(['', '', 'f', 'F', 'l', 'L', 'L'])
            if ch.int(0, 3) == 0:
                mant = '0x' + ''.join(ch.choice('0123456789abcdefABCDEF') for _ in range(ch.int(1, 18)))
                if ch.bool():
                    mant += '.' + ''.join(ch.choice('0123456789abcdef') for _ in range(ch.int(0, 18)))
                lim = {'f': 100, 'F': 100, '': 900, 'l': 16000, 'L': 16000}[suf]
                lit = '%s%s%s%d' % (mant, ch.choice('pP'), ch.choice(['', '+', '-']), ch.choice([0, 1, 10, 63, 64, ch.int(0, lim)]))
                feat.add('float:hex')
            else:
                ip = ''.join(ch.choice('0123456789') for _ in range(ch.int(0, 22)))
                fp = ''.join(ch.choice('0123456789') for _ in range(ch.int(0 if ip else 1, 25)))
                lit = ip + ('.' + fp if fp or ch.bool() else '')
                lim = {'f': 30, 'F': 30, '': 290, 'l': 4900, 'L': 4900}[suf]
                if ch.bool() or '.' not in lit:
                    lit += '%s%s%d' % (ch.choice('eE'), ch.choice(['', '+', '-']), ch.choice([0, 1, 5, 20, ch.int(0, lim)]))
                feat.add('float:dec')
            lit += suf
            n = {'f': 4, 'F': 4, '': 8, 'l': 10, 'L': 10}[suf]
            lines.append('{ __typeof__(%s) v = %s; unsigned char *p = (unsigned char *)&v; int i; printf("@ fc %%d %%d", (int)sizeof(%s), _Generic(%s, float: 1, double: 2, long double: 3, default: 0));'
                         ' for (i = 0; i < %d; i++) printf(" %%02x", p[i]); printf("\\n"); }' % (lit, lit, lit, lit, n))
            exp = None
            feat.add('float:suffix-' + (suf.lower() or 'none'))
        elif kind == 11:
            # a pp-number goes on through every identifier character, ASCII or not: the tail must not be macro-expanded
            tail = ch.choice(['\u00e9', '\u03b1', '\u4e2d', '$', '\U00010437', '_']) + 'zq7'
            head = ch.choice(['1', '0x1', '1.', '.5', '1e+', '0'])
            decls = '#define PSTR_(x) #x\n#define PXSTR_(x) PSTR_(x)\n#define zq7 5\n'
            lines.append('printf("@ pp %%s\\n", PXSTR_(%s%s));' % (head, tail))
            exp.append('pp %s%s' % (head, tail))
            feat.add('ppnumber-extended'); feat.add('unicode-identifier')
        else:
            # Unicode identifiers: raw UTF-8 and UCN spellings denote the same identifier
            cps = [ch.choice([0xe9, 0x3b1, 0x4e2d, 0x3042, 0xac00, 0x10437, 0x2f800, 0xc0, 0x100]) for _ in range(ch.int(1, 3))]
            raw = 'v' + ''.join(chr(c) for c in cps)
            ucn = 'v' + ''.join(('\\u%04x' % c) if c <= 0xffff else ('\\U%08x' % c) for c in cps)
            val = ch.int(1, 9999)
            lines.append('int %s = %d; printf("@ id %%d %%d\\n", %s, %s + 1);' % (raw, val, raw, ucn if ch.bool() else raw))
            exp.append('id %d %d' % (val, val + 1))
            feat.add('unicode-identifier')
        nt = (decls + ' '.join(lines)) if feat & {'concatenation', 'ucn', 'hex-escape', 'octal-escape', 'escaped-backslash+escape-like-text', 'unicode-identifier', 'raw-utf8-2', 'raw-utf8-3', 'raw-utf8-4', 'simple-escape', 'float:dec', 'float:hex'} else None
        return diffprog.Case(decls=decls, body='\n'.join('  ' + l for l in lines) + '\n', expect=exp, nt=nt, tags=sorted(feat))

    def example(self, ch, ctx):
        cases = []
        while ch.more(len(cases), 1, 30):
            cases.append(self.gen_case(ch))
        fails = diffprog.judge(ctx, cases, prelude=PRE)
        if fails:
            raise diffprog.violation_from(cases, fails[0], prelude=PRE)
        # (c) metamorphic transformations of the same unit: the chibicc build must print exactly what the untransformed one printed
        src = diffprog.unit_source(cases, None, PRE)
        data = src.encode('utf-8')
        tr = ch.int(0, 3)
        feat = []
        if tr in (0, 3):
            # positions are drawn on the original text and applied at once (a splice is never put inside another splice)
            cuts = set()
            for _ in range(ch.int(1, 40)):
                pos = ch.int(0, len(data))
                # do not split a multi-byte UTF-8 sequence: that is not a boundary between source characters
                while pos < len(data) and (data[pos] & 0xc0) == 0x80:
                    pos += 1
                cuts.add(pos)
            out = bytearray()
            for i in range(len(data) + 1):
                if i in cuts:
                    out += b'\\\n'
                if i < len(data):
                    out.append(data[i])
            data = bytes(out)
            feat.append('splices')
        if tr in (1, 3):
            data = data.replace(b'\n', b'\r\n')
            feat.append('crlf')
        if tr in (2, 3):
            data = b'\xef\xbb\xbf' + data
            feat.append('bom')
        d = ctx.fresh_dir()
        try:
            a = os.path.join(d, 'a.c'); b = os.path.join(d, 'b.c')
            open(a, 'w').write(src); open(b, 'wb').write(data)
            ra = diffprog.compile_with(ctx.tree, 'chibicc', a, os.path.join(d, 'a.exe'))
            rb = diffprog.compile_with(ctx.tree, 'chibicc', b, os.path.join(d, 'b.exe'))
            ctx.stats.case(core.shash(data), sample=None)
            for f in feat:
                ctx.stats.tag('transform:' + f)
            if ra.rc == 0:
                oa = core.run([os.path.join(d, 'a.exe')], timeout=10).out
                ob = core.run([os.path.join(d, 'b.exe')], timeout=10).out if rb.rc == 0 else 'COMPILE-FAIL ' + diffprog.errsum(rb.err)
                if oa != ob:
                    # confirm with a reference: gcc must accept the transformed file and print the same as for the original
                    rg = diffprog.compile_with(ctx.tree, 'gcc', b, os.path.join(d, 'g.exe'))
                    if rg.rc == 0 and core.run([os.path.join(d, 'g.exe')], timeout=10).out == oa:
                        rep = {'kind': 'transform', 'original': src, 'transformed_latin1': data.decode('latin1'), 'signature': core.shash(data)}
                        raise core.Violation(rep, 'program changes meaning under %s: original prints %r, transformed %r' % ('+'.join(feat), oa[:300], ob[:300]))
                    ctx.stats.count('transform_ref_reject')
        finally:
            shutil.rmtree(d, ignore_errors=True)

    def replay(self, tree, rep, wd):
        if rep.get('kind') == 'transform':
            a = os.path.join(wd, 'a.c'); b = os.path.join(wd, 'b.c')
            open(a, 'w').write(rep['original']); open(b, 'wb').write(rep['transformed_latin1'].encode('latin1'))
            ra = diffprog.compile_with(tree, 'chibicc', a, os.path.join(wd, 'a.exe'))
            rb = diffprog.compile_with(tree, 'chibicc', b, os.path.join(wd, 'b.exe'))
            if ra.rc != 0:
                return False, 'original does not compile'
            oa = core.run([os.path.join(wd, 'a.exe')], timeout=10).out
            ob = core.run([os.path.join(wd, 'b.exe')], timeout=10).out if rb.rc == 0 else 'COMPILE-FAIL ' + diffprog.errsum(rb.err)
            return (oa != ob), 'original %r transformed %r' % (oa[:200], ob[:200])
        if rep.get('kind') == 'sweep':
            return sweep_replay(tree, rep, wd)
        if rep.get('kind') == 'unicode':
            ok, out = run_unicode(tree, wd)
            return (not ok), out[:400]
        return diffprog.replay(tree, rep, wd)

    def extra(self, tree, tier, stats, top):
        viols = []
        # (a) integer constant sweep
        src, exp = int_sweep_source()
        d = os.path.join(top, 'c11x'); os.makedirs(d, exist_ok=True)
        p = os.path.join(d, 'ints.c'); open(p, 'w').write(src)
        outs = {}
        for comp in ('gcc', 'clang', 'chibicc'):
            r = diffprog.compile_with(tree, comp, p, os.path.join(d, comp + '.exe'))
            outs[comp] = core.run([os.path.join(d, comp + '.exe')], timeout=30).out.split('\n')[:-1] if r.rc == 0 else ['COMPILE-FAIL ' + diffprog.errsum(r.err)]
        if outs['gcc'] != exp or outs['clang'] != exp:
            stats.count('int_sweep_model_disagree')
            bad = [(e, g) for e, g in zip(exp, outs['gcc']) if e != g][:3]
            stats.samples.append({'int_sweep_model_disagree': bad})
        else:
            stats.evaluations += len(exp)
            stats.count('integer_constant_spellings', len(exp))
            for e in exp:
                stats.nt.add(core.shash('int' + e))
            if outs['chibicc'] != exp:
                diffs = [(e, o) for e, o in itertools.zip_longest(exp, outs['chibicc']) if e != o][:5]
                viols.append(({'kind': 'sweep', 'source': src, 'signature': 'int-sweep'}, 'integer constant sweep: (expected, observed) %r' % diffs))
        # (d) unicode.c exhaustive
        ok, out = run_unicode(tree, d)
        if ok:
            stats.evaluations += 1114112
            stats.count('unicode_code_points_exhaustive', 1114112)
        else:
            viols.append(({'kind': 'unicode', 'signature': 'unicode-exh'}, 'unicode.c exhaustive harness: ' + out[:500]))
        return viols


def run_unicode(tree, d):
    exe = os.path.join(d, 'uexh')
    r = core.run(['gcc', '-O1', '-w', '-I' + tree.dir, '-o', exe, os.path.join(core.VERIF, 'native', 'unicode_exh.c'), os.path.join(tree.dir, 'unicode.c')], timeout=120, as_mb=0)
    if r.rc != 0:
        return False, 'cannot build harness: ' + r.err[-300:]
    rr = core.run([exe], timeout=120)
    return (rr.rc == 0 and rr.out.startswith('OK')), rr.out


def sweep_replay(tree, rep, wd):
    p = os.path.join(wd, 's.c'); open(p, 'w').write(rep['source'])
    outs = {}
    for comp in ('gcc', 'chibicc'):
        r = diffprog.compile_with(tree, comp, p, os.path.join(wd, comp + '.exe'))
        outs[comp] = core.run([os.path.join(wd, comp + '.exe')], timeout=30).out if r.rc == 0 else 'COMPILE-FAIL'
    if outs['gcc'] != outs['chibicc']:
        a, b = outs['gcc'].split('\n'), outs['chibicc'].split('\n')
        return True, 'differing lines: %r' % [(x, y) for x, y in itertools.zip_longest(a, b) if x != y][:5]
    return False, 'agree'


CHECK = C11()
