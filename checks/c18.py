"""C18 Source positions survive preprocessing.

A file is a drawn sequence of line items (blank lines, // and multi-line /* */ comments, backslash-newlines between and
inside tokens, multi-line macro definitions, includes of generated headers, #line, optional CR/LF, optional filler to
push the file over several read-buffer sizes) with probes: __LINE__/__FILE__ directly and through object-like and
function-like macros, marker calls whose .loc record is read from -S, and (in a separate run) one deliberate error
token whose diagnostic must name the right file and physical line.
Oracle: the generator's own count of physical lines, cross-checked by gcc and clang for __LINE__/__FILE__."""
import os, re, shutil
from vlib import core, pptok


class FileGen:
    def __init__(self, ch, cnt, excl, depth, name, files, top):
        self.ch, self.cnt, self.excl, self.depth, self.name, self.files = ch, cnt, excl, depth, name, files
        self.lines = []
        self.probes = []      # (id, kind, expected) kind: 'line' -> int, 'file' -> basename, 'loc' -> (basename, line)
        self.feat = set()
        self.top = top
        self.line_delta_zone = None   # after a #line: (presumed line of next physical line, physical index)
        self.presumed_name = None
        self.err_sites = []   # physical lines where a bad token can be placed on a line of its own

    def add(self, txt):
        self.lines.append(txt)

    def n(self):
        self.cnt[0] += 1
        return self.cnt[0]

    def cur_line(self):
        return len(self.lines) + 1

    def item(self):
        ch = self.ch
        k = ch.int(0, 99)
        n = self.n()
        if k < 10:
            for _ in range(ch.int(1, 3)):
                self.add('')
            self.feat.add('blank')
        elif k < 17:
            self.add('// comment ' + 'x' * ch.int(0, 5))
        elif k < 27:
            m = ch.int(2, 4)
            self.add('/* c%d' % n)
            for _ in range(m - 2):
                self.add(' mid')
            self.add(' end */' + (' int after_c%d;' % n if ch.bool() else ''))
            self.feat.add('multiline-comment')
        elif k < 37:
            parts = ['int', 's%d' % n, '=', str(n), ';']
            cut = sorted(ch.sample(range(1, 5), ch.int(1, 3)))
            cur = ''
            for i, p in enumerate(parts):
                if i in cut:
                    self.add(cur + ' \\')
                    cur = ' ' + p
                else:
                    cur += (' ' if cur else '') + p
            self.add(cur)
            self.feat.add('splice-between-tokens')
        elif k < 42:
            self.add('int lo\\')
            self.add('ng_%d;' % n)
            self.feat.add('splice-inside-token')
        elif k < 47:
            self.add('// line comment continued \\')
            self.add('still comment %d' % n)
            self.feat.add('splice-in-comment')
        elif k < 54:
            self.add('#define M%d(x) \\' % n)
            self.add('  (x + \\')
            self.add('   %d)' % n)
            self.feat.add('multiline-define')
        elif k < 62 and self.depth > 0:
            hn = 'h%d.h' % n
            sub = FileGen(ch, self.cnt, self.excl, self.depth - 1, hn, self.files, False)
            sub.build(ch.int(2, 9))
            self.files[hn] = sub.text()
            self.probes += sub.probes
            self.feat |= sub.feat
            self.feat.add('include')
            self.add('#include "%s"' % hn)
        elif k < 66 and self.top and self.line_delta_zone is None:
            # #line: absolute values afterwards are D48 (recorded); distances and __FILE__ stay checked
            newl = ch.choice([1, 100, 500, 7, 2147483])
            nm = ch.choice([None, 'renamed_%d.c' % n])
            self.add('#line %d%s' % (newl, (' "%s"' % nm) if nm else ''))
            self.line_delta_zone = len(self.lines)
            self.presumed_name = nm
            self.feat.add('#line')
        elif k < 72:
            # a function with marker calls: .loc records
            ln0 = self.cur_line()
            self.add('static void fn%d(void) {' % n)
            for j in range(ch.int(1, 3)):
                if ch.int(0, 3) == 0:
                    self.add('')
                mk = 700000 + self.n()
                self.probes.append(('L%d' % mk, 'loc', (self.name, self.cur_line(), self.line_delta_zone is not None)))
                self.add('  mark(%d);' % mk)
            self.add('}')
            self.feat.add('loc-probe')
        else:
            form = ch.choice(['direct', 'obj', 'fn', 'file', 'after-splice', 'two'])
            ln = self.cur_line()
            if form == 'direct':
                self.add('int p%d = __LINE__;' % n)
            elif form == 'obj':
                self.add('int p%d = LN;' % n)
            elif form == 'fn':
                self.add('int p%d = ID(__LINE__);' % n)
            elif form == 'after-splice':
                # the probe sits on its own physical line right after a spliced logical line
                self.add('int t%d \\' % n)
                self.add(' = 0;')
                ln = self.cur_line()
                self.add('int p%d = __LINE__;' % n)
                self.feat.add('probe-after-splice')
            elif form == 'two':
                self.add('int p%d = __LINE__; int q%d = ID(LN);' % (n, n))
                self.probes.append(('q%d' % n, 'line', (self.name, ln, self.line_delta_zone is not None)))
            else:
                self.add('char *f%d = __FILE__; int p%d = __LINE__;' % (n, n))
                self.probes.append(('f%d' % n, 'file', self.presumed_name or self.name))
            self.probes.append(('p%d' % n, 'line', (self.name, ln, self.line_delta_zone is not None)))
            self.err_sites.append(self.cur_line())

    def build(self, nitems):
        for _ in range(nitems):
            self.item()

    def text(self):
        return '\n'.join(self.lines) + '\n'


class C18:
    id = 'C18'
    level = 'exploration'
    rule = ('cases = a main file plus nested generated headers, each a sequence of line items (blank lines, // and multi-line comments, splices between tokens / inside identifiers / '
            'inside // comments, multi-line #define, #include, #line N ["name"], functions with marker calls), optional LF->CR/LF conversion and optional comment filler that pushes '
            'the file over 4-12 KiB; probes: __LINE__ direct / via object-like / via function-like macro, __FILE__, .loc records of marker calls read from -S, and one deliberate error '
            'token per case whose diagnostic must name file and physical line. Oracle: physical line counted by the generator, cross-checked by gcc and clang. '
            'non-trivial = probe preceded by a splice, multi-line comment, include, CR/LF or #line; distinct by item-sequence hash.')
    assumptions = ['D40 (tokens on continuation lines carry the logical line number) recorded: no probe token is placed on a continuation line; probes after spliced lines stay in',
                   'D48 (#line N numbers the following line N+1; pinned by test/line.c) recorded: after #line only distances between probes and __FILE__ are checked',
                   '__FILE__ compared by base name (spelling of the path prefix differs legitimately between compilers)']
    excl = {'D40': 0, 'D48': 0}

    def budget(self, tier):
        return 2600 if tier == 'quick' else 30000

    def one(self, ch, ctx):
        st = ctx.stats
        files = {}
        cnt = [0]
        g = FileGen(ch, cnt, self.excl, 2, 'main.c', files, True)
        g.lines = ['#define LN __LINE__', '#define ID(x) x', 'void mark(int);']
        g.build(ch.int(3, 14))
        crlf = ch.int(0, 9) < 3
        big = ch.int(0, 9) < 3
        if big:
            # filler comment lines of drawn lengths: moves every later byte offset (read-buffer boundaries) without touching line numbers' meaning
            pos = ch.int(0, max(0, len(g.lines) - 1)) if False else 3
            filler = ['// ' + 'f' * ch.int(0, 90) for _ in range(ch.int(60, 260))]
            g.lines[3:3] = filler
            shift = len(filler)
            g.probes = [(pid, kind, ((e[0], e[1] + shift, e[2]) if (kind in ('line', 'loc') and e[0] == 'main.c') else e)) for pid, kind, e in g.probes]
            g.err_sites = [l + shift for l in g.err_sites]
            g.feat.add('big-file')
        if crlf:
            g.feat.add('crlf')
        files['main.c'] = g.text()
        err_site = ch.choice(g.err_sites) if (g.err_sites and '#line' not in g.feat) else None
        crlf_hdrs = sorted(nm for nm in files if nm != 'main.c' and crlf and ch.bool())
        key = core.shash(repr(sorted(files.items())) + str(crlf))
        nt = key if (g.feat & {'splice-between-tokens', 'splice-inside-token', 'splice-in-comment', 'multiline-comment', 'include', '#line', 'crlf', 'probe-after-splice', 'multiline-define'}) else None
        rep = {'kind': 'pos', 'files': files, 'crlf': crlf, 'crlf_hdrs': crlf_hdrs, 'probes': [[a, b, c] for a, b, c in g.probes], 'err_site': err_site, 'signature': key}
        d = ctx.fresh_dir()
        try:
            status, bad = evaluate(ctx.tree, rep, d, st, self.excl)
        finally:
            shutil.rmtree(d, ignore_errors=True)
        if status != 'ok':
            return
        for f in g.feat:
            st.tag(f)
        st.case(nt, sample=({'main.c': files['main.c'][:700], 'probes': rep['probes'][:8]} if len(st.samples) < 2 else None))
        if bad:
            raise core.Violation(rep, bad + '\n--- main.c ---\n' + files['main.c'][:3000])

    def example(self, ch, ctx):
        n = 0
        while ch.more(n, 1, 6):
            self.one(ch, ctx)
            n += 1
        for k, v in self.excl.items():
            ctx.stats.counters['excluded_by_known_finding:' + k] = v

    def replay(self, tree, rep, wd):
        if rep.get('kind') == 'posfinding':
            return finding_replay(tree, rep, wd)
        status, bad = evaluate(tree, rep, wd, core.Stats(), {'D40': 0, 'D48': 0})
        if status != 'ok':
            return False, 'not decidable: ' + status
        return (True, bad) if bad else (False, 'all position probes agree')


def parse_probes(out):
    got = {}
    for m in re.finditer(r'(?:int|char \*) ?([pqf]\d+) = ("[^"]*"|\d+)', out.replace('\n', ' ')):
        got[m.group(1)] = m.group(2)
    return got


def evaluate(tree, rep, d, st, excl):
    """returns (status, bad): status 'ok' | 'ref_reject' | 'model_disagree'; bad = description of a violation or None"""
    files, crlf = rep['files'], rep['crlf']
    for name, content in files.items():
        data = content.replace('\n', '\r\n') if (crlf and (name == 'main.c' or name in rep.get('crlf_hdrs', []))) else content
        with open(os.path.join(d, name), 'w', newline='') as f:
            f.write(data)
    exp = {}
    after_line = {}
    for pid, kind, e in rep['probes']:
        if kind == 'line':
            exp[pid] = str(e[1]); after_line[pid] = e[2]
        elif kind == 'file':
            exp[pid] = e
    rg = core.run(['gcc', '-E', '-P', '-w', 'main.c'], cwd=d, timeout=5)
    rc_ = core.run(['clang', '-E', '-P', '-w', 'main.c'], cwd=d, timeout=5)
    if rg.rc != 0 or rc_.rc != 0:
        st.count('ref_reject')
        return 'ref_reject', None
    refg, refc = parse_probes(rg.out), parse_probes(rc_.out)
    ok_ids = []
    for pid, v in exp.items():
        a, b = refg.get(pid), refc.get(pid)
        if a != b and not (a and b and a.startswith('"') and os.path.basename(a.strip('"')) == os.path.basename(b.strip('"'))):
            st.count('ref_disagree_probe')
            continue
        if v.isdigit():
            if after_line.get(pid):
                ok_ids.append(pid)
                continue
            if a != v:
                st.count('model_disagree')
                if st.counters['model_disagree'] <= 3:
                    st.samples.append({'model_disagree': (pid, v, a), 'main': files['main.c'][:1500]})
                return 'model_disagree', None
        else:
            if a is None or os.path.basename(a.strip('"')) != os.path.basename(v):
                st.count('model_disagree')
                return 'model_disagree', None
        ok_ids.append(pid)
    rx = core.run([tree.cc, '-E', 'main.c'], cwd=d, timeout=10)
    if rx.timeout or rx.rc != 0:
        return 'ok', 'chibicc -E fails: rc=%s %s' % (rx.rc, rx.err.strip().split('\n')[-1][-200:])
    got = parse_probes(rx.out)
    dist_ref = None
    for pid in ok_ids:
        v = exp[pid]
        x = got.get(pid)
        if v.isdigit():
            if after_line.get(pid):
                excl['D48'] = excl.get('D48', 0) + 1
                if x is None or not x.isdigit():
                    return 'ok', 'probe %s missing' % pid
                dd = int(x) - int(refg[pid])
                if dist_ref is None:
                    dist_ref = dd
                if dd != dist_ref or dd not in (0, 1):
                    return 'ok', '__LINE__ after #line: probe %s: chibicc %s, references %s (offset %d, earlier probes offset %s)' % (pid, x, refg[pid], dd, dist_ref)
            elif x != v:
                return 'ok', '__LINE__ probe %s: expected physical line %s, chibicc says %s' % (pid, v, x)
        else:
            if x is None or os.path.basename(x.strip('"')) != os.path.basename(v):
                return 'ok', '__FILE__ probe %s: expected %s, chibicc says %s' % (pid, v, x)
    if any(k == 'loc' for _, k, _ in rep['probes']):
        rs = core.run([tree.cc, '-S', '-o', '-', 'main.c'], cwd=d, timeout=10)
        if rs.rc != 0 or rs.timeout:
            return 'ok', 'chibicc -S fails: %s' % rs.err.strip().split('\n')[-1][-200:]
        fno = {}; cur = None; seen = {}
        for l in rs.out.split('\n'):
            m = re.match(r'\s*\.file (\d+) "(.*)"', l)
            if m:
                fno[m.group(1)] = os.path.basename(m.group(2))
            m = re.match(r'\s*\.loc (\d+) (\d+)', l)
            if m:
                cur = (fno.get(m.group(1)), int(m.group(2)))
            m = re.match(r'\s*mov \$(7\d{5}), %rax', l)
            if m and m.group(1) not in seen:
                seen[m.group(1)] = cur
        for pid, kind, e in rep['probes']:
            if kind != 'loc':
                continue
            fn, ln, aft = e
            g_ = seen.get(pid[1:])
            st.count('loc_probes')
            if aft:
                # after #line the absolute value is D48's subject, but debug records must number lines the way __LINE__ does:
                # extrapolate from a __LINE__ probe of the same file in the same #line zone
                base = [(int(got[q]), e2[1]) for q, k2, e2 in rep['probes'] if k2 == 'line' and e2[0] == fn and e2[2] and got.get(q, '').isdigit() and q in ok_ids]
                if base and g_ is not None:
                    want = base[0][0] + (ln - base[0][1])
                    st.count('loc_probes_after_#line')
                    if g_[1] != want:
                        return 'ok', '.loc record of mark(%s) after #line: __LINE__ numbering gives line %d, the record says %s' % (pid[1:], want, g_)
                continue
            if g_ is None or g_[0] != fn or g_[1] != ln:
                return 'ok', '.loc record of mark(%s): expected %s:%d, got %s' % (pid[1:], fn, ln, g_)
    site = rep.get('err_site')
    if site is not None:
        ls = files['main.c'].split('\n')
        ls.insert(site - 1, 'int bad_token_here = ;')     # becomes physical line `site`, right after a probe line
        txt = '\n'.join(ls)
        with open(os.path.join(d, 'err.c'), 'w', newline='') as f:
            f.write(txt.replace('\n', '\r\n') if crlf else txt)
        re_ = core.run([tree.cc, '-cc1', '-cc1-input', 'err.c', '-cc1-output', '/dev/null', 'err.c'], cwd=d, timeout=10)
        st.count('diagnostic_probes')
        m = re.search(r'^err\.c:(\d+):', re_.err, re.M)
        if re_.rc != 1 or not m:
            return 'ok', 'deliberate error at err.c:%d not diagnosed with a location: rc=%s %r' % (site, re_.rc, re_.err[:200])
        if int(m.group(1)) != site:
            return 'ok', 'diagnostic names line %s, the offending token is on physical line %d' % (m.group(1), site)
    return 'ok', None


def finding_replay(tree, rep, wd):
    """recorded findings D40/D48: a source with __LINE__ probes; violates if chibicc's values differ from gcc's."""
    p = os.path.join(wd, 'f.c')
    open(p, 'w').write(rep['source'])
    rg = core.run(['gcc', '-E', '-P', '-w', 'f.c'], cwd=wd, timeout=5)
    rx = core.run([tree.cc, '-E', 'f.c'], cwd=wd, timeout=10)
    a, b = pptok.lex(rg.out), pptok.lex(rx.out)
    if a != b:
        return True, 'expected %s\nobserved %s' % (' '.join(a), ' '.join(b))
    return False, 'agree'


CHECK = C18()
