"""C07 Translation-time constant evaluation equals run-time evaluation.

Each generated constant expression E (literals of every integer type, casts, enumeration constants,
all operators) is placed in a constant context; its run-time twin (same tree, every literal read from a
volatile object) is evaluated next to it in the same program.  Oracles: constant == run-time inside the
chibicc-compiled program, the integer model, and the gcc/clang consensus."""
import os
from vlib import core, diffprog, igen
from vlib.igen import TYPES, INT, UINT, LONG, ULONG, BOOL, conv, common, lit

CONTEXTS = ['static-init', 'array-bound', 'case-label', 'enumerator', 'bitfield-width', 'alignas', 'designator',
            'static-local', 'fp-static', 'sizeof-array-param', 'global-array-of-struct', 'fp-mixed']
FTYPES = [('float', 'f'), ('double', ''), ('long double', 'L')]


def ux(v):
    return '%x' % conv(v, ULONG)


FLITS = [('0.0', 0.0), ('0.5', 0.5), ('0.2', 0.2), ('0.7', 0.7), ('1.5', 1.5), ('1.2', 1.2), ('2.5', 2.5), ('0.75', 0.75), ('3.0', 3.0), ('0.1', 0.1), ('1e10', 1e10), ('16777217.0', 16777217.0),
         ('4294967296.0', 4294967296.0), ('9223372036854775808.0', 9223372036854775808.0), ('0.999', 0.999), ('1e-3', 1e-3), ('255.9', 255.9)]
ILITS = [('0', 0), ('1', 1), ('2', 2), ('-1', -1), ('7', 7), ('2147483647', 2147483647), ('4294967295U', 4294967295), ('9223372036854775807L', 9223372036854775807),
         ('18446744073709551615UL', 18446744073709551615), ('0x8000000000000800UL', 0x8000000000000800), ('16777217', 16777217)]
FSUF = [('float', 'f'), ('double', ''), ('long double', 'L')]
ICAST = [('int', -2e9, 2e9), ('long', -9e18, 9e18), ('unsigned long', 0.0, 1.8e19), ('unsigned char', 0.0, 255.0), ('unsigned', 0.0, 4.2e9), ('short', -32000.0, 32000.0)]


class FGen:
    """Floating and mixed integer/floating constant expressions.  Every leaf is a literal; the run-time twin reads the
    same literal from a volatile object.  An approximate value (Python float) is tracked only to keep conversions to
    integer types inside the range where C11 6.3.1.4 defines them and to keep magnitudes finite."""

    def __init__(self, ch):
        self.ch = ch
        self.vars = []          # (name, ctype, literal text)
        self.feat = set()
        self.unc = set()        # texts of subexpressions whose tracked value is only a bound (truth values the generator does not compute)

    def leaf(self):
        ch = self.ch
        n = '@fv%d' % len(self.vars)
        if ch.int(0, 9) < 7:
            txt, v = ch.choice(FLITS)
            ft, suf = ch.choice(FSUF)
            if ft == 'float' and txt in ('16777217.0', '0.1', '0.2', '0.7', '1.2', '0.999', '255.9'):
                self.feat.add('inexact-float-literal')
            self.vars.append((n, ft, txt + suf))
            return txt + suf, n, 'f', v
        txt, v = ch.choice(ILITS)
        ct = 'unsigned long' if 'UL' in txt else ('long' if txt.endswith('L') else ('unsigned' if txt.endswith('U') else 'int'))
        self.vars.append((n, ct, txt))
        self.feat.add('int-leaf' + ('>=2^63' if v >= 2 ** 63 else ''))
        return '(%s)' % txt if v < 0 else txt, n, 'i', float(v)

    def expr(self, d):
        r = self.expr1(d)
        # a value built from an uncertain operand is uncertain (the operands of this call are the texts added since `before`)
        if any(u in r[0] for u in self.unc):
            self.unc.add(r[0])
        return r

    def expr1(self, d):
        ch = self.ch
        if d <= 0 or ch.int(0, 9) < 2:
            return self.leaf()
        r = ch.int(0, 99)
        if r < 30:
            a = self.expr(d - 1); b = self.expr(d - 1)
            if a[2] == 'i' and b[2] == 'i':
                a = ('(double)' + a[0], '(double)' + a[1], 'f', a[3])
            op = ch.choice(['+', '-', '*', '/'])
            if op == '/' and (abs(b[3]) < 1e-6 or b[0] in self.unc):
                op = '+'          # a divisor that may be zero would make the value inf or NaN: conversions and NaN signs are then not defined alike at translation and run time
            if op == '*' and abs(a[3]) * abs(b[3]) > 1e30:
                op = '-'
            v = {'+': a[3] + b[3], '-': a[3] - b[3], '*': a[3] * b[3], '/': (a[3] / b[3]) if op == '/' else 0.0}[op]
            self.feat.add('fp' + op)
            return '(%s %s %s)' % (a[0], op, b[0]), '(%s %s %s)' % (a[1], op, b[1]), 'f', v
        if r < 55:
            a = self.expr(d - 1); b = self.expr(d - 1)
            op = ch.choice(['<', '<=', '>', '>=', '==', '!='])
            if a[2] == 'i' and b[2] == 'i':
                b = ('(float)' + b[0], '(float)' + b[1], 'f', b[3])
            close = abs(a[3] - b[3]) <= 1e-6 * max(abs(a[3]), abs(b[3]), 1.0)
            self.feat.add('cmp' + op + (':operands-within-1-of-each-other' if abs(a[3] - b[3]) < 1 else ''))
            v = None if close else float({'<': a[3] < b[3], '<=': a[3] <= b[3], '>': a[3] > b[3], '>=': a[3] >= b[3], '==': False, '!=': True}[op])
            if v is None:
                self.unc.add('(%s %s %s)' % (a[0], op, b[0]))
            return '(%s %s %s)' % (a[0], op, b[0]), '(%s %s %s)' % (a[1], op, b[1]), 'i', (0.5 if v is None else v)
        if r < 65:
            a = self.expr(d - 1)
            self.feat.add('!' + a[2])
            self.unc.add('(!%s)' % a[0])
            return '(!%s)' % a[0], '(!%s)' % a[1], 'i', 0.5
        if r < 77:
            a = self.expr(d - 1); b = self.expr(d - 1)
            op = ch.choice(['&&', '||'])
            self.feat.add(op + a[2] + b[2])
            self.unc.add('(%s %s %s)' % (a[0], op, b[0]))
            return '(%s %s %s)' % (a[0], op, b[0]), '(%s %s %s)' % (a[1], op, b[1]), 'i', 0.5
        if r < 87:
            c = self.expr(d - 1); a = self.expr(d - 1); b = self.expr(d - 1)
            self.feat.add('?:cond-' + c[2])
            k = 'f' if 'f' in (a[2], b[2]) else 'i'
            v = a[3] if abs(a[3]) >= abs(b[3]) else b[3]          # bound used for range decisions: the larger magnitude
            if k == 'i' and (a[3] < 0 or b[3] < 0):
                v = -abs(v)
            self.unc.add('(%s ? %s : %s)' % (c[0], a[0], b[0]))          # only a bound is tracked
            return '(%s ? %s : %s)' % (c[0], a[0], b[0]), '(%s ? %s : %s)' % (c[1], a[1], b[1]), k, v
        if r < 92:
            a = self.expr(d - 1)
            return '(-%s)' % a[0], '(-%s)' % a[1], a[2], -a[3]
        a = self.expr(d - 1)
        if a[2] == 'f' and ch.bool() and a[0] not in self.unc:      # a value that is only bounded may cancel against another one: no sound range
            cands = [(t, lo, hi) for t, lo, hi in ICAST if lo <= a[3] <= hi and (lo <= -a[3] <= hi or lo == 0.0 and a[3] >= 0)]
            # '?:' and comparison results carry only a bound, so the cast must be defined for every value of smaller magnitude
            cands = [c for c in cands if not (c[1] == 0.0 and '?' in a[0] and '-' in a[0])]
            if cands:
                t, lo, hi = ch.choice(cands)
                self.feat.add('cast:fp->' + t)
                return '((%s)%s)' % (t, a[0]), '((%s)%s)' % (t, a[1]), 'i', float(int(a[3])) if abs(a[3]) < 1e18 else a[3]
        ft, _ = ch.choice(FSUF)
        self.feat.add('cast:%s->%s' % (a[2], ft))
        return '((%s)%s)' % (ft, a[0]), '((%s)%s)' % (ft, a[1]), 'f', a[3]


class C07:
    id = 'C07'
    level = 'exploration'
    rule = ('cases = integer constant expressions (depth<=D; all 9 integer types, every operator, casts, enum and character constants) and, in one case of five, floating and mixed integer/floating constant expressions (arithmetic, comparisons, !, &&, ||, ?:, casts in both directions over float/double/long double literals and integer literals up to 2^64-1; conversions to integer types only where 6.3.1.4 defines them) '
            'placed in one of %d constant contexts, each next to its run-time twin (literals replaced by volatile reads); '
            'oracle: const == run-time, == integer model, == gcc/clang consensus; plus negative cases (division by zero in every context '
            'must be a located diagnostic). non-trivial = expression contains a value-changing conversion, mixed-type operator, shift, or boundary operand; '
            'distinct by (operator/type features, context).' % len(CONTEXTS))
    assumptions = ['gcc/clang -O0 fold constant expressions per C11', 'conversion of out-of-range values to signed types is modulo 2^N (both references)']

    def budget(self, tier):
        return 1300 if tier == 'quick' else 15000

    def gen_case(self, ch, depth):
        g = igen.Gen(ch, allow_side=False, allow_ptr=False, allow_comma=False)
        if ch.int(0, 4) == 0:
            return self.gen_fp_case(ch, depth)
        c = ch.int(0, len(CONTEXTS) - 2)
        e = g.expr(ch.int(1, depth))
        C, Rt = e.ctxt, e.txt
        decls = ''
        # enumeration constants used by the expression must be visible at file scope too
        for n, v in g.enums:
            decls += 'enum { %s = %s };\n' % (n, '(-2147483647-1)' if v == -2147483648 else str(v))
        loc = ''.join('  volatile %s %s = %s;\n' % (t.name, n, lit(t, v)) for n, t, v in g.vars)
        body = loc
        exp = []
        if c == 0 or c == 7:
            t = ch.choice(TYPES)
            if c == 0:
                decls += 'static %s @x = %s;\n' % (t.name, C) if ch.bool() else '%s @x = %s;\n' % (t.name, C)
            else:
                body += '  static %s @x = %s;\n' % (t.name, C)
            body += '  { %s r = %s; printf("@ %%lx %%lx\\n", (unsigned long)@x, (unsigned long)r); }\n' % (t.name, Rt)
            v = conv(e.v, t)
            exp.append('%s %s' % (ux(v), ux(v)))
            g.feat.add('sinit:%s' % t.short)
        elif c == 1:
            decls += 'static char @a[(unsigned char)(%s) + 1];\n' % C
            body += '  { char b[(unsigned char)(%s) + 1]; printf("@ %%d %%d %%d\\n", (int)sizeof(@a), (int)sizeof(b), (int)((unsigned char)(%s) + 1)); }\n' % (C, Rt)
            v = conv(e.v, igen.UCHAR) + 1
            exp.append('%d %d %d' % (v, v, v))
        elif c == 2:
            body += ('  { long x = (long)(%s); int hit = 0; switch (x) { case 0x7ffffffffffffff1: hit = 2; break; case %s: hit = 1; break; default: hit = 0; }\n'
                     '    int hit2 = 0; switch (x ^ 1) { case %s: hit2 = 1; break; default: hit2 = 0; }\n'
                     '    printf("@ %%d %%d\\n", hit, hit2); }\n') % (Rt, C, C)
            if conv(e.v, LONG) == 0x7ffffffffffffff1:
                return None
            exp.append('1 0')
        elif c == 3:
            decls += 'enum { @K = (int)(%s), @K2 };\n' % C
            v = conv(e.v, INT)
            if v == INT.max():
                decls = decls.replace(', @K2', '')
                body += '  printf("@ %%d %%d\\n", @K, (int)(%s));\n' % Rt
                exp.append('%d %d' % (v, v))
            else:
                body += '  printf("@ %%d %%d %%d\\n", @K, @K2, (int)(%s));\n' % Rt
                exp.append('%d %d %d' % (v, v + 1, v))
        elif c == 4:
            decls += 'struct @S { unsigned long f : ((%s) & 63) + 1; unsigned long g : 3; };\n' % C
            body += ('  { struct @S s; memset(&s, 0, sizeof s); s.f = -1; int w = 0; unsigned long q = s.f; while (q) { w++; q >>= 1; }\n'
                     '    printf("@ %%d %%d %%d\\n", w, (int)(((%s) & 63) + 1), (int)s.g); }\n') % Rt
            w = (conv(e.v, common(e.t, INT)) & 63) + 1
            exp.append('%d %d 0' % (w, w))
        elif c == 5:
            decls += 'struct @S { char a; _Alignas(1 << ((%s) & 3)) char b; char c; };\n' % C
            body += '  printf("@ %%d %%d %%d\\n", (int)(unsigned long)&(((struct @S *)0)->b), (int)sizeof(struct @S), (int)(1 << ((%s) & 3)));\n' % Rt
            al = 1 << (conv(e.v, common(e.t, INT)) & 3)
            exp.append('%d %d %d' % (al, 2 * al if al > 1 else 3, al))
        elif c == 6:
            decls += 'static int @a[16] = { 1, 2, [(%s) & 15] = 7, 8 };\n' % C
            body += ('  { int b[17] = { [(%s) & 15] = 7, 8 }; int i, p = -1, q = -1; for (i = 0; i < 16; i++) { if (@a[i] == 7) p = i; if (b[i] == 7) q = i; }\n'
                     '    printf("@ %%d %%d %%d %%d\\n", p, q, (int)((%s) & 15), b[q + 1]); }\n') % (C, Rt)
            k = conv(e.v, common(e.t, INT)) & 15
            if k == 15:
                return None   # the positional item after it would be excess for the static array
            exp.append('%d %d %d 8' % (k, k, k))
        elif c == 8:
            ft, suf = ch.choice(FTYPES)
            op = ch.choice(['+', '-', '*', '/'])
            k = ch.choice(['0.5', '3.0', '1.25', '1e10', '0.1', '7.0'])
            fe_c = '((%s)(%s) %s %s%s)' % (ft, C, op, k, suf)
            fe_r = '((%s)(%s) %s @k)' % (ft, Rt, op)
            decls += 'static %s @x = %s;\n' % (ft, fe_c)
            body += ('  { volatile %s @k = %s%s; %s r = %s; printf("@ %%d\\n", memcmp(&@x, &r, %d) == 0);\n'
                     '    unsigned char *p = (unsigned char *)&@x; int i; printf("@"); for (i = 0; i < %d; i++) printf(" %%02x", p[i]); printf("\\n"); }\n'
                     ) % (ft, k, suf, ft, fe_r, {'float': 4, 'double': 8, 'long double': 10}[ft], {'float': 4, 'double': 8, 'long double': 10}[ft])
            exp = None
            g.feat.add('fp:%s%s' % (ft, op))
        elif c == 9:
            # constant-ness decides array vs VLA: sizeof must be a compile-time constant usable in another constant context
            decls += 'static char @a[(unsigned char)(%s) + 1];\nenum { @N = sizeof(@a) };\nstatic short @b[@N];\n' % C
            body += '  printf("@ %d %d\\n", (int)@N, (int)sizeof(@b));\n'
            v = conv(e.v, igen.UCHAR) + 1
            exp.append('%d %d' % (v, 2 * v))
        else:
            t = ch.choice(TYPES)
            decls += 'static struct { char c; %s v; } @g[2] = { {1, %s}, {2, (%s) + 0} };\n' % (t.name, C, C)
            body += '  { %s r = %s; printf("@ %%lx %%lx %%lx\\n", (unsigned long)@g[0].v, (unsigned long)@g[1].v, (unsigned long)r); }\n' % (t.name, Rt)
            v = conv(e.v, t)
            # (E)+0 has the promoted type; converting to t gives the same value as converting E
            exp.append('%s %s %s' % (ux(v), ux(v), ux(v)))
        nt = (tuple(sorted(g.feat)), c) if g.nt else None
        return diffprog.Case(decls=decls, body=body, expect=exp, nt=nt, tags=['ctx:' + CONTEXTS[c]] + sorted(g.feat))

    def gen_fp_case(self, ch, depth):
        fg = FGen(ch)
        C, Rt, kind, approx = fg.expr(ch.int(1, min(depth, 4)))
        loc = ''.join('  volatile %s %s = %s;\n' % (t, n, l) for n, t, l in fg.vars)
        form = ch.choice(['truth-bound', 'static-bool', 'static-fp', 'static-int'] if kind == 'f' else ['truth-bound', 'static-bool', 'static-int', 'static-fp', 'enumerator'])
        decls = ''; body = loc
        if form == 'truth-bound':
            # an array bound and a static initializer that depend on the truth value of E
            decls += 'static char @a[(%s) ? 3 : 5];\nstatic int @t = !(%s);\n' % (C, C)
            body += '  printf("@ %%d %%d %%d %%d\\n", (int)sizeof(@a), (%s) ? 3 : 5, @t, !(%s));\n' % (Rt, Rt)
        elif form == 'static-bool':
            decls += 'static _Bool @b = %s;\n' % C
            body += '  { _Bool r = %s; printf("@ %%d %%d\\n", @b, r); }\n' % Rt
        elif form == 'static-int':
            if kind == 'f' and (not (abs(approx) < 2e9) or C in fg.unc):      # conversion of an out-of-range value to int is undefined: the value must be known
                return None
            t = 'long' if kind == 'i' else 'int'
            decls += 'static %s @x = %s;\n' % (t, C)
            body += '  { %s r = %s; printf("@ %%ld %%ld\\n", (long)@x, (long)r); }\n' % (t, Rt)
        elif form == 'enumerator':
            if not (abs(approx) < 2e9) or (kind == 'f' and C in fg.unc):
                return None
            decls += 'enum { @K = %s };\n' % C
            body += '  printf("@ %%d %%d\\n", (int)@K, (int)(%s));\n' % Rt
        else:
            ft = ch.choice(['float', 'double', 'long double'])
            n = {'float': 4, 'double': 8, 'long double': 10}[ft]
            decls += 'static %s @x = %s;\n' % (ft, C)
            body += ('  { %s r = %s; printf("@ %%d\\n", memcmp(&@x, &r, %d) == 0);\n'
                     '    unsigned char *p = (unsigned char *)&@x; int i; printf("@"); for (i = 0; i < %d; i++) printf(" %%02x", p[i]); printf("\\n"); }\n') % (ft, Rt, n, n)
        fg.feat.add('form:' + form)
        return diffprog.Case(decls=decls, body=body, expect=None, nt=(tuple(sorted(fg.feat)), 'fp-mixed'), tags=['ctx:fp-mixed'] + sorted(fg.feat))

    def example(self, ch, ctx):
        depth = 4 if ctx.quick else 5
        cases = []
        while ch.more(len(cases), 1, 40):
            c = self.gen_case(ch, depth)
            if c is not None:
                cases.append(c)
        if not cases:
            return
        fails = diffprog.judge(ctx, cases)
        if fails:
            raise diffprog.violation_from(cases, fails[0])

    def replay(self, tree, rep, wd):
        if rep.get('kind') == 'negconst':
            return neg_replay(tree, rep, wd)
        if rep.get('kind') == 'mustreject':
            p = os.path.join(wd, 'rej.c'); open(p, 'w').write(rep['source'])
            r = core.run([tree.cc, '-cc1', '-cc1-input', p, '-cc1-output', os.path.join(wd, 'rej.s'), p], timeout=20)
            return (r.rc != 1), ('rc=%s: %s' % (r.rc, (r.err or '').strip().split('\n')[-1][:150]))
        return diffprog.replay(tree, rep, wd)

    def extra(self, tree, tier, stats, top):
        return negative(tree, stats, top)


# ---- negative cases: undefined constant expressions must be diagnosed, never crash the compiler
UB_EXPRS = ['1/0', '1%0', '5/(3-3)', '0/0', '1/(1-1)', '7%(2>>1>>1)', '1L/0', '1u/0u', '10/(int)0.5', '1/0L', '1/(char)256', '(1/0)+1']
NEG_CTX = [
    ('static-init', 'int x = %s;\n'),
    ('array-bound', 'char a[%s];\n'),
    ('case-label', 'int f(int x){ switch(x){ case %s: return 1; } return 0; }\n'),
    ('enumerator', 'enum { K = %s };\n'),
    ('bitfield-width', 'struct S { int f : %s; };\n'),
    ('alignas', '_Alignas(%s) int x;\n'),
    ('designator', 'int a[4] = { [%s] = 1 };\n'),
    ('static-local', 'int f(void){ static long y = %s; return y; }\n'),
    ('pp-if', '#if %s\nint x;\n#endif\n'),
]


def neg_one(tree, src, wd):
    p = os.path.join(wd, 'neg.c')
    open(p, 'w').write(src)
    r = core.run([tree.cc, '-cc1', '-cc1-input', p, '-cc1-output', os.path.join(wd, 'neg.s'), p], timeout=20)
    if r.timeout:
        return True, 'compiler hangs on %r' % src
    if r.rc < 0 or r.rc > 1:
        return True, 'compiler died (rc=%s) on %r: %s' % (r.rc, src, r.err[:200])
    if r.rc == 1:
        if 'neg.c:' not in r.err or 'internal error' in r.err:
            return True, 'diagnostic without location on %r: %r' % (src, r.err[:200])
        return False, 'diagnosed'
    return False, 'accepted (rc=0)'


# constants that must be *rejected* because their value is outside what the context allows: the check has to see the full 64-bit
# value (an index, width or alignment of 2^32 + k is not k).  A case counts only if gcc and clang both reject it.
MUST_REJECT = ['int a[4] = {[%s] = 5};', 'int a[4] = {[1 ... %s] = 5};', 'struct S { int x : %s; };', '_Alignas(%s) char c;', 'struct S { char c; _Alignas(%s) int y; };',
               'int f(int x) { int a[4] = {[%s] = 1}; return a[x]; }', 'struct S { unsigned long w : %s; };']
RANGE_VALUES = ['0x100000001', '4294967296 + 2', '0x100000008', '(1L << 32) + 1', '0x8000000000000001', '-4294967295', '(1L << 40) | 2', '0x100000020']


def negative(tree, stats, top):
    wd = os.path.join(top, 'neg'); os.makedirs(wd, exist_ok=True)
    viols = []
    for tmpl in MUST_REJECT:
        for v in RANGE_VALUES:
            src = tmpl % v + '\n'
            p = os.path.join(wd, 'rej.c'); open(p, 'w').write(src)
            if core.run(['gcc', '-fsyntax-only', '-w', '-std=gnu11', p], timeout=20).rc == 0 or core.run(['clang', '-fsyntax-only', '-w', '-std=gnu11', p], timeout=20).rc == 0:
                stats.count('must_reject_ref_accepts')
                continue
            stats.case(nt_key=('reject', tmpl, v)); stats.count('must_reject_cases')
            r = core.run([tree.cc, '-cc1', '-cc1-input', p, '-cc1-output', os.path.join(wd, 'rej.s'), p], timeout=20)
            if r.rc == 0 and len(viols) < 3:
                viols.append(({'kind': 'mustreject', 'source': src, 'signature': 'rej-%s-%s' % (tmpl[:20], v)}, 'accepted although gcc and clang reject it (the value is truncated to int before it is checked): ' + src.strip()))
            elif r.rc != 1 and len(viols) < 3:
                viols.append(({'kind': 'mustreject', 'source': src, 'signature': 'rejcrash-%s-%s' % (tmpl[:20], v)}, 'compiler died (rc=%s) on %s' % (r.rc, src.strip())))
    for e in UB_EXPRS:
        for cn, tmpl in NEG_CTX:
            src = tmpl % e
            bad, det = neg_one(tree, src, wd)
            stats.case(nt_key=('neg', e, cn))
            stats.count('negative_cases')
            if det == 'accepted (rc=0)':
                stats.count('negative_accepted')
            if bad and len(viols) < 3:
                viols.append(({'kind': 'negconst', 'source': src, 'signature': 'neg-%s-%s' % (cn, e)}, det))
    return viols


def neg_replay(tree, rep, wd):
    return neg_one(tree, rep['source'], wd)


CHECK = C07()
