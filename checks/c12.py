"""C12 Self-hosting fixpoint: chibicc compiled by chibicc is the same compiler.

stage1 = the tree built by the host compiler (the repository's Makefile); stage2 = the sources compiled by stage1;
stage3 = the sources compiled by stage2.  All stages are run as `./chibicc` from directories with identical contents.
(1) stage2 and stage3 emit byte-identical -S output for every compiler source (exhaustive over the sources);
(2) for generated (input, option set) pairs, stage1 and stage2 produce byte-identical stdout, stderr, output files
    and the same exit status; inputs: compiler sources, repository tests, valid programs from the generators of
    C01-C05/C07/C08/C11/C20, preprocessor programs (C09/C10) and invalid mutants (C13);
(3) determinism: the same stage1 run twice, once with address-space randomisation disabled and a different
    environment size, gives identical results."""
import os, re, shutil, glob
from vlib import core, diffprog

OPTSETS = [['-S', '-o', 'OUT'], ['-E', '-o', 'OUT'], ['-c', '-o', 'OUT'], ['-S', '-fPIC', '-o', 'OUT'], ['-S', '-fno-common', '-o', 'OUT'],
           ['-S', '-fcommon', '-DX=1', '-UY', '-o', 'OUT'], ['-E', '-DFOO=bar', '-DN=3', '-UFOO', '-o', 'OUT'], ['-M', '-o', 'OUT'], ['-MD', '-MF', 'OUT', '-S', '-o', 'OUT2'],
           ['-M', '-MP', '-MT', 'tgt', '-o', 'OUT'], ['-S', '-Iinclude', '-include', 'include/stddef.h', '-o', 'OUT'], ['-S', '-o', '-'], ['-E'], ['-c', '-fPIC', '-o', 'OUT'],
           ['-S', '-idirafter', 'test', '-o', 'OUT'], ['-E', '-x', 'c', '-o', 'OUT'], ['-o', 'OUT'], ['-shared', '-fPIC', '-o', 'OUT']]

# operands and operators for constant expressions whose evaluation inside the compiler touches what the C standard leaves open for
# the *compiler's own* source: conversions of NaN / infinity / out-of-range values, two faults in one expression, huge shifts
CORNER_OPERANDS = ['0.0/0.0', '-(0.0/0.0)', '1e400', '-1e400', '1e400L', '1/0', '2/0', '5%0', '18446744073709551615.0', '18446744073709551616.0', '-1.0', '-0.5',
                   '9223372036854775807', '(-9223372036854775807-1)', '9223372036854775808.0', '-9223372036854775809.0', '4294967296.0', '1e19', '1e19f', '3', '0', '1.5f', 'y',
                   '0x1p63', '0x1p64L', '-0x1p63', '1e-400', '4.9e-324', '(1e308*10)', '(0.0/0.0 != 0.0/0.0)',
                   # ordinary values: the compiler's own long double arithmetic folds these (operand order, rounding)
                   '3.0L', '10.0L', '0.1L', '7', '2.5', '1.0L', '1e10L', '3.0f', '0.3']
CORNER_CASTS = ['(unsigned long)', '(long)', '(int)', '(unsigned)', '(unsigned char)', '(_Bool)', '(float)', '(double)', '(long double)', '(short)', '', '', '-', '!', '~(long)']
CORNER_BIN = ['*', '+', '-', '/', '%', '<<', '>>', '<', '==', '&', '|', '&&', '||', ',']


def build_stage(src_dir, cc, dst_dir):
    """copy the source tree and build chibicc in dst_dir by compiling every source with `cc` (run from src_dir) and linking with gcc"""
    os.makedirs(dst_dir)
    for name in os.listdir(src_dir):
        p = os.path.join(src_dir, name)
        if os.path.isdir(p) and name in ('include', 'test'):
            shutil.copytree(p, os.path.join(dst_dir, name))
        elif name.endswith(('.c', '.h')) or name == 'Makefile':
            shutil.copy2(p, os.path.join(dst_dir, name))
    objs = []
    for f in sorted(glob.glob(os.path.join(dst_dir, '*.c'))):
        o = f[:-2] + '.o'
        r = core.run(['./chibicc', '-c', '-o', o, f], cwd=os.path.dirname(cc), timeout=120, as_mb=0)
        if r.rc != 0:
            raise core.BuildError('stage build: %s fails on %s: %s' % (cc, os.path.basename(f), r.err[-300:]))
        objs.append(o)
    r = core.run(['gcc', '-o', os.path.join(dst_dir, 'chibicc')] + objs, timeout=120, as_mb=0)
    if r.rc != 0:
        raise core.BuildError('stage link failed: ' + r.err[-300:])
    for o in objs:
        os.unlink(o)
    return dst_dir


class C12:
    id = 'C12'
    level = 'exploration'
    rule = ('cases = (input, option set) pairs: input drawn from the 9 compiler sources, the repository tests, valid programs from the generators of C01/C02/C03/C04/C05/C07/C08/C11/C20, '
            'preprocessor programs of C09/C10 and invalid mutants of C13; option set from 16 shapes (-S, -E, -c, -fPIC, -fno-common/-fcommon, -D/-U, -include, -I, -idirafter, -M/-MD/-MF/-MP/-MT, '
            '-o - and default output). stage1 (host-built) and stage2 (self-built), run as ./chibicc from identical directories, must give identical exit status, stdout, stderr and output '
            'files; stage1 re-run under setarch -R with a padded environment must repeat itself; and (exhaustive over the 9 sources) stage2 -S == stage3 -S. '
            'non-trivial = the input compiles to at least one function or produces a diagnostic; distinct by (content hash, option set).')
    assumptions = ['inputs that mention __DATE__, __TIME__ or __TIMESTAMP__ are excluded; runs in which a stage dies from a signal are not compared (counted; C13 is their subject)']

    def budget(self, tier):
        return 900 if tier == 'quick' else 10000

    def prepare(self, tree, tier):
        top = os.path.dirname(tree.dir)
        self.s1 = tree.dir
        self.s2 = os.path.join(top, 'stage2')
        self.s3 = os.path.join(top, 'stage3')
        from checks import c13
        c13.get_seeds(tree)
        if not os.path.exists(self.s2):
            build_stage(tree.dir, tree.cc, self.s2)
            build_stage(self.s2, os.path.join(self.s2, 'chibicc'), self.s3)
            # stage1 dir must have the same contents apart from the binary: remove host objects
            for o in glob.glob(os.path.join(tree.dir, '*.o')):
                os.unlink(o)

    def stages(self, tree):
        top = os.path.dirname(tree.dir)
        return tree.dir, os.path.join(top, 'stage2'), os.path.join(top, 'stage3')

    def gen_input(self, ch, ctx):
        """(name, bytes)"""
        k = ch.int(0, 99)
        s1 = ctx.tree.dir
        if k < 8:
            f = ch.choice(sorted(glob.glob(os.path.join(s1, '*.c'))))
            return os.path.basename(f), None
        if k < 25:
            f = ch.choice(sorted(glob.glob(os.path.join(s1, 'test', '*.c'))))
            return 'test/' + os.path.basename(f), None
        if k < 75:
            from checks import c01, c02, c03, c04, c05, c07, c08, c11, c20
            which = ch.int(0, 8)
            n = ch.int(1, 6)
            if which == 0:
                cs = [c01.CHECK.gen_case(ch, 4) for _ in range(n)]; pre = diffprog.PRELUDE
            elif which == 1:
                cs = [c for c in (c02.CHECK.gen_case(ch, 3) for _ in range(n)) if c]; pre = c02.FPRELUDE
            elif which == 2:
                cs = [c03.CHECK.gen_cf(ch, 3) for _ in range(n)]; pre = c03.PRE
            elif which == 3:
                cs = [c04.AggCase(ch, 2, {'D12b': 0}).build() for _ in range(min(n, 2))]; pre = c04.PRE
            elif which == 4:
                cs = [c05.CHECK.gen_case(ch) for _ in range(n)]; pre = diffprog.PRELUDE
            elif which == 5:
                cs = [c for c in (c07.CHECK.gen_case(ch, 4) for _ in range(n)) if c]; pre = diffprog.PRELUDE
            elif which == 6:
                cs = [c08.CHECK.gen_struct(ch, 2) for _ in range(n)]; pre = c08.PRE
            elif which == 7:
                cs = [c11.CHECK.gen_case(ch) for _ in range(n)]; pre = c11.PRE
            else:
                cs = [c20.CHECK.gen_case(ch) for _ in range(n)]; pre = c20.PRE
            if not cs:
                cs = [c01.CHECK.gen_case(ch, 2)]; pre = diffprog.PRELUDE
            return 'gen/g.c', diffprog.unit_source(cs, None, pre).encode()
        if k >= 93:
            # file-scope constant expressions built from the corner pools; most are erroneous or folded inside the compiler
            def cexpr(d):
                if d == 0 or ch.int(0, 2) == 0:
                    return ch.choice(CORNER_CASTS) + '(' + ch.choice(CORNER_OPERANDS) + ')'
                if ch.int(0, 5) == 0:
                    return '(%s ? %s : %s)' % (cexpr(d - 1), cexpr(d - 1), cexpr(d - 1))
                return '%s(%s %s %s)' % (ch.choice(CORNER_CASTS), cexpr(d - 1), ch.choice(CORNER_BIN), cexpr(d - 1))
            lines = ['int y;']
            for i in range(ch.int(1, 4)):
                form = ch.int(0, 5)
                e = cexpr(ch.int(0, 2))
                if form == 0:
                    lines.append('%s a%d = %s;' % (ch.choice(['unsigned long', 'long', 'int', 'double', 'float', '_Bool', 'long double', 'unsigned char']), i, e))
                elif form == 1:
                    lines.append('int arr%d[((unsigned long)(%s) >> 63) + 1];' % (i, e))
                elif form == 2:
                    lines.append('enum { K%d = %s };' % (i, e))
                elif form == 3:
                    lines.append('struct S%d { int f : ((%s) & 7) + 1; };' % (i, e))
                elif form == 4:
                    lines.append('int f%d(int x) { switch (x) { case %s: return 1; } return 0; }' % (i, e))
                else:
                    lines.append('_Static_assert((%s) || 1, "m"); long s%d = sizeof(char[(%s) ? 2 : 3]);' % (e, i, e))
            return 'gen/k.c', ('\n'.join(lines) + '\n').encode()
        if k < 85:
            from checks import c09, c10
            txt = c09.Gen(ch, {}).program() if ch.bool() else c10.Cond(ch).program()
            return 'gen/p.c', txt.encode()
        from checks import c13
        S = c13.get_seeds(ctx.tree)
        name, lines = S.items[ch.int(0, len(S.items) - 1)]
        ml, _ = c13.mutate(ch, c13.window(ch, lines), S.pool)
        return 'gen/m.c', c13.render(ml).encode('utf-8', 'replace')

    def run_stage(self, sdir, rel, data, opts, wrap=None, env=None, w=0):
        """run ./chibicc in sdir; returns (rc, stdout, stderr, {outfile: bytes})"""
        gdir = os.path.join(sdir, 'gen')
        os.makedirs(gdir, exist_ok=True)
        if data is not None:
            open(os.path.join(sdir, rel), 'wb').write(data)
        outs = []
        args = []
        raw = {}
        for o in opts:
            if o in ('OUT', 'OUT2'):
                args.append('gen/w%d_%s' % (w, o.lower())); outs.append('gen/w%d_%s' % (w, o.lower()))
            else:
                args.append(o)
        for o in outs:
            try:
                os.unlink(os.path.join(sdir, o))
            except OSError:
                pass
        cmd = (wrap or []) + ['./chibicc'] + args + [rel]
        r = core.run(cmd, cwd=sdir, timeout=30, env=env, text=False)
        files = {}
        for o in outs:
            p = os.path.join(sdir, o)
            if os.path.exists(p) and open(p, 'rb').read(4) == b'\x7fELF':
                # the assembler records its working directory in the debug sections; the stages run in different directories.
                # The unstripped bytes are kept as well: two runs of the same stage must agree on them too.
                raw[o] = open(p, 'rb').read()
                core.run(['objcopy', '-g', p], timeout=30)
            files[o] = open(p, 'rb').read() if os.path.exists(p) else None
        # default output names (no -o): x.s / x.o next to cwd
        base = os.path.splitext(os.path.basename(rel))[0]
        for ext in ('.s', '.o'):
            p = os.path.join(sdir, base + ext)
            if not any(a in ('-o',) for a in args) and os.path.exists(p) and base.startswith(('g', 'p', 'm', 'k')) and rel.startswith('gen/'):
                files[base + ext] = open(p, 'rb').read(); os.unlink(p)
        # the linker names our temporary object file in its messages
        err = re.sub(rb'/tmp/chibicc-[A-Za-z0-9]{6}', b'/tmp/chibicc-TMPNAM', r.err) if isinstance(r.err, bytes) else re.sub(r'/tmp/chibicc-[A-Za-z0-9]{6}', '/tmp/chibicc-TMPNAM', r.err)
        # ... and, from the debug information, the directory the stage ran in
        err = err.replace(os.path.realpath(sdir).encode(), b'STAGEDIR').replace(sdir.encode(), b'STAGEDIR') if isinstance(err, bytes) else err.replace(os.path.realpath(sdir), 'STAGEDIR').replace(sdir, 'STAGEDIR')
        return r.rc, r.out, err, files, r.timeout, raw

    def example(self, ch, ctx):
        st = ctx.stats
        s1, s2, s3 = self.stages(ctx.tree)
        n = 0
        while ch.more(n, 1, 8):
            n += 1
            rel, data = self.gen_input(ch, ctx)
            opts = ch.choice(OPTSETS)
            raw = data if data is not None else open(os.path.join(s1, rel), 'rb').read()
            if re.search(rb'__(DATE|TIME|TIMESTAMP)__', raw):
                st.count('skipped_date_time')
                continue
            # per-worker private copies of the two stage directories would be costly; inputs carry the worker id instead
            if data is not None:
                rel = rel.replace('gen/', 'gen/w%d_' % ctx.widx)
            a = self.run_stage(s1, rel, data, opts, w=ctx.widx)
            b = self.run_stage(s2, rel, data, opts, w=ctx.widx)
            if a[4] or b[4]:
                st.count('timeouts_skipped'); continue
            if (a[0] is not None and a[0] < 0) or (b[0] is not None and b[0] < 0):
                st.count('signal_skipped'); continue
            key = (core.shash(raw), tuple(opts))
            interesting = a[0] != 0 or any(v for v in a[3].values()) or a[1]
            st.case(key if interesting else None, sample=({'input': rel, 'opts': opts, 'rc': a[0], 'bytes_out': sum(len(v or b'') for v in a[3].values()) + len(a[1])} if len(st.samples) < 3 else None))
            st.tag('opts:' + ' '.join(o for o in opts if o.startswith('-'))[:40])
            st.tag('input:' + rel.split('/')[0])
            bad = None

            def norm(x):
                return x[:4]
            if norm(a) != norm(b):
                what = [w for w, x, y in (('exit status', a[0], b[0]), ('stdout', a[1], b[1]), ('stderr', a[2], b[2]), ('output files', a[3], b[3])) if x != y]
                bad = 'stage1 (host-built) and stage2 (self-built) differ in %s' % ', '.join(what)
            else:
                # determinism of stage1 itself
                env = dict(os.environ, VERIF_PADDING='x' * ch.choice([1, 17, 1000, 4099]))
                c = self.run_stage(s1, rel, data, opts, wrap=['setarch', 'x86_64', '-R'], env=env, w=ctx.widx)
                if not c[4] and (norm(c) != norm(a) or c[5] != a[5]):
                    bad = 'stage1 is not deterministic: a second run (setarch -R, different environment size) differs'
            if bad:
                rep = {'kind': 'stages', 'rel': rel, 'input_latin1': raw.decode('latin1') if data is not None else None, 'opts': opts, 'signature': core.shash(repr(key))}
                raise core.Violation(rep, '%s\n input %s, options %s\n rc %s/%s\n stderr1 %r\n stderr2 %r' % (bad, rel, opts, a[0], b[0], a[2][-200:], b[2][-200:]))

    def replay(self, tree, rep, wd):
        self.prepare(tree, 'quick')
        s1, s2, s3 = self.stages(tree)
        if rep.get('kind') == 'fixpoint':
            return fixpoint(s2, s3, [rep['source']])
        data = rep['input_latin1'].encode('latin1') if rep.get('input_latin1') is not None else None
        a = self.run_stage(s1, rep['rel'], data, rep['opts'])
        b = self.run_stage(s2, rep['rel'], data, rep['opts'])
        if a[:4] != b[:4]:
            return True, 'stage1 rc=%s stage2 rc=%s; stdout equal: %s; stderr equal: %s; files equal: %s' % (a[0], b[0], a[1] == b[1], a[2] == b[2], a[3] == b[3])
        c = self.run_stage(s1, rep['rel'], data, rep['opts'], wrap=['setarch', 'x86_64', '-R'], env=dict(os.environ, VERIF_PADDING='y' * 777))
        if c[:4] != a[:4] or c[5] != a[5]:
            return True, 'stage1 run twice differs'
        return False, 'stages agree'

    def extra(self, tree, tier, stats, top):
        s1, s2, s3 = self.stages(tree)
        srcs = sorted(os.path.basename(f) for f in glob.glob(os.path.join(s2, '*.c')))
        bad, det = fixpoint(s2, s3, srcs)
        for s in srcs:
            stats.case(('fixpoint', s))
        stats.counters['fixpoint_sources'] = len(srcs)
        if bad:
            return [({'kind': 'fixpoint', 'source': det.split()[0], 'signature': 'fixpoint-' + det.split()[0]}, 'stage2 and stage3 emit different assembly: ' + det)]
        return []


def fixpoint(s2, s3, srcs):
    for s in srcs:
        a = core.run(['./chibicc', '-S', '-o', '-', s], cwd=s2, timeout=120, text=False)
        b = core.run(['./chibicc', '-S', '-o', '-', s], cwd=s3, timeout=120, text=False)
        if a.rc != 0 or b.rc != 0 or a.out != b.out:
            la, lb = a.out.split(b'\n'), b.out.split(b'\n')
            k = next((i for i in range(min(len(la), len(lb))) if la[i] != lb[i]), -1)
            return True, '%s: rc %s/%s, first differing line %d: %r vs %r' % (s, a.rc, b.rc, k, la[k][:80] if k >= 0 else None, lb[k][:80] if k >= 0 else None)
    return False, 'stage2 == stage3 on %d sources' % len(srcs)


CHECK = C12()
