"""C16 Atomic read-modify-write operations are indivisible.

Layer A (harness-owned schedules): two processes share one page holding the object; each executes one generated
atomic operation compiled by chibicc; a ptrace tracer single-steps them in the order given by a Hypothesis-drawn
schedule.  Oracle: linearizability for two operations - the final object value and both results must equal those of
one of the two sequential orders, computed by a Python model.  Sequential semantics (CAS success flag and failure
write-back, exchange returning the old value, op= / ++ / -- values) are the special case of a schedule without
interleaving.  The same operations compiled by gcc must pass (self-check of model and harness).
Layer B (contended stress): 2-8 real threads hammer one object with a single operation kind after a start barrier;
algebraic invariants that hold under every linearisation (sum of commutative updates, conservation for exchange,
CAS-increment counters) are checked; this is what can expose a missing `lock` prefix."""
import os, shutil
from vlib import core, igen
from vlib.igen import conv, INT, LONG, ULONG, BOOL

NATIVE = os.path.join(core.VERIF, 'native')
ITYPES = [igen.CHAR, igen.UCHAR, igen.SHORT, igen.USHORT, igen.INT, igen.UINT, igen.LONG, igen.ULONG, igen.BOOL]
VALS = [0, 1, 2, 3, 5, 7, 0x55, 0x7f, 0x80, 0xff, 0x100, 0x7fff, 0x8000, 0xffff, 0x7fffffff, 0x80000000, 0xffffffff, 0x123456789abcdef, -1, -2]


class Op:
    """one atomic operation on an object of C type T (igen.T, or 'ptr', 'double', 'float') at byte offset off"""

    def __init__(self, ch, T, off, access):
        self.T, self.off, self.access = T, off, access
        kinds = ['opassign', 'opassign', 'incdec', 'fetch', 'exchange', 'cas', 'cas', 'store', 'load']
        if T is BOOL:
            kinds = ['flag', 'exchange', 'cas', 'store', 'load', 'opassign']
        if T == 'ptr':
            kinds = ['opassign', 'incdec', 'fetch', 'exchange', 'cas', 'store', 'load']
        if T in ('double', 'float'):
            kinds = ['opassign', 'store', 'load', 'exchange']
        self.kind = ch.choice(kinds)
        self.v = ch.choice(VALS)
        self.v2 = ch.choice(VALS)
        if T == 'ptr':
            self.v = ch.int(0, 9); self.v2 = ch.int(0, 9)
        if T in ('double', 'float'):
            self.v = ch.choice([1, 2, 3]); self.op = ch.choice(['+', '-', '*'])
        elif T == 'ptr':
            self.op = ch.choice(['+', '-'])
        else:
            self.op = ch.choice(['+', '-', '&', '|', '^'] if T is not BOOL else ['|', '&', '^', '+'])
        self.post = ch.bool()
        self.inc = ch.bool()
        self.fetch = ch.choice(['add', 'sub', 'or', 'xor', 'and'] if T != 'ptr' else ['add', 'sub'])
        self.fp_arg = ch.int(0, 3) == 0

    # ---- C text
    def ctype(self):
        return {'ptr': 'char *', 'double': 'double', 'float': 'float'}.get(self.T, None) or self.T.name

    def lit(self, v):
        if self.T == 'ptr':
            return '(BASE + %d)' % v
        if self.T in ('double', 'float'):
            return '%d.0' % v
        return igen.lit(self.T, conv(v, self.T))

    def lvalue(self):
        ct = self.ctype()
        if self.access == 'ptr':
            return '(*(_Atomic(%s) *)(obj + %d))' % (ct, self.off)
        if self.access == 'member':
            return '(((struct { char pad[%d]; _Atomic(%s) m; } *)obj)->m)' % (self.off, ct) if self.off else '(((struct { _Atomic(%s) m; char t; } *)obj)->m)' % ct
        if self.access == 'dotmember':
            return '((*(struct { char pad[%d]; _Atomic(%s) m; } *)obj).m)' % (max(self.off, 1), ct) if self.off else '((*(struct { _Atomic(%s) m; char t; } *)obj).m)' % ct
        return '(((_Atomic(%s) *)obj)[%d])' % (ct, self.off // self.size())

    def size(self):
        return {'ptr': 8, 'double': 8, 'float': 4}.get(self.T, None) or self.T.size

    def cvt(self, e):
        if self.T == 'ptr':
            return '(long)((%s) - BASE)' % e
        if self.T in ('double', 'float'):
            return '(long)((%s) * 16)' % e
        return '(long)(%s)' % e

    def code(self):
        x = self.lvalue()
        k = self.kind
        if k == 'opassign':
            if self.T == 'ptr':
                return 'res[0] = %s;' % self.cvt('%s %s= %d' % (x, self.op, self.v))
            return 'res[0] = %s;' % self.cvt('%s %s= %s' % (x, self.op, self.lit(self.v)))
        if k == 'incdec':
            o = '++' if self.inc else '--'
            return 'res[0] = %s;' % self.cvt(('%s%s' % (x, o)) if self.post else ('%s%s' % (o, x)))
        if k == 'fetch':
            arg = str(self.v) if self.T == 'ptr' else self.lit(self.v)
            if self.T not in ('ptr', 'double', 'float') and getattr(self, 'fp_arg', False) and 0 <= self.v < 100:
                arg = '%d.75' % self.v        # the operand is converted to the type of the object (7.17.7.5): truncated
            return 'res[0] = %s;' % self.cvt('atomic_fetch_%s(&%s, %s)' % (self.fetch, x, arg))       # the value before the update (7.17.7.5)
        if k == 'exchange':
            return 'res[0] = %s;' % self.cvt('atomic_exchange(&%s, %s)' % (x, self.lit(self.v)))
        if k == 'flag':
            return 'res[0] = (long)atomic_flag_test_and_set(&%s);' % x
        if k == 'cas':
            return '{ %s e = %s; res[0] = (long)atomic_compare_exchange_strong(&%s, &e, %s); res[1] = %s; }' % (self.ctype(), self.lit(self.v), x, self.lit(self.v2), self.cvt('e'))
        if k == 'store':
            return '%s = %s; res[0] = 0;' % (x, self.lit(self.v))
        return 'res[0] = %s;' % self.cvt(x)

    # ---- model: state is the object value as an int (pointer: offset from BASE; double: value*16 as int)
    def norm(self, v):
        if self.T == 'ptr' or self.T in ('double', 'float'):
            return v
        return conv(v, self.T)

    def apply(self, x):
        """returns (new state, (res0, res1))"""
        k = self.kind
        T = self.T
        if T in ('double', 'float'):
            sc = 16
            if k == 'opassign':
                n = {'+': x + self.v * sc, '-': x - self.v * sc, '*': x * self.v}[self.op]
                return n, (n, 0)
            if k == 'exchange':
                return self.v * sc, (x, 0)
            if k == 'store':
                return self.v * sc, (0, 0)
            return x, (x, 0)
        if T == 'ptr':
            if k == 'opassign':
                n = x + self.v if self.op == '+' else x - self.v
                return n, (n, 0)
            if k == 'incdec':
                n = x + (1 if self.inc else -1)
                return n, (x if self.post else n, 0)
            if k == 'fetch':
                return (x + self.v if self.fetch == 'add' else x - self.v), (x, 0)
            if k == 'exchange':
                return self.v, (x, 0)
            if k == 'cas':
                return (self.v2, (1, self.v)) if x == self.v else (x, (0, x))
            if k == 'store':
                return self.v, (0, 0)
            return x, (x, 0)
        v = conv(self.v, T)
        if k == 'opassign':
            ct = igen.common(T, T) if T is not BOOL else INT
            a, b = conv(x, ct), conv(v, ct)
            r = {'+': a + b, '-': a - b, '&': a & b, '|': a | b, '^': a ^ b}[self.op]
            n = conv(conv(r, ct), T)
            return n, (n, 0)
        if k == 'incdec':
            n = conv(x + (1 if self.inc else -1), T)
            return n, (x if self.post else n, 0)
        if k == 'fetch':
            r = {'add': x + v, 'sub': x - v, 'or': x | v, 'xor': x ^ v, 'and': x & v}[self.fetch]
            return conv(r, T), (x, 0)
        if k == 'exchange':
            return v, (x, 0)
        if k == 'flag':
            return 1, (x, 0)
        if k == 'cas':
            v2 = conv(self.v2, T)
            return (v2, (1, v)) if x == v else (x, (0, x))
        if k == 'store':
            return v, (0, 0)
        return x, (x, 0)

    def checks_result(self):
        return True


def mem_to_state(op, memhex):
    raw = bytes.fromhex(memhex)[op.off:op.off + op.size()]
    u = int.from_bytes(raw, 'little')
    if op.T == 'ptr':
        return u - BASE_ADDR
    if op.T == 'double':
        import struct
        return int(struct.unpack('<d', raw)[0] * 16)
    if op.T == 'float':
        import struct
        return int(struct.unpack('<f', raw)[0] * 16)
    return conv(u, op.T)


def state_to_mem(op, x, base):
    if op.T == 'ptr':
        raw = (base + x).to_bytes(8, 'little')
    elif op.T == 'double':
        import struct
        raw = struct.pack('<d', x / 16.0)
    elif op.T == 'float':
        import struct
        raw = struct.pack('<f', x / 16.0)
    else:
        raw = (conv(x, op.T) & ((1 << (8 * op.size())) - 1)).to_bytes(op.size(), 'little')
    m = bytearray(16)
    m[op.off:op.off + op.size()] = raw
    return m.hex()


BASE_ADDR = 0x600000      # pointer objects hold BASE + small offsets; BASE is a constant, never dereferenced


class C16:
    id = 'C16'
    level = 'exploration'
    rule = ('cases: (A) pairs of generated atomic operations (op= with + - & | ^, pre/post ++ --, atomic_fetch_*, atomic_exchange, atomic_compare_exchange_strong, atomic_flag_test_and_set, '
            'store, load) on one _Atomic object of every integer type, _Bool, pointer, float and double, addressed through a pointer, a struct member (-> and .), or an array element, at '
            'drawn offsets; executed by two processes on a shared page under a Hypothesis-drawn instruction-level schedule (ptrace single-stepping); final value and both results must equal '
            'one of the two sequential orders of the Python model; (B) real-thread stress programs with invariants valid under every linearisation. '
            'non-trivial = the schedule switches between the processes at least twice while both are inside their operation; distinct by (operations, access paths, initial value, schedule).')
    assumptions = ['layer A treats one machine instruction as indivisible (true for aligned accesses and lock-prefixed instructions): a missing lock prefix is only visible to layer B, probabilistically',
                   'absence of violations over the explored schedules is not a proof of linearizability']

    def budget(self, tier):
        return 160 if tier == 'quick' else 2000

    def prepare(self, tree, tier):
        top = os.path.dirname(tree.dir)
        self.tracer_o = os.path.join(top, 'ptrace_sched.o')
        if not os.path.exists(self.tracer_o):
            r = core.run(['gcc', '-O1', '-w', '-c', '-o', self.tracer_o, os.path.join(NATIVE, 'ptrace_sched.c')], timeout=60, as_mb=0)
            if r.rc != 0:
                raise core.BuildError('cannot build ptrace scheduler: ' + r.err[-300:])

    def gen_pair(self, ch):
        T = ch.choice(ITYPES + ['ptr', 'double', igen.INT, igen.LONG, igen.SHORT, igen.UCHAR])
        size = {'ptr': 8, 'double': 8, 'float': 4}.get(T, None) or T.size
        off = ch.choice([o for o in (0, size, 2 * size, 8) if o % size == 0 and o + size <= 16])
        ops = []
        for _ in range(2):
            access = ch.choice(['ptr', 'member', 'dotmember', 'index'])
            ops.append(Op(ch, T, off, access))
        if T == 'ptr':
            init = ch.int(0, 9)
        elif T in ('double', 'float'):
            init = ch.choice([0, 16, 24, 40])
        else:
            init = conv(ch.choice(VALS), T)
        return ops, init

    def example(self, ch, ctx):
        st = ctx.stats
        pairs = []
        while ch.more(len(pairs), 1, 6):
            pairs.append(self.gen_pair(ch))
        allops = [o for ops, _ in pairs for o in ops]
        src = ['#include <stdatomic.h>', '#define BASE ((char *)%dL)' % BASE_ADDR]
        for i, o in enumerate(allops):
            src.append('void op%d(char *obj, long *res) { %s }' % (i, o.code()))
        src.append('void (*optab[])(char *, long *) = { %s };' % ', '.join('op%d' % i for i in range(len(allops))))
        d = ctx.fresh_dir()
        try:
            p = os.path.join(d, 'ops.c')
            open(p, 'w').write('\n'.join(src) + '\n')
            exes = {}
            for comp in ('chibicc', 'gcc'):
                o = os.path.join(d, 'ops_%s.o' % comp)
                r = core.run([ctx.tree.cc, '-c', '-o', o, p], timeout=30) if comp == 'chibicc' else core.run(['gcc', '-O0', '-w', '-std=gnu11', '-c', '-o', o, p], timeout=30)
                if r.rc != 0:
                    if comp == 'gcc':
                        st.count('ref_reject'); return
                    rep = {'kind': 'atomic-compile', 'source': '\n'.join(src) + '\n', 'signature': core.shash('\n'.join(src))}
                    raise core.Violation(rep, 'chibicc rejects atomic operations that gcc accepts: %s\n%s' % (r.err.strip().split('\n')[-1][-200:], '\n'.join(src)))
                exe = os.path.join(d, 'x_%s' % comp)
                r = core.run(['gcc', '-o', exe, self.tracer_o, o, '-latomic'], timeout=30)
                if r.rc != 0:
                    st.count('link_fail'); return
                exes[comp] = exe
            k = 0
            for ops, init in pairs:
                a, b = ops
                # a few schedules per pair: sequential both ways + drawn interleavings
                scheds = ['0' * 400, '1' * 400]
                for _ in range(ch.int(1, 4)):
                    s = ''
                    who = ch.int(0, 1)
                    while len(s) < 300:
                        s += str(who) * ch.choice([1, 1, 1, 2, 2, 3, 5, 8, 13, 40])
                        who ^= 1
                    scheds.append(s)
                ia, ib = k, k + 1
                k += 2
                memhex = state_to_mem(a, init, BASE_ADDR)
                # model: both orders
                outcomes = []
                for first, second, order in ((a, b, 'AB'), (b, a, 'BA')):
                    s1, r1 = first.apply(init)
                    s2, r2 = second.apply(s1)
                    ra, rb = (r1, r2) if order == 'AB' else (r2, r1)
                    outcomes.append((a.norm(s2), ra, rb))
                for s in scheds:
                    for comp in ('gcc', 'chibicc'):
                        r = core.run([exes[comp], str(ia), str(ib), memhex, s], timeout=30)
                        if r.rc != 0 or not r.out.startswith('mem '):
                            if comp == 'gcc':
                                st.count('harness_problem'); break
                            rep = {'kind': 'atomic', 'source': '\n'.join(src) + '\n', 'a': ia, 'b': ib, 'mem': memhex, 'sched': s, 'signature': core.shash(a.code() + b.code() + s)}
                            raise core.Violation(rep, 'operations do not complete under the schedule: %s\nA: %s\nB: %s' % (r.out.strip()[:100], a.code(), b.code()))
                        f = r.out.split()
                        final = mem_to_state(a, f[1])
                        ra = (int(f[3], 16), int(f[4], 16)); rb = (int(f[8], 16), int(f[9], 16))

                        def sl(v):
                            v &= (1 << 64) - 1
                            return v - (1 << 64) if v >= (1 << 63) else v
                        got = (final, (sl(ra[0]), sl(ra[1])), (sl(rb[0]), sl(rb[1])))
                        ok = False
                        for (fs, xa, xb) in outcomes:
                            xa = (sl(xa[0]), sl(xa[1])); xb = (sl(xb[0]), sl(xb[1]))
                            if fs != got[0]:
                                continue
                            if a.checks_result() and (xa[0] != got[1][0] or (a.kind == 'cas' and xa[1] != got[1][1])):
                                continue
                            if b.checks_result() and (xb[0] != got[2][0] or (b.kind == 'cas' and xb[1] != got[2][1])):
                                continue
                            ok = True
                        if comp == 'gcc':
                            if not ok:
                                st.count('model_disagree')
                                if st.counters['model_disagree'] <= 3:
                                    st.samples.insert(0, {'model_disagree': {'A': a.code(), 'B': b.code(), 'init': init, 'got': str(got), 'model': str(outcomes)}})
                                break
                            continue
                        switches = sum(1 for i in range(1, min(len(s), int(f[-1]))) if s[i] != s[i - 1])
                        st.case((a.code(), b.code(), init, s[:60]) if switches >= 2 else None,
                                sample=({'A': a.code(), 'B': b.code(), 'init': init, 'schedule': s[:40], 'observed': str(got)} if len(st.samples) < 2 else None))
                        st.tag('op:' + a.kind); st.tag('op:' + b.kind); st.tag('T:' + (a.T if isinstance(a.T, str) else a.T.short)); st.tag('access:' + a.access)
                        if not ok:
                            rep = {'kind': 'atomic', 'source': '\n'.join(src) + '\n', 'a': ia, 'b': ib, 'mem': memhex, 'sched': s, 'outcomes': [str(o) for o in outcomes],
                                   'checkA': a.checks_result(), 'checkB': b.checks_result(), 'signature': core.shash(a.code() + b.code() + memhex)}
                            rep['expect'] = [[o[0], [sl(o[1][0]), sl(o[1][1])], [sl(o[2][0]), sl(o[2][1])]] for o in outcomes]
                            rep['casA'] = a.kind == 'cas'; rep['casB'] = b.kind == 'cas'
                            rep['obj'] = {'T': a.T if isinstance(a.T, str) else a.T.name, 'off': a.off}
                            raise core.Violation(rep, 'not linearizable: initial %s\n A: %s\n B: %s\n schedule %s...\n observed (final, resA, resB) = %s\n sequential outcomes (A;B / B;A) = %s'
                                                 % (init, a.code(), b.code(), s[:80], got, outcomes))
        finally:
            shutil.rmtree(d, ignore_errors=True)

    def replay(self, tree, rep, wd):
        self.prepare(tree, 'quick')
        if rep['kind'] == 'stress':
            return stress_one(tree, rep['source'], wd, rep.get('runs', 5))
        p = os.path.join(wd, 'ops.c'); open(p, 'w').write(rep['source'])
        o = os.path.join(wd, 'ops.o')
        r = core.run([tree.cc, '-c', '-o', o, p], timeout=30)
        if r.rc != 0:
            return True, 'chibicc rejects: ' + r.err[-200:]
        if rep['kind'] == 'atomic-compile':
            return False, 'compiles'
        exe = os.path.join(wd, 'x')
        core.run(['gcc', '-o', exe, self.tracer_o, o, '-latomic'], timeout=30)
        r = core.run([exe, str(rep['a']), str(rep['b']), rep['mem'], rep['sched']], timeout=30)
        if r.rc != 0 or not r.out.startswith('mem '):
            return True, 'operations do not complete: ' + r.out[:100]
        f = r.out.split()

        def sl(v):
            v &= (1 << 64) - 1
            return v - (1 << 64) if v >= (1 << 63) else v
        T = rep['obj']['T']
        tt = T if T in ('ptr', 'double', 'float') else [t for t in ITYPES if t.name == T][0]

        class O:
            pass
        o_ = O(); o_.T = tt; o_.off = rep['obj']['off']; o_.size = lambda: ({'ptr': 8, 'double': 8, 'float': 4}.get(tt, None) or tt.size)
        final = mem_to_state(o_, f[1])
        got = (final, [sl(int(f[3], 16)), sl(int(f[4], 16))], [sl(int(f[8], 16)), sl(int(f[9], 16))])
        for fs, xa, xb in rep['expect']:
            if fs != got[0]:
                continue
            if rep['checkA'] and (xa[0] != got[1][0] or (rep['casA'] and xa[1] != got[1][1])):
                continue
            if rep['checkB'] and (xb[0] != got[2][0] or (rep['casB'] and xb[1] != got[2][1])):
                continue
            return False, 'linearizable: %s' % (got,)
        return True, 'observed %s, sequential outcomes %s' % (got, rep['expect'])

    def extra(self, tree, tier, stats, top):
        """layer B: contended stress with real threads"""
        viols = []
        d = os.path.join(top, 'stress'); os.makedirs(d, exist_ok=True)
        n = 300000 if tier == 'quick' else 3000000
        progs = stress_programs(n)
        for name, src in progs:
            bad, det = stress_one(tree, src, d, 3 if tier == 'quick' else 6)
            stats.case(('stress', name))
            stats.tag('stress:' + name)
            if bad and len(viols) < 3:
                viols.append(({'kind': 'stress', 'source': src, 'runs': 6, 'signature': 'stress-' + name}, 'contended stress %s: %s' % (name, det)))
        return viols


STRESS_HDR = '''#include <stdatomic.h>
int printf(const char*,...);
typedef unsigned long pthread_t;
int pthread_create(pthread_t*,void*,void*(*)(void*),void*); int pthread_join(pthread_t,void**);
#define N %d
#define T 4
static _Atomic int ready, go;
'''


def stress_programs(n):
    out = []
    hdr = STRESS_HDR % n
    for ty, nm in (('unsigned char', 'u8'), ('unsigned short', 'u16'), ('int', 'i32'), ('long', 'i64')):
        for form, stmt in (('opassign', 'x += 1;'), ('postinc', 'x++;'), ('fetch', 'atomic_fetch_add(&x, 1);'), ('member', 's.m += 1;'), ('sub-add', 'x -= 3; x += 4;')):
            obj = 'static struct { char pad; _Atomic %s m; } s;' % ty if form == 'member' else 'static _Atomic %s x;' % ty
            rd = 's.m' if form == 'member' else 'x'
            src = hdr + obj + '\nstatic void *th(void *a) { ready += 1; while (!go) ; for (long i = 0; i < N; i++) { %s } return 0; }\n' % stmt + \
                'int main(void) { pthread_t t[T]; for (long i = 0; i < T; i++) pthread_create(&t[i], 0, th, (void *)i); while (ready != T) ; go = 1; for (int i = 0; i < T; i++) pthread_join(t[i], 0);\n' \
                '  unsigned long want = (unsigned long)T * N; printf("%%s\\n", (unsigned long)(%s)%s == (%s)want ? "ok" : "LOST"); return 0; }\n' % (rd, '', ty)
            out.append(('%s-%s' % (nm, form), src))
    # pointer bump allocator
    out.append(('ptr-bump', hdr + 'static char arena[1]; static _Atomic(char *) cur = arena;\nstatic void *th(void *a) { ready += 1; while (!go) ; for (long i = 0; i < N; i++) { cur += 2; } return 0; }\n'
                'int main(void) { pthread_t t[T]; for (long i = 0; i < T; i++) pthread_create(&t[i], 0, th, (void *)i); while (ready != T) ; go = 1; for (int i = 0; i < T; i++) pthread_join(t[i], 0);\n'
                '  printf("%s\\n", (cur - arena) == 2L * T * N ? "ok" : "LOST"); return 0; }\n'))
    # exchange conservation: sum of values taken out + final == sum of values put in + initial
    out.append(('exchange-conservation', hdr + 'static _Atomic long box = 7; static _Atomic long taken;\nstatic void *th(void *a) { long id = (long)a; long mine = 0; ready += 1; while (!go) ; for (long i = 0; i < N; i++) { mine += atomic_exchange(&box, id * N + i + 1); } taken += mine; return 0; }\n'
                'int main(void) { pthread_t t[T]; for (long i = 0; i < T; i++) pthread_create(&t[i], 0, th, (void *)i); while (ready != T) ; go = 1; for (int i = 0; i < T; i++) pthread_join(t[i], 0);\n'
                '  long put = 7; for (long id = 0; id < T; id++) for (long i = 0; i < N; i++) put += id * N + i + 1; printf("%s\\n", taken + box == put ? "ok" : "LOST"); return 0; }\n'))
    # ticket dispenser: the values returned by atomic_fetch_add are the tickets 0 .. T*K-1, each exactly once
    out.append(('fetch-add-tickets', hdr + 'static _Atomic long next; static _Atomic long sum; static _Atomic unsigned char seen[T * (N / 8)];\n'
                'static void *th(void *a) { long mine = 0; ready += 1; while (!go) ; for (long i = 0; i < N / 8; i++) { long t = atomic_fetch_add(&next, 1); mine += t; seen[t] += 1; } sum += mine; return 0; }\n'
                'int main(void) { pthread_t t[T]; for (long i = 0; i < T; i++) pthread_create(&t[i], 0, th, (void *)i); while (ready != T) ; go = 1; for (int i = 0; i < T; i++) pthread_join(t[i], 0);\n'
                '  long m = (long)T * (N / 8), dup = 0; for (long i = 0; i < m; i++) dup += seen[i] != 1; printf("%s\\n", next == m && sum == m * (m - 1) / 2 && dup == 0 ? "ok" : "LOST"); return 0; }\n'))
    # CAS increment on a short
    out.append(('cas-increment', hdr + 'static _Atomic unsigned short c;\nstatic _Atomic long done;\nstatic void *th(void *a) { ready += 1; while (!go) ; for (long i = 0; i < N / 8; i++) { unsigned short e = c; while (!atomic_compare_exchange_strong(&c, &e, (unsigned short)(e + 1))) ; done += 1; } return 0; }\n'
                'int main(void) { pthread_t t[T]; for (long i = 0; i < T; i++) pthread_create(&t[i], 0, th, (void *)i); while (ready != T) ; go = 1; for (int i = 0; i < T; i++) pthread_join(t[i], 0);\n'
                '  printf("%s\\n", c == (unsigned short)(T * (N / 8)) && done == T * (N / 8) ? "ok" : "LOST"); return 0; }\n'))
    return out


def stress_one(tree, src, d, runs):
    p = os.path.join(d, 's.c'); open(p, 'w').write(src)
    exe = os.path.join(d, 's.exe')
    r = core.run([tree.cc, '-o', exe, p], timeout=60)
    if r.rc != 0:
        return True, 'chibicc fails to build: ' + '\n'.join(l for l in r.err.split('\n') if 'GNU-stack' not in l and 'NOTE' not in l)[-200:]
    for i in range(runs):
        rr = core.run([exe], timeout=120)
        if rr.timeout:
            return False, 'inconclusive (time-out)'
        if rr.rc != 0 or rr.out.strip() != 'ok':
            return True, 'run %d: %r (rc=%s): an update was lost in a race-free program' % (i, rr.out.strip(), rr.rc)
    return False, 'ok x%d' % runs


CHECK = C16()
