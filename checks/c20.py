"""C20 Evaluation leaves no residue on the machine stack or the x87 stack.

Generator: (form, operand types, operand values, repetition count) tuples.  A form is an expression or statement
in a *discard* context (expression statement, comma operand, for-clauses, cast to void, unused call result, unused
?:, statement expression) or a *value* context (chained assignment, op= chains, nested calls, conditional operands).
It is evaluated N in {1,7,8,9,64,100000} times in a loop between two gcc-assembled probes called from the same frame.
Oracle (invariants): rsp after == rsp before (with alloca: lower by a bounded amount), x87 TOP and tag word after ==
before (all empty); afterwards a long double expression must still evaluate to the reference value and the function
must return normally.  All printed values are also compared with the gcc/clang consensus."""
import os
from vlib import core, diffprog

PROBES = r'''  .text
  .globl sp_probe
sp_probe:
  lea 8(%rsp), %rax
  ret
  .globl x87_probe
x87_probe:
  sub $32, %rsp
  fnstenv (%rsp)
  movzwl 8(%rsp), %eax
  movzwl 4(%rsp), %edx
  shr $11, %edx
  and $7, %edx
  shl $16, %edx
  or %edx, %eax
  fldenv (%rsp)
  add $32, %rsp
  ret
  .section .note.GNU-stack,"",@progbits
'''

PRE = diffprog.PRELUDE + ('long sp_probe(void); int x87_probe(void);\n#ifdef __chibicc__\nvoid *alloca(unsigned long);\n#else\n#define alloca __builtin_alloca\n#endif\n'
                          'typedef char *PC; struct SS { int a; char b; }; struct SB { long a[5]; double d; }; struct SL { long double l; int i; };\n')

TYPES = [('char', 'i'), ('unsigned char', 'i'), ('short', 'i'), ('unsigned short', 'i'), ('int', 'i'), ('unsigned', 'i'), ('long', 'i'), ('unsigned long', 'i'), ('_Bool', 'i'),
         ('float', 'f'), ('double', 'f'), ('long double', 'f'), ('PC', 'p'), ('struct SS', 'a'), ('struct SB', 'a'), ('struct SL', 'a')]
IVALS = ['0', '1', '3', '-1', '127', '255', '65535', '2147483647', '(-2147483647-1)', '4294967295U', '9223372036854775807L', '18446744073709551615UL', '9223372036854775808UL', '0x8000000000000401UL']
FVALS = ['0.0', '1.5', '-2.25', '1e10', '3.0', '0.1']


def init_for(ch, t, kind):
    if kind == 'i':
        return ch.choice(IVALS)
    if kind == 'f':
        return ch.choice(FVALS) + {'float': 'f', 'double': '', 'long double': 'L'}[t]
    if kind == 'p':
        return '(char *)&@anchor + %d' % ch.int(0, 7)
    return {'struct SS': '{ 1, 2 }', 'struct SB': '{ { 1, 2, 3, 4, 5 }, 6.5 }', 'struct SL': '{ 1.5L, 2 }'}[t]


def forms(ch, T, kT, U, kU):
    """list of (tag, statement text using a,b,c of type T, u,v of type U, helper functions f,g)"""
    arith = kT in 'if'
    scal = kT in 'ifp'
    L = []
    # discard contexts
    L.append(('expr-stmt', 'a;'))
    L.append(('void-cast', '(void)a;'))
    L.append(('comma-lhs', 'a, k++;'))
    L.append(('comma-both', '(a, b);'))
    L.append(('call-unused', '@f();'))
    L.append(('call-arg', '@g(a);'))
    L.append(('cond-unused', 'k ? a : b;'))
    L.append(('assign', 'c = a;'))
    L.append(('chain-assign', 'c = b = a;'))
    L.append(('stmt-expr', '({ a; b; });'))
    L.append(('stmt-expr-value', 'c = ({ b; a; });'))
    L.append(('cond-void-arm-taken', 'k ? (void)0 : a;'))
    L.append(('cond-value-arm-of-void-cond-taken', '!k ? (void)0 : a;'))
    L.append(('cond-void-both', 'k ? (void)a : (void)b;'))
    L.append(('stmt-expr-continue', '({ if (k) continue; a; });'))      # jump out of a statement expression with nothing pending (D74 is the pending case)
    L.append(('for-clauses', 'for (a; q < 1; b) q++; q = 0;'))
    L.append(('call-nested', 'c = @id(@id(@f()));'))
    L.append(('cond-assign', 'c = k ? a : @f();'))
    L.append(('compound-literal', '(%s){0};' % T) if kT != 'a' else ('compound-literal', 'c = (%s){0};' % T))
    L.append(('deref', '*pa;'))
    L.append(('deref-assign', '*pa = b;'))
    L.append(('index', 'arr[k & 1];'))
    L.append(('member', 'w.m;'))
    L.append(('member-of-stmt-expr', '({ w; }).m;'))
    L.append(('member-of-cond', '(k ? w : w).m;'))
    L.append(('member-assign', 'w.m = a;'))
    L.append(('funcptr-call', 'fp();'))
    L.append(('sizeof', 'q += sizeof(a) * 0;'))
    L.append(('alloca', '{ char *z = alloca(%d); z[0] = 1; @sink(z); }' % ch.choice([1, 16, 24, 100])))
    # storage obtained while values of the enclosing expression are pending on the machine stack: the pending values must survive
    # (chibicc moves its temporary area below the new block), and the allocation must not overlap them
    asz = ch.choice([1, 8, 16, 24, 100])
    L.append(('alloca-pending-binop', 'q = (@fill(alloca(%d), %d) == 7) * (k + 5) - 6 + (k + 2) * (@fill(alloca(%d), 3) != 7) * 0;' % (asz, asz, asz)))
    L.append(('alloca-pending-arg', 'c = @id3(@fill(alloca(%d), %d), a, @fill(alloca(8), 8));' % (asz, asz)))
    L.append(('vla-pending-binop', 'q = ({ char vz[k + %d]; @fill(vz, k + %d); vz[k] - 7; }) + (k + 5) * ({ char vy[k + 2]; vy[1] = 3; vy[1]; }) - 18;' % (asz, asz)))
    L.append(('vla-pending-arg', 'c = @id3(@fill(alloca(8), 8), ({ long vw[k + %d]; vw[k] = 1; a; }), 0);' % ch.choice([1, 2, 5])))
    L.append(('vla-block', '{ int vn = k + %d; %s vz[vn]; vz[vn - 1] = a; c = vz[k + %d]; }' % (asz, T, asz - 1)))
    if scal:
        L.append(('not', '!a;'))
        L.append(('logand', 'a && b;'))
        L.append(('logor-assign', 'q = a || b;'))
        L.append(('if', 'if (a) k++;'))
        L.append(('eq', 'a == b;'))
        L.append(('ne-assign', 'q = a != b;'))
        L.append(('cast-to-U', '(%s)a;' % U) if kU in 'ifp' and not (kT == 'f' and kU == 'p') and not (kT == 'p' and kU == 'f') else ('expr-stmt', 'a;'))
        L.append(('assign-U', 'u = a;') if kU in 'if' and kT in 'if' else ('expr-stmt', 'b;'))
    if arith:
        L.append(('neg', '-a;'))
        L.append(('add', 'a + b;'))
        L.append(('mul-assign-chain', 'c = (b = a) * 1;') if T != '_Bool' else ('add', 'a + b;'))
        L.append(('sub-mixed', 'a - u;') if kU in 'if' else ('add', 'a + a;'))
        L.append(('lt', 'a < b;'))
        L.append(('op-assign', 'c += a;') if kT == 'f' or 'unsigned' in T else ('op-assign', 'c |= 0;' if kT == 'i' else 'c += a;'))
        L.append(('op-assign-chain', 'c += b += 0;') if kT == 'f' or 'unsigned' in T else ('lt', 'a <= b;'))
        L.append(('post-inc', 'c++; c--;') if T != '_Bool' else ('lt', 'a > b;'))
        L.append(('pre-inc-value', 'b = ++c; --c;') if T != '_Bool' else ('lt', 'a >= b;'))
        L.append(('cond-mixed', 'k ? a : u;') if kU in 'if' else ('neg', '+a;'))
        L.append(('call-variadic', 'q = @va(2, a, b);'))
        L.append(('cast-chain', '(long double)(float)a;'))
        L.append(('to-long-double', 'ld1 = a;'))
        L.append(('from-long-double', 'c = ld1 * 0 + (long double)b;') if T != '_Bool' else ('to-long-double', 'ld1 = a;'))
        # long double operands pending while the other operand is evaluated: right-nested up to 12 deep (the x87 stack has 8 slots) and
        # across calls whose own evaluation needs the x87 stack empty
        d = ch.choice([3, 7, 8, 9, 12])
        e = '(long double)a'
        for i in range(d):
            e = '%s %s (%s)' % (ch.choice(['ld1', 'ld2', '(long double)b', 'ld3']), ch.choice(['+', '-', '*']), e)
        L.append(('ld-right-nested-%d' % d, 'ld3 = 0.25L; c = (%s)(%s) * 0 + b;' % (T, e)) if T != '_Bool' else ('to-long-double', 'ld1 = a;'))
        L.append(('ld-call-in-rhs', 'ld3 = 0.25L; ld3 = ld1 + @deep((long double)a, ld2); ld3 = 0.25L;'))
        L.append(('ld-compare-call', 'q = (ld1 < @deep((long double)a, ld2)) * 0;'))
    return L


class C20:
    id = 'C20'
    level = 'exploration'
    rule = ('cases = (form, operand type T, second type U, operand values, repetition count N in {1,7,8,9,64,100000}): ~45 expression/statement forms in discard contexts (expression '
            'statement, comma operands, void cast, unused call / ?: / statement expression, for-clauses, unused comparisons, casts, member/index/deref reads) and value contexts (chained '
            'assignment, op= chains, ++/--, nested and variadic calls, conditional operands, long double round trips, long double operands pending across 3..12 nested operations and across calls) over 16 types incl. long double and three by-value struct types, plus alloca and VLA forms, also evaluated while operands of the enclosing expression or call are pending on the stack (the pending values must survive the allocation). '
            'Invariants read by assembly probes from the same frame before and after the loop: rsp unchanged (alloca and VLA forms: a decrease of at most 16 KiB per iteration - the largest block is under 5 KiB), x87 TOP/tag word unchanged and empty; a long double '
            'expression evaluated afterwards and every printed value must equal gcc and clang. non-trivial = result type is long double or an aggregate, or the form pushes a temporary, and N >= 8; '
            'distinct by (form, T, U, N).')
    assumptions = ['gcc/clang leave rsp and the x87 stack balanced around a statement (they print the same probe values before and after)',
                   'D74 (a jump out of a statement expression while temporaries of the enclosing expression are pushed leaves them on the stack) recorded: jumps out of statement expressions are generated only at statement level']

    def budget(self, tier):
        return 1600 if tier == 'quick' else 20000

    def gen_case(self, ch):
        T, kT = ch.choice(TYPES)
        U, kU = ch.choice(TYPES[:13])
        fl = forms(ch, T, kT, U, kU)
        tag, stmt = ch.choice(fl)
        dyn = tag.startswith('alloca') or tag.startswith('vla')
        N = ch.choice([1, 7, 8, 9, 64, 100000]) if not dyn else ch.choice([1, 7, 8, 9, 64, 500])
        decls = ('static int @anchor[4];\n'
                 'static %s @f(void) { %s r = %s; return r; }\nstatic %s @id(%s x) { return x; }\nstatic void @g(%s x) { }\nstatic void @sink(void *p) { }\n'
                 'static void *@fill(void *p, int n) { for (int i = 0; i < n; i++) ((char *)p)[i] = 7; return p; }\n'
                 'static %s @id3(void *p, %s x, void *r) { return x; }\n'
                 % (T, T, init_for(ch, T, kT), T, T, T, T, T))
        if kT in 'if':
            decls += 'static int @va(int n, ...) { return n; }\n'
            decls += 'static long double @deep(long double x, long double y) { return x + (y + (x + (y + (x + (y + (x + (y * 0.5L))))))); }\n'
        body = ['%s a = %s, b = %s, c = %s;' % (T, init_for(ch, T, kT), init_for(ch, T, kT), init_for(ch, T, kT)),
                '%s u = %s, v = %s;' % (U, init_for(ch, U, kU), init_for(ch, U, kU)),
                '%s *pa = &a; %s arr[2] = { %s, %s }; struct { char pad; %s m; } w = { 1, %s }; %s (*fp)(void) = @f;' % (T, T, init_for(ch, T, kT), init_for(ch, T, kT), T, init_for(ch, T, kT), T),
                'volatile int k = 1; int q = 0; long double ld1 = 2.5L, ld2 = 4.0L, ld3 = 0.25L;',
                'long s0 = sp_probe(); int t0 = x87_probe();',
                'for (long it = 0; it < %d; it++) { %s }' % (N, stmt),
                'long s1 = sp_probe(); int t1 = x87_probe();']
        if dyn:
            body.append('printf("@ sp %%d x87 %%x %%x\\n", (int)(s0 - s1 >= 0 && s0 - s1 <= %dL * 16384), t0, t1);' % N)
        else:
            body.append('printf("@ sp %ld x87 %x %x\\n", s1 - s0, t0, t1);')
        body.append('{ long double chk = ld1 * ld2 + ld3 - (long double)q * 0; printf("@ chk %Lg %d\\n", chk, (int)(k + q * 0)); }')
        if kT in 'if':
            body.append('printf("@ val %Lg %Lg %Lg\\n", (long double)a, (long double)b, (long double)c);')
        nt = (tag, T, U, N) if ((T == 'long double' or kT == 'a' or tag in ('call-arg', 'call-nested', 'chain-assign', 'cond-assign', 'call-variadic', 'op-assign-chain', 'alloca', 'stmt-expr-value', 'to-long-double', 'from-long-double', 'cast-chain') or tag.startswith('ld-') or dyn) and N >= 8) else None
        return diffprog.Case(decls=decls, body='\n'.join('  ' + l for l in body) + '\n', nt=nt, tags=['form:' + tag, 'T:' + T, 'N:%d' % N])

    def example(self, ch, ctx):
        cases = []
        while ch.more(len(cases), 1, 30):
            cases.append(self.gen_case(ch))
        pr = os.path.join(ctx.wd, 'probes.s')
        if not os.path.exists(pr):
            open(pr, 'w').write(PROBES)
        fails = diffprog.judge(ctx, cases, extra=[pr], prelude=PRE, run_timeout=30)
        if fails:
            v = diffprog.violation_from(cases, fails[0], extra=[], prelude=PRE)
            v.replay['probes'] = True
            raise v

    def replay(self, tree, rep, wd):
        pr = os.path.join(wd, 'probes.s')
        open(pr, 'w').write(PROBES)
        rep = dict(rep); rep['extra'] = [pr]
        return diffprog.replay(tree, rep, wd, run_timeout=30)


CHECK = C20()
