"""C03 Control flow and lexical scoping follow the abstract machine.

Generator (a): statement skeletons with trace markers (loops with fuel, switch over every controlling
type with negative / wide / range case values and default anywhere, Duff shapes, break/continue across
nesting, goto, computed goto, short-circuit, ?:, comma, statement expressions).
Generator (b): shadowing programs: the same identifiers redeclared at file / parameter / block /
for-init scope as object, typedef name, enumerator, tag and label; each use prints what it bound to.
Oracle: the printed trace vs gcc/clang consensus."""
from vlib import core, diffprog

PRE = diffprog.PRELUDE + '#define T(n) printf(" %d", n)\n#define P(v) printf(" p%ld", (long)(v))\nstatic int M(int n) { printf(" m%d", n); return 1; }\nstatic int Z(int n) { printf(" z%d", n); return 0; }\n'

SWTYPES = [('char', -128, 127), ('unsigned char', 0, 255), ('short', -32768, 32767), ('int', -2 ** 31, 2 ** 31 - 1),
           ('unsigned', 0, 2 ** 32 - 1), ('long', -2 ** 63, 2 ** 63 - 1), ('unsigned long', 0, 2 ** 64 - 1), ('_Bool', 0, 1),
           ('enum @E', -2 ** 31, 2 ** 31 - 1), ('unsigned short', 0, 65535)]
CASEVALS = [-3, -1, 0, 1, 2, 3, 5, 7, 100, 127, 128, 200, 255, 256, -128, -129, 32767, 65535, 65536, 2 ** 31 - 1, 2 ** 31, -2 ** 31, 2 ** 32 - 1, 2 ** 32,
            2 ** 32 + 1, 2 ** 32 + 5, 2 ** 40, 2 ** 63 - 1, -2 ** 63, 2 ** 63, 2 ** 64 - 1, -2 ** 32, -2 ** 32 + 1, 0x100000002, 0x7fffffff00000000]


def clit(v, ty):
    if 'unsigned long' in ty or v > 2 ** 63 - 1:
        return '%dUL' % v if v >= 0 else '(-%dL)' % -v
    if v == -2 ** 63:
        return '(-9223372036854775807L-1)'
    if abs(v) > 2 ** 31 - 1:
        return '%dL' % v if v >= 0 else '(-%dL)' % -v
    return str(v) if v >= 0 else '(%d)' % v


class CF:
    def __init__(self, ch):
        self.ch = ch
        self.mark = 0
        self.labels = 0
        self.feat = set()
        self.nt = False
        self.tables = []

    def T(self):
        self.mark += 1
        return 'T(%d);' % self.mark

    def nm(self):
        self.mark += 1
        return self.mark

    def cond(self):
        ch = self.ch
        a = ch.choice(['i', 'j', 'k', 'x'])
        c = '%s %s %d' % (a, ch.choice(['<', '<=', '==', '!=', '>', '>=']), ch.int(-2, 4))
        k = ch.int(0, 19)
        if k < 5:
            c = '(%s) %s (%s(%d), %s %s %d)' % (c, ch.choice(['&&', '||']), ch.choice(['M', 'Z']), self.nm(), ch.choice(['i', 'j', 'x']), ch.choice(['<', '!=']), ch.int(0, 3))
            self.feat.add('shortcircuit')
        elif k < 7:
            c = '!(%s)' % c
        elif k < 9:
            c = '(%s) ? M(%d) : (M(%d), 0)' % (c, self.nm(), self.nm())
            self.feat.add('?:')
        elif k < 10:
            c = '(Z(%d) || M(%d)) && (%s)' % (self.nm(), self.nm(), c)
        return c

    def stmt(self, d, inloop, insw):
        ch = self.ch
        if d <= 0:
            return self.simple(inloop, insw)
        k = ch.choice(['simple', 'if', 'if', 'for', 'while', 'do', 'switch', 'switch', 'block', 'goto', 'stmtexpr', 'cgoto', 'duff', 'docont'])
        if k == 'if':
            t = 'if (%s) { %s }' % (self.cond(), self.block(d - 1, inloop, insw))
            if ch.bool():
                t += ' else { %s }' % self.block(d - 1, inloop, insw)
            return t
        if k == 'for':
            v = ch.choice(['i', 'j', 'k'])
            return 'for (%s = 0; %s < %d && fuel-- > 0; %s++) { %s }' % (v, v, ch.int(1, 4), v, self.block(d - 1, True, insw))
        if k == 'while':
            v = ch.choice(['i', 'j', 'k'])
            return '%s = %d; while (%s-- > 0 && fuel-- > 0) { %s }' % (v, ch.int(0, 3), v, self.block(d - 1, True, insw))
        if k == 'do':
            v = ch.choice(['i', 'j', 'k'])
            return '%s = %d; do { %s } while (--%s > 0 && fuel-- > 0);' % (v, ch.int(0, 3), self.block(d - 1, True, insw), v)
        if k == 'docont':
            # continue inside do-while must evaluate the controlling expression (with side effects)
            v = ch.choice(['i', 'j', 'k'])
            self.feat.add('do-continue'); self.nt = True
            cond = ch.choice(['M(%d) && ++%s < %d' % (self.nm(), v, ch.int(1, 4)), '0', 'Z(%d)' % self.nm(), '++%s < %d' % (v, ch.int(1, 3))])
            return '%s = 0; do { %s if (fuel-- > 0 && (%s)) continue; %s } while (%s);' % (v, self.T(), self.cond(), self.T(), cond)
        if k == 'switch':
            return self.switch(d, inloop)
        if k == 'duff':
            self.feat.add('duff'); self.nt = True
            n = ch.int(0, 9)
            return ('{ int n = %d; int cnt = (n + 3) / 4; switch (n %% 4) { case 0: do { %s case 3: %s case 2: %s case 1: %s } while (--cnt > 0 && fuel-- > 0); } }'
                    % (n, self.T(), self.T(), self.T(), self.T()))
        if k == 'block':
            return '{ int x = %d; %s P(x); %s }' % (ch.int(0, 9), self.T(), self.block(d - 1, inloop, insw))
        if k == 'goto':
            self.labels += 1
            l = 'L%d' % self.labels
            self.feat.add('goto'); self.nt = True
            if ch.bool():
                return 'if (fuel-- > 0 && (%s)) goto %s; %s %s: %s' % (self.cond(), l, self.T(), l, self.T())
            # backward goto
            return '%s: %s if (fuel-- > 0 && (%s)) goto %s;' % (l, self.T(), self.cond(), l)
        if k == 'cgoto':
            self.labels += 1
            n = self.labels
            self.feat.add('computed-goto'); self.nt = True
            sel = ch.choice(['i & 1', 'x & 1', '(j + 1) & 1', '1', '0'])
            return ('{ static void *tab%d[] = { &&LA%d, &&LB%d }; if (fuel-- > 0) goto *tab%d[%s]; LA%d: %s goto LE%d; LB%d: %s LE%d: ; }'
                    % (n, n, n, n, sel, n, self.T(), n, n, self.T(), n))
        if k == 'stmtexpr':
            self.feat.add('stmtexpr')
            return 'x = ({ %s %s i + 1; });' % (self.T(), self.block(d - 1, False, False))
        return self.simple(inloop, insw)

    def switch(self, d, inloop):
        ch = self.ch
        ty, lo, hi = ch.choice(SWTYPES)
        self.feat.add('switch:' + ty.replace(' @E', ''))
        # case values as seen after conversion to the promoted controlling type
        pool = [v for v in CASEVALS if lo <= v <= hi]
        if ty in ('char', 'unsigned char', 'short', 'unsigned short', '_Bool', 'enum @E'):
            plo, phi = -2 ** 31, 2 ** 31 - 1
        else:
            plo, phi = lo, hi
        vals = ch.sample(pool, ch.int(1, min(6, len(pool))))
        sel = ch.choice(vals + [v for v in (9, 4, 0, 1) if lo <= v <= hi])
        if any(abs(v) > 2 ** 31 for v in vals):
            self.feat.add('case>32bit'); self.nt = True
        if any(v < 0 for v in vals):
            self.feat.add('case<0')
        body = ''
        dflt = ch.int(0, len(vals)) if ch.int(0, 9) < 7 else -1
        used = set()
        for n, v in enumerate(vals):
            if v in used:
                continue
            if n == dflt:
                body += 'default: %s %s ' % (self.T(), '' if ch.bool() else 'break;')
                if n < len(vals) - 1:
                    self.feat.add('default-not-last'); self.nt = True
            width = ch.choice([0, 0, 0, 0, 1, 2, 5, 255])
            if width and v + width <= phi and all(not (v <= w <= v + width) for w in vals if w != v) and not any(v <= u <= v + width for u in used):
                body += 'case %s ... %s: ' % (clit(v, ty), clit(v + width, ty))
                self.feat.add('case-range'); self.nt = True
                for u in range(v, min(v + width, v + 300) + 1):
                    used.add(u)
            else:
                body += 'case %s: ' % clit(v, ty)
                used.add(v)
            body += self.block(d - 1, inloop, True) + ' '
            if ch.int(0, 9) < 6:
                body += 'break; '
            else:
                self.feat.add('fallthrough')
        if dflt == len(vals):
            body += 'default: %s ' % self.T()
        # selector: through a volatile object of the controlling type
        if ty == '_Bool':
            selt = str(1 if sel else 0)
        else:
            selt = clit(sel, ty)
        if ch.int(0, 4) == 0 and sel + 1 <= hi:
            selt = clit(sel + 1, ty)
        return '{ volatile %s sv = (%s)%s; switch (sv) { %s } }' % (ty, ty, selt, body)

    def simple(self, inloop, insw):
        ch = self.ch
        k = ch.int(0, 19)
        if inloop and k < 3:
            self.feat.add('continue')
            if insw:
                self.feat.add('continue-in-switch'); self.nt = True
            return 'if (%s) continue; %s' % (self.cond(), self.T())
        if (inloop or insw) and k < 6:
            if inloop and insw:
                self.feat.add('break-loop/switch'); self.nt = True
            return 'if (%s) break; %s' % (self.cond(), self.T())
        if k < 8:
            return 'x = (M(%d), x + 1);' % self.nm()
        return self.T()

    def block(self, d, inloop, insw):
        return ' '.join(self.stmt(d, inloop, insw) for _ in range(self.ch.int(1, 3 if d >= 2 else 2)))


NAMES = ['a', 'b', 'T', 'U']


class SC:
    """shadowing generator: env maps name -> (kind, id) in the ordinary name space, tags in the tag space."""

    def __init__(self, ch):
        self.ch = ch
        self.id = 0
        self.feat = set()

    def nid(self):
        self.id += 1
        return self.id

    def decl(self, env, tags, here, allow_static=True):
        ch = self.ch
        k = ch.int(0, 19)
        i = self.nid()
        space = 'tag' if k >= 15 else 'ord'
        cand = [n for n in NAMES if (space, n) not in here]
        if not cand:
            return ';'
        n = ch.choice(cand)
        here.add((space, n))
        if k < 8:
            st = ch.choice(['', '', 'static ']) if allow_static else ''
            ty = ch.choice(['int', 'char', 'long', 'short'])
            env[n] = ('var', i, {'int': 4, 'char': 1, 'long': 8, 'short': 2}[ty])
            return '%s%s %s = %d;' % (st, ty, n, i % 100)
        if k < 12:
            env[n] = ('typedef', i, 0)
            self.feat.add('typedef')
            return 'typedef struct { char c[%d]; } %s;' % (i + 8, n)
        if k < 15:
            env[n] = ('enum', i, 4)
            self.feat.add('enumerator')
            return 'enum { %s = %d };' % (n, i)
        if k < 18:
            tags[n] = ('struct', i)
            self.feat.add('tag')
            return 'struct %s { char c[%d]; };' % (n, i)
        tags[n] = ('union', i)
        self.feat.add('tag')
        return 'union %s { char c[%d]; };' % (n, i)

    def use(self, env, tags):
        ch = self.ch
        out = []
        for n in ch.sample(NAMES, ch.int(1, 3)):
            if n in env:
                kind, i, sz = env[n]
                if kind == 'typedef':
                    f = ch.int(0, 2)
                    if f == 0:
                        out.append('printf(" %s:t%%d", (int)sizeof(%s));' % (n, n))
                    elif f == 1:
                        out.append('{ %s tmp; printf(" %s:T%%d", (int)sizeof tmp); }' % (n, n))
                    else:
                        out.append('printf(" %s:c%%d", (int)sizeof((%s *)0)[0]);' % (n, n))
                else:
                    f = ch.int(0, 3)
                    if f == 0:
                        out.append('printf(" %s:v%%d", (int)%s);' % (n, n))
                    elif f == 1:
                        out.append('printf(" %s:s%%d", (int)sizeof(%s));' % (n, n))
                    elif f == 2:
                        out.append('printf(" %s:m%%d", (int)((%s) - 1));' % (n, n))
                    else:
                        out.append('printf(" %s:x%%d", (int)(%s * 2));' % (n, n))
            if n in tags:
                kw, i = tags[n]
                out.append('printf(" %s:g%%d", (int)sizeof(%s %s));' % (n, kw, n))
        return ' '.join(out)

    def block(self, env, tags, d, labels):
        ch = self.ch
        env = dict(env); tags = dict(tags)
        out = ['{']
        here = set()
        for _ in range(ch.int(1, 5)):
            k = ch.int(0, 19)
            if k < 7:
                out.append(self.decl(env, tags, here))
            elif k < 11:
                out.append(self.use(env, tags))
            elif k < 14 and d > 0:
                out.append(self.block(env, tags, d - 1, labels))
            elif k < 16 and d > 0:
                e2 = dict(env)
                n = ch.choice(NAMES)
                i = self.nid()
                e2[n] = ('var', i, 4)
                self.feat.add('for-init')
                out.append('for (int %s = %d, once = 1; once; once = 0) %s' % (n, i % 100, self.block(e2, tags, d - 1, labels)))
            elif k < 18:
                cand = [n for n in NAMES if n not in labels]
                if cand:
                    n = ch.choice(cand)
                    labels.add(n)
                    self.feat.add('label')
                    out.append('goto %s; printf(" skipped"); %s: ; %s' % (n, n, self.use(env, tags)))
            else:
                out.append(self.use(env, tags))
        out.append(self.use(env, tags))
        out.append('}')
        return '\n'.join(out)


class C03:
    id = 'C03'
    level = 'exploration'
    rule = ('cases = (a) functions built from random statement skeletons (depth<=D) with trace markers: if/else, for/while/do with fuel, switch over 10 '
            'controlling types with negative, >32-bit and range case values and default anywhere, Duff shapes, break/continue at every nesting relation, '
            'forward/backward goto, computed goto, &&, ||, ?:, comma, statement expressions; (b) shadowing programs over 4 names redeclared at file, parameter, '
            'block and for-init scope as object/typedef/enumerator/tag/label with uses that reveal the binding (value, sizeof, cast-vs-multiply parse). '
            'Oracle: trace printed by the chibicc build == gcc == clang. non-trivial = contains break/continue crossing a switch, non-final default, range or wide case, '
            'goto/computed goto, do-continue, Duff shape, or shadowing across >=2 scope kinds; distinct by feature set + skeleton hash.')
    assumptions = ['gcc and clang accept the GNU extensions used (case ranges, labels as values, statement expressions) with the documented semantics']

    def budget(self, tier):
        return 1000 if tier == 'quick' else 12000

    def gen_cf(self, ch, depth):
        g = CF(ch)
        body = g.block(ch.int(1, depth), False, False)
        txt = ('  int i = 0, j = 0, k = 0, x = 1, fuel = 60; printf("@");\n  %s\n  printf(" e%%d.%%d.%%d.%%d\\n", i, j, k, x);\n' % body)
        decls = 'enum @E { @EA = -5, @EB = 0, @EC = 100, @ED = 2147483647 };\n'
        nt = (tuple(sorted(g.feat)), core.shash(body)) if g.nt else None
        return diffprog.Case(decls=decls, body=txt, nt=nt, tags=sorted(g.feat))

    def gen_sc(self, ch):
        g = SC(ch)
        env = {}; tags = {}
        top = []
        here = set()
        for _ in range(ch.int(1, 4)):
            top.append(g.decl(env, tags, here, allow_static=False))
        # file-scope names must be unique per case: the case marker '@' cannot prefix these names (they are the point), so
        # each scoping case is emitted alone in its unit (see example()).
        pn = ch.choice(NAMES)
        e2 = dict(env)
        e2[pn] = ('var', g.nid(), 4)
        body = g.block(e2, tags, 3, set())
        fn = 'static void sc_fn(int %s) { printf("c0_"); %s printf("\\n"); }\n' % (pn, body)
        nt = (tuple(sorted(g.feat)), core.shash(body)) if len(g.feat) >= 2 else None
        return diffprog.Case(decls='\n'.join(top) + '\n' + fn, body='  sc_fn(77);\n', nt=nt, tags=['scope'] + sorted(g.feat))

    def example(self, ch, ctx):
        depth = 3 if ctx.quick else 4
        if ch.int(0, 3) == 0:
            # scoping programs: one per unit (file-scope names are the subject); a few per example
            for _ in range(ch.int(1, 4)):
                c = self.gen_sc(ch)
                fails = diffprog.judge(ctx, [c], prelude=PRE)
                if fails:
                    raise diffprog.violation_from([c], fails[0], prelude=PRE)
            return
        cases = []
        while ch.more(len(cases), 1, 30):
            cases.append(self.gen_cf(ch, depth))
        fails = diffprog.judge(ctx, cases, prelude=PRE)
        if fails:
            raise diffprog.violation_from(cases, fails[0], prelude=PRE)

    def replay(self, tree, rep, wd):
        return diffprog.replay(tree, rep, wd)


CHECK = C03()
