"""C09 Macro expansion follows C11 6.10.3 and terminates.

Generator: macro definition sets (object-like / function-like, 0-3 parameters, variadic forms, `#`, `##`
placed validly by construction, __VA_OPT__, GNU `, ## __VA_ARGS__`, names from a small pool so that self and
mutual recursion are frequent), redefinitions and #undef between invocations, and invocations with nested
calls, parenthesised commas, empty arguments, macro names as arguments and line breaks.
Oracle: token sequence of `chibicc -E` == consensus of `gcc -E -P` and `clang -E -P`; termination within a
generous limit (re-checked three times)."""
import os
from vlib import core, pptok

IDS = ['a', 'b', 'c', 'x', 'y', 'z']
MAC = ['F', 'G', 'H', 'OBJ', 'P', 'Q', 'V']
PLAIN = ['1', '2', '+', '-', '*', '"s"', 'a', 'b', 'x', '.5', 'e', '<', '>>', '=', '( a )', '( 1 , b )', "'c'", '3u', '->', '&&', '0x1f', 'L"w"', '...', '[', ']']
PASTE_ARGS = ['r', 's1', 'x', 'k9', 'OBJ', 'F', '_', 'G']
# literals with escapes, and a backslash outside any literal: 6.10.3.2p2 escapes \\ and " only inside literals
ESC = ['"a\\n"', "'\\\\'", '"\\\\"', "'\\''", '"q\\"r"', "'\\n'", 'L"w\\t"', 'u8"\\\\"', '\\n', '\\ 1']      # the token after a bare backslash is never a parameter name: an empty argument there would leave the
                                                                                                             # backslash last in a # operand, which is not a valid string literal (6.10.3.2p2: undefined)


class M:
    def __init__(s, name, kind, params=(), va=None, paste_params=(), nonempty=(), has_hash=False, r_params=()):
        s.name, s.kind, s.params, s.va = name, kind, list(params), va
        s.paste_params, s.nonempty, s.has_hash = set(paste_params), set(nonempty), has_hash
        s.r_params = set(r_params)      # parameters used only as the right operand of ##: their argument may be a whole invocation


class Gen:
    def __init__(self, ch, excl):
        self.ch = ch
        self.macs = {}
        self.lines = []
        self.feat = set()
        self.excl = excl
        self.loose_strings = False     # a '#' can see already-expanded material
        self.ninv = 0
        # D27 (recorded) is excluded per program: either no macro ever uses `, ## __VA_ARGS__`, or (one program in four) such macros
        # may appear and then, from the first line on, no macro is ever redefined, and every variable argument is non-empty and
        # consists of plain tokens only (no macro names, no identifiers that could be parameters of an enclosing macro)
        self.comma_paste_program = ch.int(0, 3) == 0
        self.param_body_mentions_macro = False

    def sp(self):
        return self.ch.choice([' ', ' ', ' ', '  ', ''])

    def body(self, params, va, fn, name, pparams=None):
        ch = self.ch
        pparams = params if pparams is None else pparams
        out = []
        n = ch.int(0, 7)
        paste_params = set(); nonempty = set(); self._l = set(); self._r = set()
        has_hash = False
        for i in range(n):
            r = ch.int(0, 99)
            if params and r < 28:
                out.append(ch.choice(params))
            elif fn and params and r < 38:
                p = ch.choice(params)
                out.append('#' + self.sp() + p)
                has_hash = True
                self.feat.add('#')
            elif r < 58:
                cand = list(self.macs) + [None]
                m = ch.choice(cand)
                if m is None:
                    out.append(ch.choice(MAC))       # possibly self-reference or a name defined later / never
                    self.feat.add('raw-macro-name')
                else:
                    out.append(m)
                    mm = self.macs[m]
                    if mm.kind == 'f' and ch.int(0, 9) < 7:
                        out.append(self.call_args(mm, params, depth=0, inbody=True))
                if params:
                    self.param_body_mentions_macro = True
            elif r < 68:
                if not fn:
                    # object-like macro: ## between two literal tokens
                    self.feat.add('##-objlike')
                    out.append('%s ## %s' % (ch.choice(['p', 'q', 'n_', 'OB']), ch.choice(['r', '1', 'k', 'J'])))
                    continue
                self.feat.add('##')
                k = ch.int(0, 4)
                if k == 0 or not pparams:
                    out.append('%s ## %s' % (ch.choice(['p', 'q', 'n_']), ch.choice(['r', '1', 'k'])))
                elif k == 1:
                    p = ch.choice(pparams); paste_params.add(p); self._r.add(p)
                    out.append('%s ## %s' % (ch.choice(['p', 'q', 'n_']), p))
                elif k == 2:
                    p = ch.choice(pparams); paste_params.add(p); self._l.add(p)
                    out.append('%s ## %s' % (p, ch.choice(['1', '2', '0'])))
                elif k == 3 and len(pparams) >= 2:
                    p, q = ch.sample(pparams, 2)
                    paste_params |= {p, q}; nonempty |= {q}; self._l.add(p); self._r.add(q)      # D25: never two possibly-empty operands (the right one is never empty)
                    out.append('%s ## %s' % (p, q))
                    self.feat.add('param##param')
                else:
                    p = ch.choice(pparams); paste_params.add(p); nonempty.add(p); self._l.add(p)
                    out.append('%s ## %s ## %s' % (ch.choice(['p', 'q']), p, ch.choice(['z', '2'])))
                    self.feat.add('##-chain')
            else:
                out.append(ch.choice(PLAIN))
        if va:
            k = ch.int(0, 9)
            vname = va if va != '...' else '__VA_ARGS__'
            if k < 4:
                out.append(vname)
            elif k < 6:
                out.append('# ' + vname); has_hash = True; self.feat.add('#va')
            elif k < 8 and self.comma_paste_program:
                out.append(', ## ' + vname); self.feat.add(',##va')
            elif k < 8:
                out.append(vname)
            elif va != '...':
                out.append(vname)
            else:
                # the variable argument after __VA_OPT__ also as the operand of #: it must be spelled unexpanded although __VA_OPT__ had it expanded
                tail = ch.choice([vname, vname, '# ' + vname, '%s # %s' % (vname, vname)])
                if '#' in tail:
                    has_hash = True; self.feat.add('#va'); self.feat.add('__VA_OPT__+#va')
                out.append('__VA_OPT__ ( %s ) %s' % (ch.choice([',', 'x y', '+', ''] + (['%s +' % params[0], '# %s' % params[0]] if params else [])), tail)); self.feat.add('__VA_OPT__')
        s = ''
        for t in out:
            s += t + ch.choice([' ', ' ', '  '])
        return s.strip(), paste_params, nonempty, has_hash

    def define(self):
        ch = self.ch
        name = ch.choice(MAC)
        if name in self.macs and self.comma_paste_program:
            free = [m for m in MAC if m not in self.macs]
            if not free:
                return
            name = ch.choice(free)
        if name in self.macs:
            # redefinition needs an #undef first unless identical; emit #undef
            self.lines.append('#undef %s' % name)
            del self.macs[name]
            self.feat.add('redefine')
        if ch.int(0, 99) < 35:
            b, _, _, _ = self.body([], None, False, name)
            # an object-like macro whose body starts with '(' needs a space (it always has one here)
            self.lines.append('#define %s %s' % (name, b))
            self.macs[name] = M(name, 'o')
        else:
            np_ = ch.int(0, 3)
            params = ch.sample(IDS, np_)
            va = None
            k = ch.int(0, 9)
            if k < 3:
                va = '...'
            elif k < 4:
                va = 'rest'       # GNU named variadic
            b, pp, ne, hh = self.body(params + ([va] if va == 'rest' else []), va, True, name, pparams=params)
            plist = ','.join(params + (['...'] if va == '...' else (['rest...'] if va == 'rest' else [])))
            self.lines.append('#define %s(%s) %s' % (name, plist, b))
            self.macs[name] = M(name, 'f', params, va, pp, ne, hh, r_params=self._r - self._l)
            if va:
                self.feat.add('variadic')

    def plain_arg(self, extra):
        ch = self.ch
        toks = [ch.choice(PLAIN[:8] + IDS + list(self.macs) + list(extra)) for _ in range(ch.int(1, 3))]
        if ch.int(0, 7) == 0:
            toks.insert(ch.int(0, len(toks)), ch.choice(ESC))
            self.feat.add('escape-in-arg')
        return ' '.join(toks)

    def arg(self, d, m, p, extra=()):
        ch = self.ch
        if p in m.r_params and d > 0 and ch.int(0, 2) == 0:
            # right operand of ##: only its first token is pasted, the argument is NOT macro-expanded first (6.10.3.1)
            self.feat.add('paste-arg-is-invocation')
            if m.name in self.macs and ch.bool():
                return m.name + self.call_args(m, extra, d - 1)
            return self.inv(d - 1, extra)
        if p in m.paste_params:
            if p not in m.nonempty and ch.int(0, 5) == 0:
                self.feat.add('empty-arg')
                return ''
            return ch.choice(PASTE_ARGS[:4] + list(extra)[:1]) if ch.int(0, 3) else ch.choice(PASTE_ARGS)
        r = ch.int(0, 99)
        if r < 12:
            self.feat.add('empty-arg')
            return ''
        if r < 40 and d > 0:
            self.feat.add('nested-call')
            return self.inv(d - 1, extra)
        if r < 50 and d > 0:
            self.feat.add('paren-comma')
            return '(' + self.arg(d - 1, m, None, extra) + ',' + self.arg(d - 1, m, None, extra) + ')'
        return self.plain_arg(extra)

    def call_args(self, m, extra=(), depth=1, inbody=False):
        ch = self.ch
        args = [self.arg(depth, m, p, extra) for p in m.params]
        if m.va:
            k = ch.int(0, 9)
            comma_paste = self.comma_paste_program
            if k < 2 and m.params:
                self.feat.add('va-absent')          # F(a) for F(x,...)
            else:
                nva = ch.int(1, 3)
                vas = []
                for _ in range(nva):
                    a = self.plain_arg(())
                    if comma_paste:
                        # D27 (recorded): the operand of `, ## __VA_ARGS__` is macro-expanded first: once such a macro exists in
                        # the program, variable arguments carry no macro names (they can be forwarded to it)
                        self.excl['D27'] = self.excl.get('D27', 0) + 1
                        a = ' '.join(ch.choice(['1', '2', '+', '-', '*', '"s"', '.5', '<']) for _ in range(ch.int(1, 2)))
                    vas.append(a)
                args += vas
        if not m.params and not m.va:
            return ch.choice(['()', '( )'])
        nl = (not inbody) and ch.int(0, 5) == 0
        if nl:
            self.feat.add('multi-line-invocation')
        sep = ch.choice([',', ' , ', ', ']) if not nl else ',\n  '
        return ch.choice(['', ' ']) + '(' + ('\n ' if nl and ch.bool() else '') + sep.join(args) + ')'

    def inv(self, d, extra=()):
        ch = self.ch
        m = self.macs[ch.choice(sorted(self.macs))]
        self.ninv += 1
        if m.kind == 'o':
            return m.name
        if ch.int(0, 9) == 0:
            self.feat.add('funclike-without-paren')
            return m.name
        return m.name + self.call_args(m, extra, d)

    def program(self):
        ch = self.ch
        for _ in range(ch.int(1, 5)):
            self.define()
        if not self.macs:
            self.lines.append('#define OBJ 1'); self.macs['OBJ'] = M('OBJ', 'o')
        for k in range(ch.int(1, 4)):
            self.lines.append('[ %s ] %s %s' % (self.inv(2), ch.choice(PLAIN), ch.choice(sorted(self.macs) + IDS)))
            if ch.int(0, 11) == 0 and not self.comma_paste_program:
                # an object-like macro with an empty replacement list whose directive is followed by a line starting with '('
                name = ch.choice(MAC)
                if name in self.macs:
                    self.lines.append('#undef %s' % name)
                self.lines.append('#define %s' % name)
                self.macs[name] = M(name, 'o')
                self.lines.append('( %s ) [ %s ] %s' % (ch.choice(IDS), name, ch.choice(PLAIN)))
                self.feat.add('empty-objlike-then-paren-line')
            if ch.int(0, 5) == 0:
                # history: redefine / undef between invocations
                if ch.bool() and self.macs and not self.comma_paste_program:
                    u = ch.choice(sorted(self.macs))
                    self.lines.append('#undef %s' % u)
                    del self.macs[u]
                    self.feat.add('undef')
                self.define()
        # D76 (recorded): a function-like macro name directly followed by an object-like macro with an empty replacement list is the
        # deferred-invocation shape on which Prosser's hide sets and the context rule of gcc/clang differ; a '+' is put between them
        import re
        fn = set(); empty = set()
        for l in self.lines:
            m = re.match(r'#define (\w+)(\()?(.*)$', l)
            if m:
                if m.group(2):
                    fn.add(m.group(1))
                elif not m.group(3).strip():
                    empty.add(m.group(1))
        if fn and empty:
            pat = re.compile(r'\b(%s)(\s+)(%s)\b' % ('|'.join(sorted(fn)), '|'.join(sorted(empty))))
            for i, l in enumerate(self.lines):
                head = ''
                body = l
                m = re.match(r'(#define \w+(\([^)]*\))?)(.*)$', l)
                if m:
                    head, body = m.group(1), m.group(3)
                elif l.startswith('#'):
                    continue
                nb = body
                while True:
                    nb2 = pat.sub(lambda mm: mm.group(1) + ' + ' + mm.group(3), nb)
                    if nb2 == nb:
                        break
                    nb = nb2
                if nb != body:
                    self.excl['D76'] = self.excl.get('D76', 0) + 1
                    self.lines[i] = head + nb
        # D76, second shape: a replacement list that ends with the name of a function-like macro, used where the next token is not '('.
        # Whether an enclosing macro is still "being replaced" when the following tokens are rescanned is where hide sets and the
        # context stack of gcc/clang differ (the peek for '(' pops the finished contexts).  A '+' is appended to such a list unless
        # every occurrence of the macro's name in the program is followed by '(' (the f(2)(9) pattern of 6.10.3.5 stays in).
        if fn:
            for i, l in enumerate(self.lines):
                m = re.match(r'#define (\w+)(\([^)]*\))?(.*)$', l)
                if not m:
                    continue
                body = m.group(3).rstrip()
                mm = re.search(r'(\w+)$', body)
                if not mm or mm.group(1) not in fn:
                    continue
                name = m.group(1)
                uses_ok = True
                for j, l2 in enumerate(self.lines):
                    txt = l2
                    if l2.startswith('#define'):
                        m2 = re.match(r'#define \w+(\([^)]*\))?(.*)$', l2)
                        txt = m2.group(2) if m2 else ''
                    elif l2.startswith('#'):
                        continue
                    for u in re.finditer(r'\b%s\b' % re.escape(name), txt):
                        if not re.match(r'\s*\(', txt[u.end():]):
                            uses_ok = False
                if not uses_ok:
                    self.excl['D76'] = self.excl.get('D76', 0) + 1
                    self.lines[i] = l.rstrip() + ' +'
        src = '\n'.join(self.lines) + '\n'
        # A '#' can see already-expanded material whenever some macro stringizes and some macro with parameters has a macro name in
        # its replacement list (directly or through any chain, an argument of the stringizing macro can then come from a parameter).
        import re
        any_hash = any(re.search(r'(^|[^#])#($|[^#])', l.split(None, 2)[2] if len(l.split(None, 2)) > 2 else '') for l in self.lines if l.startswith('#define'))
        self.loose_strings = bool(any_hash and self.param_body_mentions_macro)
        return src


class C09:
    id = 'C09'
    level = 'exploration'
    rule = ('cases = a definition set of 1-6 macros over a 7-name pool (object-like and function-like, 0-3 parameters, `...`/named variadics, # and ## placed validly by construction, '
            '__VA_OPT__, `, ## __VA_ARGS__`, redefinition and #undef between invocations) plus 1-4 invocation lines (nested calls, parenthesised commas, empty arguments, macro names as '
            'arguments, string and character literals with escapes and backslashes outside literals as arguments, invocations spanning lines, function-like names without parentheses, empty object-like definitions followed by a line that starts with a parenthesis). Oracle: pp-token sequence of chibicc -E == gcc -E -P == clang -E -P (all lexed by the same '
            'lexer); preprocessing must finish within 10 s (confirmed 3x). non-trivial = nested expansion, # or ## with an empty or multi-token operand, recursive reference, '
            'variadic form or multi-line invocation; distinct by program text.')
    assumptions = ['gcc -E -P and clang -E -P (gnu11) agree on the token sequence; inputs either reference rejects are discarded (counted)',
                   'string literals produced by # are compared exactly when the operand is spelled in the invocation itself; when a macro that stringizes is invoked from the body of a macro with parameters (its operand can consist of already-expanded material, whose spacing 6.10.3.2p2 does not fix) the literals of that program are compared modulo white space',
                   'D56 (-E rejects pp-numbers that are not valid constants) excluded by its diagnostic when ## on forwarded arguments forms such a number (counted)',
                   'recorded findings excluded by construction: D25 (two possibly-empty ## operands / placemarker chains), D27 (`, ## __VA_ARGS__`: operand macro-expanded first, comma dropped for a present-but-empty variable argument): decided per program: in a program that may use `, ## __VA_ARGS__` no macro is redefined and every variable argument is non-empty and made of plain tokens only',
                   'D76 (deferred invocation: hide sets vs the context rule) recorded: a function-like macro name is never directly followed by an object-like macro whose replacement list is empty (a + is inserted, counted); D75 (__VA_OPT__ next to ##) recorded: not generated']
    excl = {'D56': 0, 'D27': 0, 'D76': 0}

    def budget(self, tier):
        return 2500 if tier == 'quick' else 30000

    def one(self, ch, ctx):
        g = Gen(ch, self.excl)
        src = g.program()
        st = ctx.stats
        d = ctx.fresh_dir()
        p = os.path.join(d, 't.c')
        open(p, 'w').write(src)
        try:
            rg, tg, eg, tog, _ = pptok.cpp(ctx.tree, 'gcc', p, timeout=5)
            rc_, tc, ec, toc, _ = pptok.cpp(ctx.tree, 'clang', p, timeout=5)
            if rg != 0 or rc_ != 0 or tog or toc:
                st.count('ref_reject')
                if st.counters['ref_reject'] <= 3:
                    st.samples.append({'ref_reject': (eg or ec)[:200], 'case': src})
                return
            if tg != tc:
                if pptok.norm_strings(tg) != pptok.norm_strings(tc):
                    st.count('ref_disagree')
                    return
                loose = True
            else:
                loose = g.loose_strings   # spacing inside a stringized literal is compared exactly only where 6.10.3.2p2 fixes it: operands spelled in the invocation itself
            rx, tx, ex, tox, raw = pptok.cpp(ctx.tree, 'chibicc', p, timeout=10)
            nt = core.shash(src) if (g.feat & {'nested-call', '#', '##', 'raw-macro-name', 'variadic', 'multi-line-invocation', 'empty-arg', '#va', ',##va', '__VA_OPT__', 'redefine', 'undef'}) else None
            for f in g.feat:
                st.tag(f)
            st.case(nt, sample=({'source': src, 'tokens': ' '.join(tg)[:300]} if len(st.samples) < 3 else None))
            bad = None
            if tox:
                bad = 'chibicc -E does not terminate within 10 s'
            elif rx != 0 and is_d56(ex):
                # recorded finding D56: -E converts pp-numbers, so a pp-number that is not a valid constant (only reachable
                # here through ## on forwarded arguments) is a hard error; identified by its diagnostic
                self.excl['D56'] = self.excl.get('D56', 0) + 1
            elif rx != 0:
                bad = 'chibicc -E rejects input accepted by gcc and clang: rc=%s %s' % (rx, ex.strip().split('\n')[-1][:200])
            else:
                a, b = (pptok.norm_strings(tx), pptok.norm_strings(tg)) if loose else (tx, tg)
                if a != b and is_d27(src, a, b):
                    # recorded finding D27: an invocation that only comes into being during expansion (a parameter that stands for an
                    # empty argument inside a generated argument list, a macro name passed as an argument) can give ', ## __VA_ARGS__'
                    # a present-but-empty variable argument although no generated invocation does; identified by the program shape
                    # and the symptom: the sequences differ only in commas that chibicc dropped
                    self.excl['D27'] = self.excl.get('D27', 0) + 1
                elif a != b:
                    bad = 'token sequence differs\n  expected: %s\n  observed: %s' % (' '.join(tg)[:600], ' '.join(tx)[:600])
            if bad:
                rep = {'kind': 'cpp', 'source': src, 'loose_strings': loose, 'signature': core.shash(src)}
                raise core.Violation(rep, bad + '\n--- source ---\n' + src)
        finally:
            import shutil
            shutil.rmtree(d, ignore_errors=True)

    def example(self, ch, ctx):
        n = 0
        while ch.more(n, 1, 12):
            self.one(ch, ctx)
            n += 1
        for k, v in self.excl.items():
            ctx.stats.counters['excluded_by_known_finding:' + k] = v

    def replay(self, tree, rep, wd):
        return cpp_replay(tree, rep, wd)


def is_d27(src, got, want):
    """the program has `, ## __VA_ARGS__` and chibicc's token sequence is the references' minus some commas"""
    import re
    if not re.search(r',\s*##\s*__VA_ARGS__', src):
        return False
    if [t for t in got if t != ','] != [t for t in want if t != ',']:
        return False
    # `got` must be obtainable from `want` by deleting commas only (never by adding one)
    i = 0
    for t in want:
        if i < len(got) and got[i] == t:
            i += 1
        elif t != ',':
            return False
    return i == len(got)


def is_d56(err):
    import re
    last = err.strip().split('\n')[-1]
    if 'invalid numeric constant' in last:
        return True
    m = re.search(r"pasting forms '([^']*)', an invalid token", last)
    return bool(m and re.match(r'^\.?\d[\w.]*$', m.group(1)))


def cpp_replay(tree, rep, wd, args=()):
    p = os.path.join(wd, 't.c')
    open(p, 'w').write(rep['source'])
    for name, content in rep.get('files', {}).items():
        q = os.path.join(wd, name)
        os.makedirs(os.path.dirname(q), exist_ok=True)
        open(q, 'w').write(content)
    args = list(rep.get('args', args))
    rg, tg, eg, tog, _ = pptok.cpp(tree, 'gcc', p, args=rep.get('ref_args', args), cwd=wd, timeout=5)
    rc_, tc, ec, toc, _ = pptok.cpp(tree, 'clang', p, args=rep.get('ref_args', args), cwd=wd, timeout=5)
    if rg != 0 or rc_ != 0 or tog or toc:
        return False, 'references reject this input (not decidable)'
    loose = rep.get('loose_strings', False)
    if tg != tc:
        if pptok.norm_strings(tg) != pptok.norm_strings(tc):
            return False, 'references disagree (not decidable)'
        loose = True
    hang = 0
    for i in range(3):
        rx, tx, ex, tox, raw = pptok.cpp(tree, 'chibicc', p, args=args, cwd=wd, timeout=10)
        if not tox:
            break
        hang += 1
    if hang == 3:
        return True, 'chibicc -E does not terminate within 10 s (3 attempts)'
    if rx != 0:
        return True, 'chibicc -E rejects input accepted by gcc and clang: %s' % ex.strip().split('\n')[-1][:200]
    a, b = (pptok.norm_strings(tx), pptok.norm_strings(tg)) if loose else (tx, tg)
    if a != b and is_d27(rep['source'], a, b) and not rep.get('finding'):
        return False, 'recorded finding D27 (commas of , ## __VA_ARGS__ with a present-but-empty variable argument)'
    if a != b:
        return True, 'expected: %s\nobserved: %s' % (' '.join(tg)[:500], ' '.join(tx)[:500])
    return False, 'token sequences agree: %s' % ' '.join(tg)[:200]


CHECK = C09()
