"""C10 Conditional inclusion and #include resolution select exactly the right text.

(a) conditional trees (#if/#ifdef/#ifndef/#elif/#else/#endif to depth 4) whose controlling expressions come from the
integer model in preprocessor mode (intmax_t/uintmax_t, exact expected value), with `defined`, undefined identifiers,
macros expanding to sub-expressions, trailing tokens and comments on directive lines, and skipped groups that contain
invalid directives, #error, missing includes and never-evaluated divisions by zero; every group carries a marker.
(b) include graphs over a generated directory tree: same-named headers in the includer's directory, -I directories,
the compiler's own include directory and -idirafter directories; "...", <...>, macro-expanded and #include_next forms;
guard shapes, #pragma once, guards #undef-ed between inclusions; -include/-D/-U in generated order.
Oracle: marker-token sequence of chibicc -E == gcc -E -P == clang -E -P (the model's truth values are cross-checked)."""
import os, re, shutil
from vlib import core, pptok, igen
from checks.c09 import cpp_replay

NAMES = ['hq_a.h', 'hq_b.h', 'hq_c.h', 'hq_d.h']


class Cond:
    def __init__(self, ch):
        self.ch = ch
        self.cnt = 0
        self.feat = set()
        self.expected = []     # markers the model expects to be emitted
        self.defs = {}         # macro -> value text (or None if undefined)
        self.nt = False

    def mark(self, live):
        self.cnt += 1
        m = 'm%d' % self.cnt
        if live:
            self.expected.append(m)
        return m

    def pexpr(self):
        """(text, truth) of a controlling expression"""
        ch = self.ch
        k = ch.int(0, 9)
        if k < 5:
            g = igen.Gen(ch, pp=True)
            e = g.expr(ch.int(1, 3))
            if g.nt:
                self.nt = True
            form = ch.int(0, 2)
            if form == 0:
                return e.ctxt, e.v != 0
            v = igen.conv(e.v, igen.ULONG)
            if form == 1:
                return '(%s) == %du' % (e.ctxt, v), True
            return '(%s) != %du' % (e.ctxt, v), False
        if k < 7:
            n = ch.choice(['X', 'Y', 'Z', 'UNDEF'])
            d = self.defs.get(n) is not None
            t = ch.choice(['defined %s', 'defined(%s)', 'defined ( %s )', '!defined %s', '!defined(%s)'])
            self.feat.add('defined')
            return t % n, (d if not t.startswith('!') else not d)
        if k < 9:
            # identifier: macro value or 0 when undefined (or defined empty -> not usable alone)
            n = ch.choice(['X', 'Y', 'Z', 'UNDEF', 'UNDEF2'])
            v = self.defs.get(n)
            if v is None:
                self.feat.add('undefined-ident->0')
                op = ch.choice(['', ' + 1', ' == 0', ' || 0'])
                return n + op, {'': False, ' + 1': True, ' == 0': True, ' || 0': False}[op]
            if v[1] is None:
                return 'defined %s' % n, True
            self.feat.add('macro-in-#if')
            return '%s == %d' % (n, v[1]), True
        # never-evaluated operands
        self.feat.add('unevaluated-division')
        f = ch.int(0, 2)
        if f == 0:
            return '0 && (1 / 0)', False
        if f == 1:
            return '1 || (1 % 0)', True
        return '1 ? 2 : (3 / 0)', True

    def junk(self):
        """content of a skipped group: must have no effect at all"""
        ch = self.ch
        return ch.choice(['#error never', '#include "does_not_exist.h"', '#bogus directive', '#define X 99', '#undef Y',
                          '#if 1 / 0\n#endif', '#elif_typo', '#line 0', '#pragma once', '#define Z(', '#if (\n#endif', '#ifdef\n#endif', 'plain',
                          # null directives (6.10.7) followed by a text line that starts with a directive name
                          '#\nendif', '#\nelse', '# \nif 1', '#\nelif 1', '#\nifdef X', '# /* c */\nendif x'])

    def group(self, d, live):
        ch = self.ch
        out = []
        for _ in range(ch.int(1, 3)):
            k = ch.int(0, 19)
            if d > 0 and k < 9:
                form = ch.choice(['if', 'if', 'if', 'ifdef', 'ifndef'])
                self.feat.add(form)
                if form == 'if':
                    e, t = self.pexpr() if live else (self.ch.choice(['1', '0', 'garbage here (', '1 / 0', 'X +']), False)
                    out.append('#if ' + e)
                else:
                    n = ch.choice(['X', 'Y', 'Z', 'UNDEF'])
                    t = (self.defs.get(n) is not None) == (form == 'ifdef')
                    tail = ch.choice(['', '', ' trailing', ' /* c */', ' // c'])
                    if tail == ' trailing':
                        self.feat.add('trailing-tokens')
                    out.append('#%s %s%s' % (form, n, tail))
                taken = live and t
                done = taken
                if d >= 2:
                    self.nt = True
                out += self.group(d - 1, taken)
                for _ in range(ch.int(0, 2)):
                    self.feat.add('elif')
                    if live and not done:
                        e, t = self.pexpr()
                    else:
                        # an #elif after a taken group (or in a skipped section) is not evaluated
                        e, t = ch.choice(['1', '0', '1 / 0', 'X X', '(']) if (done or not live) else ('0', False), False
                        if e in ('1 / 0', 'X X', '('):
                            self.feat.add('elif-not-evaluated')
                    out.append('#elif ' + e)
                    tk = live and (not done) and t
                    out += self.group(d - 1, tk)
                    done = done or tk
                if ch.int(0, 9) < 6:
                    tail = ch.choice(['', '', ' junk', ' // c', ' /* c */'])
                    if tail == ' junk':
                        self.feat.add('trailing-tokens')
                    out.append('#else' + tail)
                    out += self.group(d - 1, live and not done)
                tail = ch.choice(['', '', '', ' X', ' /* c */', ' // e'])
                if tail == ' X':
                    self.feat.add('trailing-tokens')
                out.append('#endif' + tail)
            elif k < 12:
                nm = ch.choice(['X', 'Y', 'Z'])
                if ch.int(0, 9) < 6:
                    v = ch.choice([('1', 1), ('0', 0), ('(2-1)', 1), ('(-1)', -1), ('', None), ('4294967296', 4294967296), ('(1 << 40)', 1 << 40)])
                    if self.defs.get(nm) is not None:
                        out.append('#undef %s' % nm)
                    out.append('#define %s %s' % (nm, v[0]))
                    if live:
                        self.defs[nm] = v
                    elif self.defs.get(nm) is not None and False:
                        pass
                    if not live:
                        # the #undef/#define pair sits in a skipped group: no effect
                        pass
                else:
                    out.append('#undef %s' % nm)
                    if live:
                        self.defs[nm] = None
                out.append(self.mark(live))
            elif k < 14 and not live:
                out.append(self.junk())
                self.feat.add('junk-in-skipped-group')
                out.append(self.mark(live))
            else:
                out.append(self.mark(live))
        return out

    def program(self):
        ch = self.ch
        pre = []
        for m in ['X', 'Y', 'Z']:
            if ch.int(0, 9) < 6:
                v = ch.choice([('1', 1), ('0', 0), ('5', 5), ('(3)', 3)])
                pre.append('#define %s %s' % (m, v[0]))
                self.defs[m] = v
        body = self.group(ch.int(1, 4), True)
        # a #define inside a skipped group must not leak: the model tracked only live definitions; but a skipped '#undef X' before a
        # live '#define X' was emitted only when X was defined in the model, which matches the live state
        return '\n'.join(pre + body) + '\n'


def fix_skipped_defines(src):
    return src


class Inc:
    """include graph generator; returns (files dict relative to case dir, args, ref_args, main text, feature set)"""

    def __init__(self, ch, sysdir, excl):
        self.ch = ch
        self.feat = set()
        self.sysdir = sysdir
        self.excl = excl

    def build(self):
        ch = self.ch
        dirs = ['.', 'i1', 'i2', 'i3', 'aft1', 'aft2', 'sub']
        il = ch.shuffle([x for x in ['i1', 'i2', 'i3'] if ch.int(0, 9) < 8]) or ['i1']
        al = ch.shuffle([x for x in ['aft1', 'aft2'] if ch.int(0, 9) < 7])
        placed = {}
        for nm in NAMES:
            for dr in dirs:
                if ch.int(0, 99) < 45:
                    placed[(dr, nm)] = None
            # every name must resolve through the search path from anywhere
            if not any((dr, nm) in placed for dr in il + al):
                placed[(ch.choice(il), nm)] = None
        files = {}
        guards = []
        for (dr, nm) in sorted(placed):
            tag = 'M_%s_%s' % (dr.replace('.', 'top'), nm[3])
            style = ch.choice(['plain', 'plain', 'guard', 'guard', 'once', 'guard_tail', 'guard_else', 'guard_text_before', 'guard_other_macro', 'guard_nested',
                               'guard_elif', 'guard_elif_defined', 'guard_if_not_defined', 'guard_then_ifdef', 'guard_comment_after'])
            inner = [tag + ';']
            if ch.bool():
                other = ch.choice(NAMES)
                if other > nm:          # a header only includes names that sort after its own: no cycles
                    form = ch.choice(['"%s"', '<%s>', 'MACRO'])
                    if form == 'MACRO':
                        inner.append('#define HDR_%s <%s>' % (nm[3], other) if ch.bool() else '#define HDR_%s "%s"' % (nm[3], other))
                        inner.append('#include HDR_%s' % nm[3])
                        inner.append('#undef HDR_%s' % nm[3])
                        self.feat.add('macro-include')
                    else:
                        inner.append('#include ' + form % other)
                    self.feat.add('nested-include')
            g = ('G_%s_%s' % (dr.replace('.', 'top'), nm[3])).upper()
            guards.append(g)
            if style == 'plain':
                body = inner
            elif style == 'guard':
                body = ['#ifndef %s' % g, '#define %s' % g] + inner + ['#endif']
            elif style == 'once':
                body = ['#pragma once'] + inner
            elif style == 'guard_tail':
                body = ['#ifndef %s' % g, '#define %s' % g] + inner + ['#endif', tag + '_tail;', '#if 0', '#endif']
            elif style == 'guard_else':
                body = ['#ifndef %s' % g, '#define %s' % g] + inner + ['#else', tag + '_again;', '#endif']
            elif style == 'guard_elif':
                # the guard's own #ifndef continues with #elif: the second inclusion (guard defined) selects the #elif group
                body = ['#ifndef %s' % g, '#define %s' % g] + inner + ['#elif %s' % ch.choice(['1', '%s + 1' % g, 'defined %s' % g, '!0']), tag + '_again;', '#endif']
            elif style == 'guard_elif_defined':
                body = ['#ifndef %s' % g, '#define %s' % g] + inner + ['#elif !defined(%s)' % g, tag + '_never;', '#elif defined(%s)' % g, tag + '_again;', '#else', tag + '_never2;', '#endif']
            elif style == 'guard_if_not_defined':
                body = ['#if !defined(%s)' % g, '#define %s' % g] + inner + ['#endif']
            elif style == 'guard_then_ifdef':
                body = ['#ifndef %s' % g, '#define %s' % g] + inner + ['#endif', '#ifdef %s' % g, tag + '_tail;', '#endif']
            elif style == 'guard_comment_after':
                body = ['/* c */', '', '#ifndef %s /* c */' % g, '#define %s' % g] + inner + ['#endif /* %s */' % g, '// end', '']
            elif style == 'guard_text_before':
                body = [tag + '_pre;', '#ifndef %s' % g, '#define %s' % g] + inner + ['#endif']
            elif style == 'guard_other_macro':
                body = ['#ifndef %s' % g, '#define %s_X' % g] + inner + ['#endif']
            else:
                body = ['#ifndef %s' % g, '#define %s' % g, '#if 1', tag + '_in;', '#endif'] + inner + ['#endif']
            self.feat.add('hdr:' + style)
            files['%s/%s' % (dr, nm)] = '\n'.join(body) + '\n'
        # #include_next chains: the same name in 2-3 search directories, each copy continuing with #include_next, optionally after
        # another #include (which must not disturb where the search resumes), optionally entered through a copy next to main.c
        self.has_next = False
        self.next_top = False
        if ch.int(0, 3) == 0 and len(il) + len(al) >= 2:
            order = il + al
            ks = sorted(ch.sample(list(range(len(order))), ch.int(2, min(3, len(order)))))
            for idx, k in enumerate(ks):
                body = ['N%d;' % idx]
                if idx < len(ks) - 1:
                    if ch.bool():
                        body.append('#include ' + ch.choice(['"%s"', '<%s>']) % ch.choice(NAMES))
                        self.feat.add('include-before-include_next')
                    body.append('#include_next ' + ch.choice(['<hq_n.h>', '"hq_n.h"']))
                    body.append('N%d_end;' % idx)
                files['%s/hq_n.h' % order[k]] = '\n'.join(body) + '\n'
            if ch.int(0, 3) == 0:
                files['hq_n.h'] = 'N_top;\n#include_next <hq_n.h>\nN_top_end;\n'
                self.next_top = True
                self.feat.add('include_next-from-includer-dir')
            self.feat.add('include_next')
            if len(ks) == 3:
                self.feat.add('include_next-chain-of-3')
            self.has_next = True
        # a directory inside a search directory, both on the search path: one file is then reachable under two (directory, name) pairs,
        # and #include_next in it must continue after the directory it was found in *this* time
        self.nested = False
        if ch.int(0, 4) == 0:
            files['i1/nb/hq_x.h'] = 'X_nb;\n#include_next <hq_y.h>\nX_nb_end;\n'
            files['i1/nb/hq_y.h'] = 'Y_nb;\n'
            files['%s/hq_y.h' % ch.choice([d for d in il + al if d != 'i1'] or ['i1'])] = 'Y_far;\n'
            if 'i1' not in il:
                il.append('i1')
            il.insert(ch.int(0, len(il)), 'i1/nb')
            self.nested = True
            self.feat.add('nested-search-directories')
        main = []
        if self.nested:
            for form in ch.shuffle(['<nb/hq_x.h>', '<hq_x.h>', '<nb/hq_x.h>', '"i1/nb/hq_x.h"']):
                main.append('#include ' + form)
                main.append('MAIN_n%d;' % len(main))
        for _ in range(ch.int(2, 6)):
            nm = ch.choice(NAMES)
            form = ch.choice(['"%s"', '<%s>', '"%s"'])
            main.append('#include ' + form % nm)
            if ch.int(0, 3) == 0:
                main.append('#undef %s' % ch.choice(guards))
                self.feat.add('guard-undef-between')
            main.append('MAIN_%d;' % len(main))
        if self.has_next:
            main.insert(ch.int(0, len(main)), '#include "hq_n.h"' if (self.next_top or ch.int(0, 3) == 0) else '#include <hq_n.h>')
        main.append('#ifdef DX\nDX_is DX;\n#endif')
        if ch.int(0, 3) == 0:
            files['pre.h'] = 'PRE_included;\n#define FROM_PRE 1\n'
            main.append('#ifdef FROM_PRE\nPRE_seen;\n#endif')
        files['main.c'] = '\n'.join(main) + '\n'
        seq = [('-I', x) for x in il] + [('-idirafter', x) for x in al]
        if seq and ch.int(0, 3) == 0:
            # a directory named twice (also as ./dir, also once with -I and once with -idirafter) is searched once, at its first place
            k_, v_ = ch.choice(seq)
            seq.append((ch.choice(['-I', k_]), ch.choice([v_, './' + v_, v_ + '/'])))
            self.feat.add('directory-named-twice')
        seq = ch.shuffle(seq)
        args = []
        for k, v in seq:
            args += ([k + v] if (k == '-I' and ch.bool()) else [k, v])
        if al:
            self.feat.add('idirafter')
        dopts = ch.choice([[], ['-DDX=1'], ['-DDX=1', '-UDX'], ['-DDX=1', '-UDX', '-DDX=2'], ['-UDX', '-DDX'], ['-DDX', '-DDX=3'], ['-D', 'DX=4']])
        if len(dopts) > 1:
            self.feat.add('-D/-U-history')
        args += dopts
        if 'pre.h' in files:
            args += ['-include', 'pre.h']
            self.feat.add('-include')
        return files, args


MARK = re.compile(r'(?:M_\w+|MAIN_\w+|DX_is \w+|N_\w+|N\d+(?:_end)?|X_nb\w*|Y_\w+|PRE_\w+)')


class C10:
    id = 'C10'
    level = 'exploration'
    rule = ('cases: (a) conditional trees to depth 4 whose #if/#elif expressions are drawn from the integer model in preprocessor mode (all arithmetic in intmax_t/uintmax_t, exact '
            'expected value; plain `#if E`, `(E) == V`, `(E) != V`), `defined` in 5 spellings, undefined identifiers, object-like macros holding sub-expressions, trailing tokens/comments on '
            '#else/#endif/#ifdef lines, skipped groups filled with invalid directives, #error, missing includes, never-evaluated #elif and division by zero; '
            'every group emits a marker and the model predicts the marker sequence; (b) include graphs over 7 directories (includer dir, 3 -I, 2 -idirafter, sub) with same-named '
            'headers, 15 guard shapes incl. #pragma once and guards whose #ifndef continues with #elif, nested "..."/<...>/macro-expanded includes, #include_next chains over 2-3 directories (also after another #include and from a copy next to the includer), guards #undef-ed between inclusions, -D/-U histories, -include, '
            'option order permuted. Oracle: marker sequence of chibicc -E == gcc == clang (== model for (a)). non-trivial = nesting>=2, boundary-valued expression, >=2 candidate '
            'directories for a name or a header included twice; distinct by program text / file tree hash.')
    assumptions = ['gcc/clang preprocessors run with the equivalent search path define plain textual inclusion semantics',
                   'D66-class path identity and -idirafter semantics as repaired in /repo']
    excl = {}

    def budget(self, tier):
        return 1500 if tier == 'quick' else 18000

    def one_cond(self, ch, ctx):
        g = Cond(ch)
        src = g.program()
        st = ctx.stats
        d = ctx.fresh_dir()
        try:
            p = os.path.join(d, 't.c')
            open(p, 'w').write(src)
            rg, tg, eg, tog, _ = pptok.cpp(ctx.tree, 'gcc', p, timeout=5)
            rc_, tc, ec, toc, _ = pptok.cpp(ctx.tree, 'clang', p, timeout=5)
            if rg != 0 or rc_ != 0 or tog or toc:
                st.count('ref_reject')
                if st.counters['ref_reject'] <= 3:
                    st.samples.append({'ref_reject': (eg or ec)[-300:], 'case': src[:800]})
                return
            mg = [t for t in tg if re.match(r'^m\d+$', t)]
            mc = [t for t in tc if re.match(r'^m\d+$', t)]
            if mg != mc:
                st.count('ref_disagree')
                return
            if mg != g.expected:
                st.count('model_disagree')
                if st.counters['model_disagree'] <= 3:
                    st.samples.append({'model_disagree': {'model': g.expected, 'gcc': mg}, 'case': src[:1200]})
                return
            for f in g.feat:
                st.tag(f)
            st.case(core.shash(src) if (g.nt or g.feat & {'elif', 'junk-in-skipped-group', 'trailing-tokens', 'elif-not-evaluated', 'unevaluated-division'}) else None,
                    sample=({'source': src[:600], 'markers': mg} if len(st.samples) < 2 else None))
            rx, tx, ex, tox, raw = pptok.cpp(ctx.tree, 'chibicc', p, timeout=10)
            bad = None
            if tox:
                bad = 'chibicc -E hangs'
            elif rx != 0:
                bad = 'chibicc -E rejects: %s' % ex.strip().split('\n')[-1][-200:]
            else:
                # compare all tokens that are not part of skipped junk: the complete output token stream must match the references
                if tx != tg:
                    mx = [t for t in tx if re.match(r'^m\d+$', t)]
                    bad = 'token stream differs; markers expected %s observed %s\n expected tokens: %s\n observed tokens: %s' % (mg, mx, ' '.join(tg)[:300], ' '.join(tx)[:300])
            if bad:
                raise core.Violation({'kind': 'cpp', 'source': src, 'signature': core.shash(src)}, bad + '\n--- source ---\n' + src)
        finally:
            shutil.rmtree(d, ignore_errors=True)

    def one_inc(self, ch, ctx):
        st = ctx.stats
        g = Inc(ch, None, self.excl)
        files, args = g.build()
        d = ctx.fresh_dir()
        try:
            for dr in ['i1', 'i2', 'i3', 'aft1', 'aft2', 'sub']:
                os.makedirs(os.path.join(d, dr), exist_ok=True)
            for name, content in files.items():
                os.makedirs(os.path.dirname(os.path.join(d, name)), exist_ok=True)
                open(os.path.join(d, name), 'w').write(content)
            rg, tg, eg, tog, og = pptok.cpp(ctx.tree, 'gcc', 'main.c', args=args, cwd=d, timeout=5)
            rc_, tc, ec, toc, oc = pptok.cpp(ctx.tree, 'clang', 'main.c', args=args, cwd=d, timeout=5)
            if rg != 0 or rc_ != 0 or tog or toc:
                st.count('ref_reject')
                if st.counters['ref_reject'] <= 3:
                    st.samples.append({'ref_reject': (eg or ec)[-300:], 'args': args, 'main': files['main.c']})
                return
            mg, mc = MARK.findall(og), MARK.findall(oc)
            if mg != mc:
                st.count('ref_disagree')
                return
            for f in g.feat:
                st.tag(f)
            key = core.shash(repr(sorted(files.items())) + repr(args))
            st.case(key, sample=({'args': args, 'files': files, 'markers': mg} if len([s for s in st.samples if 'files' in s]) < 1 else None))
            rx, tx, ex, tox, ox = pptok.cpp(ctx.tree, 'chibicc', 'main.c', args=args, cwd=d, timeout=10)
            bad = None
            if tox:
                bad = 'chibicc -E hangs'
            elif rx != 0:
                bad = 'chibicc -E rejects: %s' % ex.strip().split('\n')[-1][-200:]
            elif MARK.findall(ox) != mg:
                bad = 'marker sequence differs\n expected: %s\n observed: %s' % (' '.join(mg), ' '.join(MARK.findall(ox)))
            if bad:
                rep = {'kind': 'inc', 'files': files, 'args': args, 'signature': key}
                raise core.Violation(rep, bad + '\nargs: %s\n' % args + '\n'.join('== %s\n%s' % kv for kv in sorted(files.items())))
        finally:
            shutil.rmtree(d, ignore_errors=True)

    def example(self, ch, ctx):
        n = 0
        while ch.more(n, 1, 10):
            if ch.int(0, 2) == 0:
                self.one_inc(ch, ctx)
            else:
                self.one_cond(ch, ctx)
            n += 1

    def replay(self, tree, rep, wd):
        if rep.get('kind') == 'inc':
            return inc_replay(tree, rep, wd)
        return cpp_replay(tree, rep, wd)


def inc_replay(tree, rep, wd):
    for dr in ['i1', 'i2', 'i3', 'aft1', 'aft2', 'sub']:
        os.makedirs(os.path.join(wd, dr), exist_ok=True)
    for name, content in rep['files'].items():
        q = os.path.join(wd, name)
        os.makedirs(os.path.dirname(q), exist_ok=True)
        open(q, 'w').write(content)
    args = rep['args']
    main = rep.get('main', 'main.c')
    rg, tg, eg, tog, og = pptok.cpp(tree, 'gcc', main, args=rep.get('ref_args', args), cwd=wd, timeout=5)
    rc_, tc, ec, toc, oc = pptok.cpp(tree, 'clang', main, args=rep.get('ref_args', args), cwd=wd, timeout=5)
    if rg != 0 or rc_ != 0 or tog or toc:
        return False, 'references reject (not decidable)'
    mg, mc = MARK.findall(og), MARK.findall(oc)
    if mg != mc:
        return False, 'references disagree'
    hang = 0
    for i in range(3):
        rx, tx, ex, tox, ox = pptok.cpp(tree, 'chibicc', main, args=args, cwd=wd, timeout=10)
        if not tox:
            break
        hang += 1
    if hang == 3:
        return True, 'chibicc -E hangs (3 attempts, 10 s each)'
    if rx != 0:
        return True, 'chibicc -E rejects: %s' % ex.strip().split('\n')[-1][-200:]
    if MARK.findall(ox) != mg:
        return True, 'expected: %s\nobserved: %s' % (' '.join(mg), ' '.join(MARK.findall(ox)))
    return False, 'marker sequences agree: %s' % ' '.join(mg)[:200]


CHECK = C10()
