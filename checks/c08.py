"""C08 Type sizes, alignments and layouts equal the psABI.

(a) exhaustive: every permutation of every legal type-specifier multiset, with a qualifier or storage
class at every position; (b) random declarator nests; (c) random struct/union definitions (vlib/tgen).
Oracle: sizeof / _Alignof / offsetof / bit-field image printed by the chibicc build == gcc == clang."""
import itertools, os
from vlib import core, diffprog, tgen

PRE = diffprog.PRELUDE + '#define OFF(t, m) ((int)(unsigned long)&(((t *)0)->m))\n'

MULTISETS = [('char',), ('signed', 'char'), ('unsigned', 'char'), ('short',), ('short', 'int'), ('signed', 'short'), ('signed', 'short', 'int'),
             ('unsigned', 'short'), ('unsigned', 'short', 'int'), ('int',), ('signed',), ('signed', 'int'), ('unsigned',), ('unsigned', 'int'),
             ('long',), ('long', 'int'), ('long', 'long'), ('long', 'long', 'int'), ('signed', 'long'), ('signed', 'long', 'int'),
             ('signed', 'long', 'long'), ('signed', 'long', 'long', 'int'), ('unsigned', 'long'), ('unsigned', 'long', 'int'),
             ('unsigned', 'long', 'long'), ('unsigned', 'long', 'long', 'int'), ('float',), ('double',), ('long', 'double'), ('_Bool',)]


def spec_cases():
    cases = []
    for ms in MULTISETS:
        for p in sorted(set(itertools.permutations(ms))):
            cases.append(' '.join(p))
            for q in ('const', 'volatile', 'static', 'register', '_Atomic'):
                if q == '_Atomic' and ms == ('long', 'double'):
                    continue   # needs libatomic (__atomic_load_16) with gcc
                for pos in range(len(p) + 1):
                    cases.append(' '.join(p[:pos] + (q,) + p[pos:]))
    return cases


def spec_source(cases):
    src = [diffprog.PRELUDE, 'int main(void){']
    for i, c in enumerate(cases):
        ty = ' '.join(w for w in c.split() if w not in ('static', 'register'))
        src.append('{ %s v = -1; printf("%d %%d %%d %%d\\n", (int)sizeof(v), (int)_Alignof(%s), (int)(v < 0)); }' % (c, i, ty))
    src.append('return 0;}')
    return '\n'.join(src)


class Term:
    """declarator term: ('base', cname) | ('ptr', T) | ('arr', n, T) | ('fn', T)"""


def gen_term(ch, d):
    if d <= 0:
        return ('base', ch.choice(['char', 'short', 'int', 'long', 'double', 'long double', 'unsigned char', '_Bool', 'struct @P']))
    k = ch.int(0, 9)
    if k < 4:
        return ('ptr', gen_term(ch, d - 1))
    if k < 8:
        t = gen_term(ch, d - 1)
        if t[0] == 'fn':
            t = ('ptr', t)
        return ('arr', ch.int(1, 5), t)
    t = gen_term(ch, d - 1)
    if t[0] in ('fn', 'arr'):
        t = ('ptr', t)
    return ('ptr', ('fn', t))


def spell(t, inner):
    """C declarator text for term t around 'inner' (name or nested declarator)."""
    if t[0] == 'base':
        return '%s %s' % (t[1], inner)
    if t[0] == 'ptr':
        sub = t[1]
        if sub[0] in ('arr', 'fn'):
            return spell(sub, '(*%s)' % inner)
        return spell(sub, '*%s' % inner)
    if t[0] == 'arr':
        return spell(t[2], '%s[%d]' % (inner, t[1]))
    return spell(t[1], '%s(void)' % inner)


class C08:
    id = 'C08'
    level = 'exploration'
    rule = ('cases: (a) exhaustive sweep of every permutation of all 30 legal type-specifier multisets with const/volatile/static/register/_Atomic at every '
            'position (sizeof, _Alignof, signedness); (b) random declarator nests (pointer/array/function, depth<=5): sizeof at every dereference level; '
            '(c) random struct/union definitions (depth<=2..3; scalars, arrays, nested and anonymous members, bit-fields of every base type and width incl. zero-width '
            'and unnamed, packed, aligned(N), _Alignas): sizeof, _Alignof, offset and size of every named member, bit image of every bit-field after storing -1. '
            'Oracle: gcc == clang == chibicc. non-trivial = definition has a bit-field, an alignment attribute, packed, an anonymous member or nesting; distinct by definition text.')
    assumptions = ['gcc and clang implement the System V x86-64 psABI layout rules']
    excl = {'D12b': 0}   # packed + bit-field / packed + _Alignas member: recorded findings D12b, D12c
    exhaustive = None

    def budget(self, tier):
        return 1200 if tier == 'quick' else 14000

    def gen_struct(self, ch, depth):
        g = tgen.TGen(ch, excl=self.excl)
        a = g.agg(depth, tag='@S')
        defs = a.definition()
        ref = a.ref()
        lines = ['printf("@ sz=%%d al=%%d\\n", (int)sizeof(%s), (int)_Alignof(%s));' % (ref, ref)]
        for m in tgen.members(a):
            lines.append('printf("@ %s off=%%d sz=%%d\\n", OFF(%s, %s), (int)sizeof(((%s *)0)->%s));' % (m, ref, m, ref, m))
        for lf in tgen.leaves(a):
            if lf.bf is not None:
                lines.append('{ %s v; unsigned char *p = (unsigned char *)&v; int j; memset(&v, 0, sizeof v); v.%s = -1; printf("@ %s bits:"); '
                             'for (j = 0; j < (int)sizeof v; j++) printf("%%02x", p[j]); printf("\\n"); }' % (ref, lf.path, lf.path))
        # arrays of the type and a struct that embeds it after a char (alignment in context)
        lines.append('{ struct { char c; %s x; char d; } w; printf("@ emb %%d %%d %%d\\n", (int)sizeof w, (int)((char *)&w.x - (char *)&w), (int)((char *)&w.d - (char *)&w)); }' % ref)
        lines.append('{ %s arr[3]; printf("@ arr %%d\\n", (int)((char *)&arr[2] - (char *)&arr[0])); }' % ref)
        nt = core.shash(defs) if g.feat - {'array'} else None
        return diffprog.Case(decls=defs + '\n', body='\n'.join('  ' + l for l in lines) + '\n', nt=nt, tags=sorted(g.feat))

    def gen_declarator(self, ch):
        t = gen_term(ch, ch.int(1, 5))
        if t[0] == 'fn':
            t = ('ptr', t)
        d = spell(t, '@x')
        lines = []
        acc = '@x'
        cur = t
        lvl = 0
        while True:
            lines.append('printf("@ L%d %%d %%d\\n", (int)sizeof(%s), (int)_Alignof(__typeof__(%s)));' % (lvl, acc, acc))
            if cur[0] == 'ptr':
                if cur[1][0] == 'fn':
                    break
                acc = '(*%s)' % acc
                cur = cur[1]
            elif cur[0] == 'arr':
                acc = '%s[0]' % acc
                cur = cur[2]
            else:
                break
            lvl += 1
        decls = 'struct @P { char c[3]; };\nstatic %s;\n' % d
        return diffprog.Case(decls=decls, body='\n'.join('  ' + l for l in lines if l) + '\n', nt=('decl', d), tags=['declarator', 'decl-depth:%d' % lvl])

    def example(self, ch, ctx):
        depth = 2 if ctx.quick else 3
        cases = []
        while ch.more(len(cases), 1, 24):
            if ch.int(0, 4) == 0:
                cases.append(self.gen_declarator(ch))
            else:
                cases.append(self.gen_struct(ch, depth))
        fails = diffprog.judge(ctx, cases, prelude=PRE)
        for k, v in self.excl.items():
            ctx.stats.counters['excluded_by_known_finding:' + k] = v
        if fails:
            raise diffprog.violation_from(cases, fails[0], prelude=PRE)

    def replay(self, tree, rep, wd):
        return diffprog.replay(tree, rep, wd)

    def extra(self, tree, tier, stats, top):
        """(a) exhaustive specifier sweep."""
        cases = spec_cases()
        src = spec_source(cases)
        wd = os.path.join(top, 'spec'); os.makedirs(wd, exist_ok=True)
        p = os.path.join(wd, 'spec.c'); open(p, 'w').write(src)
        outs = {}
        for comp in ('gcc', 'clang', 'chibicc'):
            exe = os.path.join(wd, comp + '.exe')
            r = diffprog.compile_with(tree, comp, p, exe)
            if r.rc != 0 or r.timeout:
                outs[comp] = None
                err = diffprog.errsum(r.err or r.out)
                continue
            outs[comp] = core.run([exe], timeout=30).out.split('\n')
        viols = []
        if outs['gcc'] is None or outs['gcc'] != outs['clang']:
            stats.count('spec_ref_disagree')
            return viols
        stats.count('specifier_spellings', len(cases))
        if outs['chibicc'] is None:
            # find the offending spelling
            for i, c in enumerate(cases):
                one = spec_source([c])
                q = os.path.join(wd, 'one.c'); open(q, 'w').write(one)
                r = diffprog.compile_with(tree, 'chibicc', q, os.path.join(wd, 'one.exe'))
                if r.rc != 0:
                    viols.append(({'kind': 'diffprog', 'source': one, 'signature': 'spec-' + c}, 'specifier spelling rejected: %r: %s' % (c, diffprog.errsum(r.err))))
                    break
            return viols
        for i, c in enumerate(cases):
            stats.case(nt_key=('spec', c))
            if outs['chibicc'][i] != outs['gcc'][i] and len(viols) < 3:
                viols.append(({'kind': 'diffprog', 'source': spec_source([c]), 'signature': 'spec-' + c},
                              'specifier spelling %r: expected %r observed %r' % (c, outs['gcc'][i], outs['chibicc'][i])))
        return viols


CHECK = C08()
