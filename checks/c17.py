"""C17 Name tables behave as dictionaries under any history.

(a) model-based stateful testing of /repo's hashmap.c: Hypothesis generates operation histories (put / get / delete /
churn of never-used keys / put with a non-terminated key) over a pool of keys constructed (same FNV-1 hash) to share
their low hash bits, i.e. to collide at every capacity the run reaches; a native driver built from the tree under
test replays them against hashmap.c and a flat-array reference, querying ALL pool keys after EVERY step;
(b) a libFuzzer campaign (ASan+UBSan) over the same command language with the oracle inside the target;
(c) end-to-end histories of #define / #undef / -D / -U over macro names colliding in their low 12 hash bits (plus the
predefined dynamic macros), probed by #ifdef and by expansion after every step; oracle: a Python dict and gcc/clang."""
import os, re, shutil, collections
from vlib import core, pptok

NATIVE = os.path.join(core.VERIF, 'native')


def fnv(s):
    h = 0xcbf29ce484222325
    for c in s.encode():
        h = (h * 0x100000001b3) & 0xffffffffffffffff
        h ^= c
    return h


def key_pool(bits=8, groups=6, per=10, prefix='k'):
    by = collections.defaultdict(list)
    i = 0
    while sum(1 for v in by.values() if len(v) >= per) < groups:
        n = '%s%d' % (prefix, i)
        by[fnv(n) & ((1 << bits) - 1)].append(n)
        i += 1
    gs = [v[:per] for v in by.values() if len(v) >= per][:groups]
    return gs


KEY_GROUPS = key_pool()
KEYS = [k for g in KEY_GROUPS for k in g]
MACRO_GROUPS = key_pool(bits=12, groups=3, per=6, prefix='m')
MACROS = [k for g in MACRO_GROUPS for k in g]
IDENT_GROUPS = key_pool(bits=8, groups=2, per=14, prefix='v')      # identifiers for the parser's scope tables: collide at every capacity up to 256
DYNAMIC = ['__LINE__', '__FILE__', '__COUNTER__', '__TIMESTAMP__', '__BASE_FILE__', '__DATE__', '__TIME__']


def build_native(tree, fuzz=False):
    d = os.path.join(os.path.dirname(tree.dir), 'native')
    os.makedirs(d, exist_ok=True)
    drv = os.path.join(d, 'hashmap_driver')
    if not os.path.exists(drv):
        r = core.run(['gcc', '-O1', '-g', '-w', '-I' + tree.dir, '-o', drv, os.path.join(NATIVE, 'hashmap_driver.c'), os.path.join(tree.dir, 'hashmap.c')], timeout=120, as_mb=0)
        if r.rc != 0:
            raise core.BuildError('cannot build hashmap driver: ' + r.err[-500:])
        open(os.path.join(d, 'keys.txt'), 'w').write('\n'.join(KEYS) + '\n')
    fz = os.path.join(d, 'hashmap_fuzz')
    if fuzz and not os.path.exists(fz):
        r = core.run(['clang', '-g', '-O1', '-w', '-fsanitize=fuzzer,address,undefined', '-fno-sanitize-recover=undefined', '-I' + tree.dir, '-o', fz,
                      os.path.join(NATIVE, 'hashmap_fuzz.c'), os.path.join(tree.dir, 'hashmap.c')], timeout=300, as_mb=0)
        if r.rc != 0:
            raise core.BuildError('cannot build hashmap fuzz target: ' + r.err[-500:])
    return drv, os.path.join(d, 'keys.txt'), fz


def gen_history(ch):
    """list of (kind, keyindex); structured so that put -> delete -> put on colliding keys and rehashes with live tombstones are frequent"""
    ops = []
    feat = set()
    n = ch.int(3, 120)
    focus = ch.int(0, len(KEY_GROUPS) - 1)
    per = len(KEY_GROUPS[0])
    last_deleted_group = None
    for _ in range(n):
        g = focus if ch.int(0, 9) < 7 else ch.int(0, len(KEY_GROUPS) - 1)
        k = g * per + ch.int(0, per - 1)
        r = ch.int(0, 99)
        if r < 40:
            ops.append((0, k))
            if last_deleted_group == g:
                feat.add('put-after-delete-same-bucket')
        elif r < 50:
            ops.append((1, k))
        elif r < 80:
            ops.append((2, k)); last_deleted_group = g
        elif r < 88:
            ops.append((4, k)); feat.add('non-terminated-key')
        else:
            reps = ch.choice([1, 3, 10, 40, 200, 700])
            ops += [(3, 0)] * reps
            feat.add('churn'); feat.add('churn>=200') if reps >= 200 else None
    return ops, feat


def encode(hists):
    b = bytearray()
    for ops in hists:
        for kind, k in ops:
            b += bytes([kind, (k >> 8) & 255, k & 255])
        b += bytes([255, 0, 0])
    return bytes(b)


class C17:
    id = 'C17'
    level = 'exploration'
    rule = ('cases: (a) operation histories (3..120 drawn steps, churn bursts of up to 700 put+delete pairs of never-used keys) over 60 keys in 6 groups sharing the low 8 bits of their '
            'FNV-1 hash, replayed by a native driver against hashmap.c of the tree under test and a flat-array model with all 60 keys queried after every step; '
            '(b) libFuzzer (ASan/UBSan) over the same command language, oracle in the target; (c) #define/#undef/-D/-U histories over 18 macro names in 3 groups sharing 12 hash bits plus '
            'the 7 predefined dynamic macros, probed by #ifdef and expansion after every step, vs a dict model and gcc/clang; (d) block-scope histories: nested blocks declaring objects, typedef names, enumerators and struct tags over 28 identifiers in 2 groups sharing 8 hash bits (up to 20 declarations per block, so scope tables are rehashed), every visible name evaluated after each block entry and exit, vs a scope-stack model and gcc/clang. non-trivial = history has put after delete in the same collision '
            'group, a churn burst, or spans a rehash; distinct by history hash.')
    assumptions = ['the reference model (flat array / Python dict) is obviously correct; gcc/clang confirm the end-to-end model',
                   'libFuzzer runs are pinned only approximately by -seed; a saved crash artefact is the reproducible unit']

    def budget(self, tier):
        return 1200 if tier == 'quick' else 15000

    def prepare(self, tree, tier):
        build_native(tree, fuzz=True)

    def example(self, ch, ctx):
        k = ch.int(0, 5)
        if k < 2:
            return self.e2e(ch, ctx)
        if k == 2:
            return self.scopes(ch, ctx)
        st = ctx.stats
        drv, keys, _ = build_native(ctx.tree)
        hists = []
        feats = []
        while ch.more(len(hists), 1, 12):
            ops, feat = gen_history(ch)
            hists.append(ops); feats.append(feat)
        p = ctx.tmp('.ops')
        open(p, 'wb').write(encode(hists))
        r = core.run([drv, keys, p], timeout=60)
        os.unlink(p)
        lines = r.out.strip().split('\n') if r.out.strip() else []
        for i, ops in enumerate(hists):
            ln = lines[i] if i < len(lines) else ''
            reh = int(ln.split()[2]) if ln.startswith('OK') and len(ln.split()) >= 3 else 0
            f = set(feats[i])
            if reh:
                f.add('spans-rehash')
            for x in f:
                st.tag(x)
            st.case(core.shash(repr(ops)) if f else None, sample=({'history': ops[:40], 'driver': ln} if len(st.samples) < 2 else None))
        bad = [l for l in lines if l.startswith(('BAD', 'ABORT'))]
        if r.rc != 0 or bad or r.timeout:
            # identify the failing history
            hi = None
            for l in lines:
                if l.startswith('BAD'):
                    hi = int(l.split()[1])
            if hi is None:
                hi = sum(1 for l in lines if l.startswith('OK'))
            hi = min(hi, len(hists) - 1)
            rep = {'kind': 'hashmap', 'ops': hists[hi], 'signature': core.shash(repr(hists[hi]))}
            raise core.Violation(rep, 'hashmap.c diverges from the reference dictionary: rc=%s %s\nhistory (kind,key): %s' % (r.rc, (bad or lines[-1:] or [r.err[-200:]])[0], hists[hi][:200]))

    # ---- (d) the parser's scope tables: declaration / lookup / scope-exit histories
    def scopes(self, ch, ctx):
        """A function body of nested blocks.  Each block declares objects, typedef names, enumerators and struct tags whose
        names collide in the low 8 hash bits (and enough of them to force rehashes of a scope's table), then evaluates every
        name of the pool that is visible; after a block is left the probes are repeated.  Model: a stack of Python dicts."""
        st = ctx.stats
        names = IDENT_GROUPS[ch.int(0, 1)] if ch.int(0, 3) else [n for g in IDENT_GROUPS for n in g]
        lines = []; exp = []
        var = [{}]; tag = [{}]
        feat = set()
        counter = [0]

        def probe(ind):
            k = counter[0]; counter[0] += 1
            vis = {}
            for sc in var:
                vis.update(sc)
            terms = []; total = 0
            for n in ch.sample(names, min(len(names), 6)):
                if n not in vis:
                    continue
                kind, val = vis[n]
                if kind in ('obj', 'enum'):
                    terms.append(n); total += val
                else:                                   # typedef name: its size tells which declaration is visible
                    terms.append('(int)sizeof(%s)' % n); total += val
            tv = {}
            for sc in tag:
                tv.update(sc)
            for n in ch.sample(names, 3):
                if n in tv:
                    terms.append('(int)sizeof(struct %s)' % n); total += tv[n]
            lines.append('%sprintf("P%d %%d\\n", 0%s);' % (ind, k, ''.join(' + ' + t for t in terms)))
            exp.append(('P%d' % k, str(total)))

        def block(depth, ind):
            n_decl = ch.choice([1, 2, 3, 5, 13, 20]) if depth < 2 else ch.int(1, 4)
            if n_decl >= 13:
                feat.add('scope-table-rehash')
            for _ in range(n_decl):
                n = ch.choice(names)
                r = ch.int(0, 11)
                counter[0] += 1
                v = counter[0] * 7 % 1000 + 1
                if r >= 10:
                    # a parameter list declares the name: function prototype scope, nothing outlives the declarator
                    if r == 10:
                        lines.append('%svoid pf%d(enum { %s = %d } e);' % (ind, counter[0], n, v + 1))
                    else:
                        lines.append('%svoid pf%d(struct %s { char c[%d]; } *p, int %s);' % (ind, counter[0], n, 20 + v % 7, n))
                    feat.add('prototype-scope')
                    continue
                if r < 5:
                    if n in var[-1]:
                        continue
                    lines.append('%sint %s = %d;' % (ind, n, v)); var[-1][n] = ('obj', v)
                elif r < 7:
                    if n in var[-1]:
                        continue
                    sz = ch.choice([1, 2, 4, 8, 16])
                    lines.append('%stypedef char %s[%d];' % (ind, n, sz)); var[-1][n] = ('typedef', sz); feat.add('typedef-name')
                elif r < 8:
                    if n in var[-1]:
                        continue
                    lines.append('%senum { %s = %d };' % (ind, n, v)); var[-1][n] = ('enum', v); feat.add('enumerator')
                else:
                    if n in tag[-1]:
                        continue
                    sz = ch.choice([1, 3, 5, 9])
                    lines.append('%sstruct %s { char c[%d]; };' % (ind, n, sz)); tag[-1][n] = sz; feat.add('tag')
                if any(n in sc for sc in var[:-1]) or any(n in sc for sc in tag[:-1]):
                    feat.add('shadowing')
            probe(ind)
            for _ in range(ch.int(0, 2) if depth < 3 else 0):
                lines.append(ind + '{'); var.append({}); tag.append({})
                block(depth + 1, ind + '  ')
                var.pop(); tag.pop(); lines.append(ind + '}')
                probe(ind)            # the outer declarations are visible again

        # file scope declarations first
        for _ in range(ch.int(0, 4)):
            n = ch.choice(names)
            if n not in var[0]:
                counter[0] += 1
                v = counter[0] * 7 % 1000 + 1
                lines.append('int %s = %d;' % (n, v)); var[0][n] = ('obj', v)
                if ch.int(0, 2) == 0:
                    lines.append('void pg%d(enum { %s = %d } e, struct %s { char c[77]; } *p);' % (counter[0], n, v + 3, n)); feat.add('prototype-scope')
        lines.append('int printf(const char *, ...);')
        lines.append('int main(void) {'); var.append({}); tag.append({})
        block(0, '  ')
        lines.append('  return 0;'); lines.append('}')
        src = '\n'.join(lines) + '\n'
        d = ctx.fresh_dir()
        try:
            p = os.path.join(d, 's.c'); open(p, 'w').write(src)
            outs = {}
            for comp in ('gcc', 'clang', 'chibicc'):
                exe = os.path.join(d, comp + '.exe')
                cmd = ([ctx.tree.cc, '-o', exe, p] if comp == 'chibicc' else [comp, '-O0', '-w', '-std=gnu11', '-o', exe, p])
                r = core.run(cmd, timeout=30)
                if r.rc != 0:
                    outs[comp] = 'COMPILE-FAIL ' + r.err.strip().split('\n')[-1][-200:]
                    continue
                rr = core.run([exe], timeout=10)
                outs[comp] = rr.out if rr.rc == 0 else 'RUN-FAIL rc=%s' % rr.rc
            want = ''.join('%s %s\n' % e for e in exp)
            if outs['gcc'] != outs['clang'] or outs['gcc'].startswith(('COMPILE-FAIL', 'RUN-FAIL')):
                st.count('ref_reject_or_disagree')
                if st.counters['ref_reject_or_disagree'] <= 2:
                    st.samples.append({'ref_reject': outs['gcc'][:200], 'src': src[:800]})
                return
            if outs['gcc'] != want:
                st.count('model_disagree')
                if st.counters['model_disagree'] <= 2:
                    st.samples.append({'model_disagree': [outs['gcc'][:300], want[:300]], 'src': src[:1200]})
                return
            for f in feat:
                st.tag('scopes:' + f)
            st.tag('scopes')
            st.case(core.shash(src) if (feat & {'shadowing', 'scope-table-rehash', 'prototype-scope'}) else None, sample=({'scopes': src[:700]} if len([x for x in st.samples if 'scopes' in x]) < 1 else None))
            if outs['chibicc'] != want:
                raise core.Violation({'kind': 'scopes', 'source': src, 'expected': want, 'signature': core.shash(src)},
                                     'identifier lookup differs from the scope-stack model\nexpected %r\nobserved %r\n--- source ---\n%s' % (want[:400], outs['chibicc'][:400], src[:3000]))
        finally:
            shutil.rmtree(d, ignore_errors=True)

    # ---- (c) end-to-end macro histories
    def e2e(self, ch, ctx):
        st = ctx.stats
        model = {}
        opts = []
        feat = set()
        names = MACROS
        for _ in range(ch.int(0, 6)):
            n = ch.choice(names[:3]) if ch.int(0, 9) < 7 else ch.choice(names)      # histories on one name: -D -U -D ...
            if ch.int(0, 9) < 6:
                v = ch.int(1, 99)
                opts.append('-D%s=%d' % (n, v)); model[n] = str(v)
            else:
                opts.append('-U%s' % n); model.pop(n, None)
            feat.add('-D/-U')
        lines = []
        exp = []
        group = ch.int(0, len(MACRO_GROUPS) - 1)
        dyn_state = {}
        for step in range(ch.int(5, 50)):
            r = ch.int(0, 99)
            if r < 6:
                # redefine / undefine a predefined dynamic macro (with and without #undef first)
                n = ch.choice(DYNAMIC)
                if ch.int(0, 2) == 0:
                    lines.append('#undef %s' % n); dyn_state[n] = None
                else:
                    v = ch.int(1000, 9999)
                    if ch.bool() and dyn_state.get(n, 'builtin') is not None:
                        lines.append('#undef %s' % n)
                    lines.append('#define %s %d' % (n, v)); dyn_state[n] = str(v)
                feat.add('dynamic-macro-redefined')
                k = len(exp)
                if dyn_state[n] is None:
                    lines.append('#ifdef %s\nQ%d defined\n#else\nQ%d undef\n#endif' % (n, k, k)); exp.append(('Q%d' % k, 'undef'))
                else:
                    lines.append('Q%d %s' % (k, n)); exp.append(('Q%d' % k, dyn_state[n]))
                continue
            n = (MACRO_GROUPS[group][ch.int(0, 5)] if ch.int(0, 9) < 7 else ch.choice(names))
            if r < 50:
                v = ch.int(100, 999)
                if n in model and ch.bool():
                    lines.append('#undef %s' % n)
                else:
                    if n in model:
                        feat.add('redefine-without-undef')
                lines.append('#define %s %d' % (n, v)); model[n] = str(v)
            elif r < 85:
                lines.append('#undef %s' % n); model.pop(n, None)
                feat.add('undef')
            for q in ch.sample(names, 3):
                k = len(exp)
                if ch.bool():
                    lines.append('#ifdef %s\nP%d %s\n#else\nP%d undef\n#endif' % (q, k, q, k))
                    exp.append(('P%d' % k, model.get(q, 'undef')))
                else:
                    lines.append('P%d %s' % (k, q))
                    exp.append(('P%d' % k, model.get(q, q)))
        src = '\n'.join(lines) + '\n'
        d = ctx.fresh_dir()
        try:
            p = os.path.join(d, 't.c')
            open(p, 'w').write(src)

            def parse(out):
                return re.findall(r'\b([PQ]\d+) (\S+)', out)
            rg = core.run(['gcc', '-E', '-P', '-w'] + opts + [p], timeout=10)
            rc_ = core.run(['clang', '-E', '-P', '-w'] + opts + [p], timeout=10)
            if rg.rc != 0 or rc_.rc != 0 or parse(rg.out) != parse(rc_.out):
                st.count('ref_reject_or_disagree')
                return
            if parse(rg.out) != exp:
                st.count('model_disagree')
                if st.counters['model_disagree'] <= 2:
                    st.samples.append({'model_disagree': [x for x in zip(parse(rg.out), exp) if x[0] != x[1]][:3], 'src': src[:600]})
                return
            for f in feat:
                st.tag(f)
            st.case(core.shash(src + repr(opts)) if feat else None, sample=({'opts': opts, 'src': src[:400]} if len([s for s in st.samples if 'src' in s]) < 1 else None))
            rx = core.run([ctx.tree.cc, '-E'] + opts + [p], timeout=10)
            bad = None
            if rx.timeout:
                bad = 'chibicc -E hangs'
            elif rx.rc != 0:
                bad = 'chibicc -E fails (rc=%s): %s' % (rx.rc, rx.err.strip().split('\n')[-1][-200:])
            elif parse(rx.out) != exp:
                diffs = [(a, b) for a, b in zip(parse(rx.out), exp) if a != b][:4]
                bad = 'macro table state differs from the dictionary model (observed, expected): %s' % diffs
            if bad:
                raise core.Violation({'kind': 'machist', 'source': src, 'args': opts, 'expected': exp, 'signature': core.shash(src)}, bad + '\nopts %s\n--- source ---\n%s' % (opts, src[:2000]))
        finally:
            shutil.rmtree(d, ignore_errors=True)

    def replay(self, tree, rep, wd):
        if rep['kind'] == 'hashmap':
            drv, keys, _ = build_native(tree)
            p = os.path.join(wd, 'r.ops')
            open(p, 'wb').write(encode([rep['ops']]))
            r = core.run([drv, keys, p], timeout=60)
            if r.rc != 0 or 'BAD' in r.out or 'ABORT' in r.out:
                return True, 'driver: rc=%s %s' % (r.rc, r.out.strip().split('\n')[-1][:300])
            return False, 'hashmap agrees with the reference on this history'
        if rep['kind'] == 'scopes':
            p = os.path.join(wd, 's.c'); open(p, 'w').write(rep['source'])
            exe = os.path.join(wd, 's.exe')
            r = core.run([tree.cc, '-o', exe, p], timeout=30)
            if r.rc != 0:
                return True, 'chibicc rejects: ' + r.err.strip().split('\n')[-1][-200:]
            rr = core.run([exe], timeout=10)
            return (rr.out != rep['expected']), 'expected %r observed %r' % (rep['expected'][:300], rr.out[:300])
        if rep['kind'] == 'fuzz':
            _, _, fz = build_native(tree, fuzz=True)
            p = os.path.join(wd, 'crash.bin')
            open(p, 'wb').write(bytes.fromhex(rep['input_hex']))
            env = dict(os.environ, ASAN_OPTIONS='detect_leaks=0')
            r = core.run([fz, p], timeout=60, env=env, as_mb=0)
            return (r.rc != 0), 'fuzz target exit %s: %s' % (r.rc, r.err.strip().split('\n')[-1][-200:] if r.err else '')
        # machist
        p = os.path.join(wd, 't.c')
        open(p, 'w').write(rep['source'])
        rx = core.run([tree.cc, '-E'] + rep['args'] + [p], timeout=10)
        got = re.findall(r'\b([PQ]\d+) (\S+)', rx.out)
        exp = [tuple(x) for x in rep['expected']]
        if rx.rc != 0 or got != exp:
            return True, 'rc=%s; (observed, expected) %s' % (rx.rc, [(a, b) for a, b in zip(got, exp) if a != b][:4])
        return False, 'macro table behaves as the dictionary model'

    def extra(self, tree, tier, stats, top):
        """(b) coverage-guided campaign"""
        _, _, fz = build_native(tree, fuzz=True)
        corp = os.path.join(top, 'corpus'); os.makedirs(corp, exist_ok=True)
        art = os.path.join(top, 'artifact-')
        secs = 10 if tier == 'quick' else 300
        env = dict(os.environ, ASAN_OPTIONS='detect_leaks=0')
        r = core.run([fz, '-max_total_time=%d' % secs, '-detect_leaks=0', '-seed=%d' % (core.seed_value() & 0x7fffffff), '-max_len=512', '-artifact_prefix=' + art,
                      '-jobs=%d' % min(8, core.NPROC), '-workers=%d' % min(8, core.NPROC), corp], timeout=secs * 4 + 120, env=env, as_mb=0, cwd=top)
        runs = 0
        for f in os.listdir(top):
            if f.startswith('fuzz-') and f.endswith('.log'):
                for m in re.finditer(r'Done (\d+) runs', open(os.path.join(top, f), errors='replace').read()):
                    runs += int(m.group(1))
        stats.counters['libfuzzer_execs'] = runs
        stats.evaluations += runs
        stats.counters['libfuzzer_corpus'] = len(os.listdir(corp))
        stats.nt |= {core.shash(f) for f in os.listdir(corp)}
        viols = []
        for f in sorted(os.listdir(top)):
            if f.startswith('artifact-crash-'):
                data = open(os.path.join(top, f), 'rb').read()
                viols.append(({'kind': 'fuzz', 'input_hex': data.hex(), 'signature': 'fuzz-' + core.shash(data)}, 'libFuzzer crash artefact %s (%d bytes): the history it encodes breaks the dictionary oracle or trips a sanitizer' % (f, len(data))))
                if len(viols) >= 2:
                    break
        return viols


CHECK = C17()
