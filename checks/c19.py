"""C19 Preprocessed output is a faithful program.

(a) exhaustive adjacency table: every ordered pair of token spellings (all pp-token classes) placed next to each other
through every expansion boundary form, with and without white space: the text printed by -E must re-lex to the token
sequence the references print, and preprocessing it again must change nothing.
(b) macro-ised programs: valid programs from the C01/C03 generators are re-spaced densely and have token runs, operators
and operands replaced by object-like / function-like / empty macro invocations placed without white space wherever the
source itself stays lexically unambiguous.  Round trips: S(x) == S(E(x)) (assembly up to .file/.loc) and E(E(x)) == E(x)."""
import os, re, itertools, shutil
import multiprocessing as mp
from vlib import core, pptok, diffprog
from checks import c01, c03

TOK = ['a', '_b1', 'int', '1', '0x1f', '1.5', '.5', '0xE', '1e1', '08'[:1] + '7', '"s"', 'L', 'u8', 'u', "'c'", '+', '-', '*', '/', '%', '&', '|', '^', '<', '>', '=', '!', '~',
       '.', '->', '++', '--', '<<', '>>', '<=', '>=', '==', '!=', '&&', '||', '+=', '-=', '<<=', '>>=', '...', '(', ')', '[', ']', '{', '}', ',', ';', ':', '?', 'L"w"', '0x1p3', '2u', 'e', 'x1', '1.', 'e5', '0x2.', '\u00e9', 'a\u00e9', '\u00e9t']
FORMS = [('obj-obj', '#define A {0}\n#define B {1}\n{k} [ A B ]\n#undef A\n#undef B\n'),
         ('obj-adj', '#define A {0}\n#define B {1}\n{k} [ x A/**/B y ]\n#undef A\n#undef B\n'),
         ('tok-obj', '#define B {1}\n{k} [ {0} B ]\n#undef B\n'),
         ('tokobj-nospace', '#define B {1}\n#define ID(p) p\n{k} [ x ID({0})B y ]\n#undef B\n#undef ID\n'),
         ('obj-tok-nospace', '#define A {0}\n{k} [ x A{1} y ]\n#undef A\n'),
         ('fn-arg', '#define F(p) {0}p\n{k} [ x F({1}) y ]\n#undef F\n'),
         ('fn-arg2', '#define F(p) p{1}\n{k} [ x F({0}) y ]\n#undef F\n'),
         ('fn-result', '#define F(p) p\n{k} [ x F({0})F({1}) y ]\n#undef F\n'),
         ('empty-between', '#define EMPTY\n#define E2()\n{k} [ x {0}EMPTY{1} {0}E2(){1} y ]\n#undef EMPTY\n#undef E2\n')]


def ident_like(t):
    return bool(re.match(r'^[A-Za-z_0-9.]', t))


def form_ok(fname, a, b):
    """forms where writing the literal token next to a macro name / parameter in the *source* would itself fuse are skipped"""
    if fname == 'obj-tok-nospace':     # 'A' immediately followed by literal b in the source
        return not re.match(r'^[A-Za-z_0-9]', b) and b not in ('"s"', "'c'", 'L"w"')
    if fname == 'fn-arg':              # '{0}p' in the macro body
        return not re.match(r'[A-Za-z_0-9]$', a[-1]) and not (a[-1] in '.')
    if fname == 'fn-arg2':             # 'p{1}' in the macro body
        return not re.match(r'^[A-Za-z_0-9]', b) and b not in ('"s"', "'c'", 'L"w"')
    if fname == 'empty-between':       # '{0}EMPTY{1}' in the source
        return not re.match(r'[A-Za-z_0-9]$', a[-1]) and not re.match(r'^[A-Za-z_0-9]', b) and a[-1] not in '.' and b not in ('"s"', "'c'", 'L"w"')
    return True


def table_chunks():
    cases = []
    for fname, tmpl in FORMS:
        for a, b in itertools.product(TOK, TOK):
            if ('(' in (a, b) or ')' in (a, b) or ',' in (a, b)) and fname.startswith(('fn', 'tokobj', 'empty')):
                continue       # would change the invocation structure
            if '#' in a or '#' in b:
                continue
            if not form_ok(fname, a, b):
                continue
            cases.append((fname, a, b))
    return cases


def _table_job(args):
    tree_dir, cases, wd, idx = args
    tree = core.Tree(tree_dir)
    d = os.path.join(wd, 'tab%d' % idx)
    os.makedirs(d, exist_ok=True)
    tm = dict(FORMS)
    src = ''.join(tm[f].replace('{k}', 'K%d' % i).replace('{0}', a).replace('{1}', b) for i, (f, a, b) in enumerate(cases))
    p = os.path.join(d, 't.c')
    open(p, 'w').write(src)

    def lines(out):
        res = {}
        for l in out.split('\n'):
            m = re.match(r'\s*K(\d+) (.*)$', l)
            if m:
                res[int(m.group(1))] = m.group(2)
        return res
    rg = core.run(['gcc', '-E', '-P', '-w', p], timeout=60)
    rc_ = core.run(['clang', '-E', '-P', '-w', p], timeout=60)
    rx = core.run([tree.cc, '-E', p], timeout=60)
    out = []
    if rg.rc != 0 or rc_.rc != 0:
        return [('ref_reject', None, None)] * len(cases)
    lg, lc = lines(rg.out), lines(rc_.out)
    if rx.rc != 0:
        # find the culprit(s) individually
        lx = {}
        for i, (f, a, b) in enumerate(cases):
            one = tm[f].replace('{k}', 'K%d' % i).replace('{0}', a).replace('{1}', b)
            q = os.path.join(d, 'one.c'); open(q, 'w').write(one)
            r1 = core.run([tree.cc, '-E', q], timeout=10)
            lx[i] = lines(r1.out).get(i) if r1.rc == 0 else 'REJECTED: ' + r1.err.strip().split('\n')[-1][-100:]
        second = {}
    else:
        lx = lines(rx.out)
        # idempotence: preprocess the output again
        p2 = os.path.join(d, 't2.c')
        open(p2, 'w').write(rx.out)
        r2 = core.run([tree.cc, '-E', p2], timeout=60)
        second = lines(r2.out) if r2.rc == 0 else None
    for i, (f, a, b) in enumerate(cases):
        g, c, x = lg.get(i), lc.get(i), lx.get(i)
        if g is None or c is None or pptok.lex(g) != pptok.lex(c):
            out.append(('ref_disagree', None, None))
            continue
        if x is None or pptok.lex(x) != pptok.lex(g):
            out.append(('bad', 'form %s, tokens %r %r: -E prints %r, which lexes to %s; expected tokens %s' % (f, a, b, x, pptok.lex(x or ''), pptok.lex(g)), (f, a, b)))
            continue
        if second is None:
            out.append(('bad', 'chibicc -E rejects its own output (form %s, %r %r)' % (f, a, b), (f, a, b)) if i == 0 else ('ok', None, None))
            continue
        if second and pptok.lex(second.get(i, '')) != pptok.lex(x):
            out.append(('bad', 'E(E(x)) != E(x): form %s %r %r: %r then %r' % (f, a, b, x, second.get(i)), (f, a, b)))
            continue
        out.append(('ok', None, None))
    shutil.rmtree(d, ignore_errors=True)
    return out


def would_fuse_src(a, b):
    """conservative: may the two source tokens be written without a space?  False = keep a space."""
    if re.match(r'[A-Za-z_0-9$]', a[-1]) and re.match(r'^[A-Za-z_0-9$"\'.]', b):
        return True
    if a[-1] == '.' and re.match(r'^[0-9.]', b):
        return True
    if re.match(r'^\.?\d', a) and b[0] in '+-.':
        return True
    two = a[-1] + b[0]
    if two in ('++', '--', '<<', '>>', '&&', '||', '->', '//', '/*', '##', '==', '<=', '>=', '!=', '+=', '-=', '*=', '/=', '%=', '&=', '|=', '^=', '..', '<:', ':>', '<%', '%>', '%:'):
        return True
    if a in ('<<', '>>') and b[0] == '=':
        return True
    if a[-1] in '"\'' and re.match(r'^[A-Za-z_"\']', b):
        return False
    return False


class C19:
    id = 'C19'
    level = 'exploration'
    rule = ('cases: (a) exhaustive adjacency table: every ordered pair of %d token spellings covering all pp-token classes x 9 boundary forms (object-like next to object-like, '
            'A/**/B, literal next to expansion with and without space, parameter next to body token, adjacent expansion results, empty macros between tokens): lex(chibicc -E) must equal the '
            'reference token sequence and E(E(x)) == E(x); (b) programs from the C01/C03 generators re-spaced densely and macro-ised (token runs, operators, operands and empty macros '
            'replaced by macro invocations without surrounding white space): S(x) == S(E(x)) up to .file/.loc, E(E(x)) == E(x). non-trivial = an expansion boundary abuts another token '
            'without white space; distinct by (token pair, form) / program hash.' % len(TOK))
    assumptions = ['gcc -E -P and clang -E -P print a token sequence equal to what a compiler proper consumes',
                   'pp-numbers that are not valid constants are not part of the alphabet (D56 recorded under C09)']
    exhaustive = None

    def budget(self, tier):
        return 1800 if tier == 'quick' else 20000

    # ---- (b) macro-ised programs
    def macroise(self, ch, src):
        lines = src.split('\n')
        toks = []
        # keep preprocessor lines (there are none in these units) and lex the rest as one token stream with line structure dropped
        toks = pptok.lex(src)
        macros = []
        out = []
        i = 0
        nm = 0
        feat = set()
        dense = {}
        while i < len(toks):
            t = toks[i]
            rr = ch.int(0, 999)
            r = rr // 10
            dense[len(out)] = (rr % 10) < 8
            if r < 6 and i + 1 < len(toks):
                # replace a run of 1-4 tokens by an object-like macro (never across a string/char prefix boundary)
                n = ch.int(1, 4)
                run = toks[i:i + n]
                prev_ident = bool(out) and re.match(r'^[A-Za-z_]', out[-1][1] or '') is not None
                if not (run[0] == '(' and prev_ident) and all(x not in ('#', '##') for x in run) and run.count('(') == run.count(')') and run.count('{') == run.count('}') and run.count('[') == run.count(']'):
                    nm += 1
                    name = 'MO%d' % nm
                    macros.append('#define %s %s' % (name, ' '.join(run)))
                    out.append(('M', name, run[0], run[-1]))
                    feat.add('objlike-run')
                    i += n
                    continue
            if r < 10 and re.match(r'^[A-Za-z_0-9]', t) and t not in ('sizeof', '__typeof__', 'defined'):
                nm += 1
                name = 'MF%d' % nm
                macros.append('#define %s(p) p' % name)
                out.append(('M', '%s(%s)' % (name, t), t, ')'))
                feat.add('funclike-id')
                i += 1
                continue
            if r < 14 and t != '(':
                # an empty macro between two tokens (never between a name and its '(': whether that still is an invocation is not settled by 6.10.3p10) (object-like or function-like with no arguments)
                kind = ch.int(0, 1)
                nm += 1
                name = 'ME%d' % nm
                macros.append('#define %s%s' % (name, '' if kind == 0 else '()'))
                out.append(('E', name + ('' if kind == 0 else '()'), None, None))
                feat.add('empty-macro')
            out.append(('T', t, t, t))
            i += 1
        # spacing: dense wherever the *source* stays unambiguous
        text = []
        prev_src_last = None   # spelling (as written in the source) of the previous item
        for oi, (kind, spell, first, last) in enumerate(out):
            if prev_src_last is not None:
                if dense.get(oi, True) and not would_fuse_src(prev_src_last, spell):
                    pass
                else:
                    text.append(' ')
            text.append(spell)
            prev_src_last = spell
        body = ''.join(text)
        # long lines are fine for all tools; break at ';' and '}' occasionally for readability
        body = re.sub(r';(?=[^\n"\']{120,})', ';\n', body)
        return '\n'.join(macros) + '\n' + body + '\n', feat

    def one_prog(self, ch, ctx):
        st = ctx.stats
        if ch.bool():
            cs = [c01.CHECK.gen_case(ch, 3) for _ in range(ch.int(1, 3))]
            base = diffprog.unit_source(cs, None, diffprog.PRELUDE)
        else:
            cs = [c03.CHECK.gen_cf(ch, 2)]
            base = diffprog.unit_source(cs, None, c03.PRE)
            # expand the helper macros of that prelude by hand: keep them as real macros (they are part of the test)
        k = base.index('void c0_run') if 'void c0_run' in base else 0
        k = base.rfind('\n', 0, base.rfind('enum c0_E', 0, k) if 'enum c0_E' in base[:k] else k) + 1
        head, rest = base[:k], base[k:]
        src, feat = self.macroise(ch, rest)
        src = head + src
        d = ctx.fresh_dir()
        try:
            rep = {'kind': 'roundtrip', 'source': src, 'signature': core.shash(src)}
            status, bad = roundtrip(ctx.tree, src, d)
            if status != 'ok':
                st.count(status)
                if st.counters[status] <= 2:
                    st.samples.append({status: bad, 'source': src[:1500]})
                return
            for f in feat:
                st.tag(f)
            st.case(core.shash(src) if feat else None, sample=({'source': src[:900]} if len([s for s in st.samples if 'source' in s]) < 2 else None))
            if bad:
                raise core.Violation(rep, bad + '\n--- source ---\n' + src[:3000])
        finally:
            shutil.rmtree(d, ignore_errors=True)

    def example(self, ch, ctx):
        n = 0
        while ch.more(n, 1, 6):
            self.one_prog(ch, ctx)
            n += 1

    def replay(self, tree, rep, wd):
        if rep.get('kind') == 'adj':
            f, a, b = rep['case']
            res = _table_job((tree.dir, [(f, a, b)], wd, 0))
            return (res[0][0] == 'bad'), str(res[0][1])
        status, bad = roundtrip(tree, rep['source'], wd)
        if status != 'ok':
            return False, 'not decidable: %s %s' % (status, bad)
        return (True, bad) if bad else (False, 'round trips hold')

    def extra(self, tree, tier, stats, top):
        cases = table_chunks()
        n = core.NPROC * 2
        chunks = [cases[i::n] for i in range(n)]
        wd = os.path.join(top, 'adj'); os.makedirs(wd, exist_ok=True)
        with mp.get_context('fork').Pool(core.NPROC) as pool:
            res = pool.map(_table_job, [(tree.dir, c, wd, i) for i, c in enumerate(chunks)])
        viols = []
        seen = set()
        for chunk, rs in zip(chunks, res):
            for (f, a, b), (stt, msg, key) in zip(chunk, rs):
                if stt in ('ref_reject', 'ref_disagree'):
                    stats.count('adj_' + stt)
                    continue
                stats.case(nt_key=('adj', f, a, b))
                stats.count('adjacency_cases')
                if stt == 'bad':
                    sig = (f, ident_like(a), ident_like(b), a[-1], b[0])
                    if sig not in seen and len(viols) < 4:
                        seen.add(sig)
                        viols.append(({'kind': 'adj', 'case': [f, a, b], 'signature': 'adj-%s-%s-%s' % (f, a, b)}, msg))
        self.exhaustive = None
        return viols


def strip_loc(asm):
    return '\n'.join(l for l in asm.split('\n') if not re.match(r'\s*\.(file|loc)\b', l))


def roundtrip(tree, src, d):
    p = os.path.join(d, 'x.c')
    open(p, 'w').write(src)
    s1 = core.run([tree.cc, '-S', '-o', os.path.join(d, 'x.s'), p], timeout=20)
    if s1.rc != 0 or s1.timeout:
        # the macro-ised program must still be valid: check with gcc; if gcc accepts and chibicc does not, that is C13's subject, not decidable here
        g = core.run(['gcc', '-fsyntax-only', '-w', '-std=gnu11', p], timeout=20)
        return ('chibicc_rejects_input' if g.rc == 0 else 'generator_invalid'), (s1.err.strip().split('\n')[-1][-200:] if s1.err else '')
    e1 = core.run([tree.cc, '-E', '-o', os.path.join(d, 'e1.c'), p], timeout=20)
    if e1.rc != 0:
        return 'ok', 'chibicc -E fails on a program it compiles: %s' % e1.err.strip().split('\n')[-1][-200:]
    s2 = core.run([tree.cc, '-S', '-o', os.path.join(d, 'e1.s'), os.path.join(d, 'e1.c')], timeout=20)
    if s2.rc != 0:
        return 'ok', 'the -E output does not compile: %s' % s2.err.strip().split('\n')[-1][-300:]
    a = strip_loc(open(os.path.join(d, 'x.s')).read()); b = strip_loc(open(os.path.join(d, 'e1.s')).read())
    if a != b:
        la, lb = a.split('\n'), b.split('\n')
        k = next((i for i in range(min(len(la), len(lb))) if la[i] != lb[i]), min(len(la), len(lb)))
        return 'ok', 'S(x) != S(E(x)): first difference at asm line %d: %r vs %r' % (k, la[k] if k < len(la) else None, lb[k] if k < len(lb) else None)
    e2 = core.run([tree.cc, '-E', '-o', os.path.join(d, 'e2.c'), os.path.join(d, 'e1.c')], timeout=20)
    if e2.rc != 0:
        return 'ok', 'chibicc -E fails on its own output'
    t1 = pptok.lex(open(os.path.join(d, 'e1.c')).read()); t2 = pptok.lex(open(os.path.join(d, 'e2.c')).read())
    if t1 != t2:
        k = next((i for i in range(min(len(t1), len(t2))) if t1[i] != t2[i]), 0)
        return 'ok', 'E(E(x)) != E(x) at token %d: %s vs %s' % (k, t1[max(0, k - 3):k + 3], t2[max(0, k - 3):k + 3])
    return 'ok', None


CHECK = C19()
