"""C14 Driver process discipline under failure and concurrency.

Complete enumeration of command shapes {-E, -S, -c, link} x {-o, none} x 1-3 inputs of kinds {good .c, .c with a
syntax error, .c with an error found only by the code generator, missing .c, good .s, bad .s} x one failure point
(k-th cc1 / k-th as / ld failing by exit status or by signal, or an unwritable output location), checked against a
small model of the driver contract; plus Hypothesis-drawn concurrent bundles of drivers in one directory.
Faults are injected from outside: `as` and `ld` are PATH shims, cc1 is reached through a shim passed as argv[0]
(the driver re-executes argv[0] -cc1), an LD_PRELOAD observer logs every mkstemp()."""
import os, sys, itertools, shutil, subprocess, tempfile
import multiprocessing as mp
from vlib import core

SRC = {'good.c': 'int g%d(void){return %d;}\n', 'bad.c': 'int b%d(void){return %d ;;;+}\n', 'badcg.c': 'int c%d(void){ 1 = %d; return 0; }\n',
       'goodasm.s': '.globl a%d\na%d:\n  ret\n', 'badasm.s': '  thisisnotaninsn %d, %d\n'}
KINDS = ['good.c', 'bad.c', 'badcg.c', 'missing.c', 'goodasm.s', 'badasm.s', 'obj.o']


def setup(d, chi):
    os.makedirs(os.path.join(d, 'shim'), exist_ok=True)
    open(os.path.join(d, 'shim', 'cc1shim'), 'w').write('''#!/bin/bash
n=$(cat "$CNT.cc1" 2>/dev/null || echo 0); n=$((n+1)); echo $n > "$CNT.cc1"
if [ "$FAULT" = "cc1:$n:exit" ]; then echo "shim: cc1 fails" >&2; exit 1; fi
if [ "$FAULT" = "cc1:$n:sig" ]; then kill -SEGV $$; fi
exec %s "$@"
''' % chi)
    for tool in ('as', 'ld'):
        open(os.path.join(d, 'shim', tool), 'w').write('''#!/bin/bash
n=$(cat "$CNT.%s" 2>/dev/null || echo 0); n=$((n+1)); echo $n > "$CNT.%s"
if [ "$FAULT" = "%s:$n:exit" ]; then echo "shim: %s fails" >&2; exit 1; fi
if [ "$FAULT" = "%s:$n:sig" ]; then kill -KILL $$; fi
exec /usr/bin/%s "$@"
''' % (tool, tool, tool, tool, tool, tool))
    for f in ('cc1shim', 'as', 'ld'):
        os.chmod(os.path.join(d, 'shim', f), 0o755)


def model(mode, has_o, inputs, fault):
    """returns (expect_fail, outputs that must exist, outputs that must not be created or rewritten)"""
    steps = []
    ncc1 = nas = 0
    for i, (name, kind) in enumerate(inputs):
        if kind in ('good.c', 'bad.c', 'badcg.c', 'missing.c'):
            ncc1 += 1; steps.append(('cc1', ncc1, i, kind))
            if mode in ('-c', 'link'):
                nas += 1; steps.append(('as', nas, i, kind))
        elif kind in ('goodasm.s', 'badasm.s'):
            if mode in ('-c', 'link'):
                nas += 1; steps.append(('as', nas, i, kind))
    if mode == 'link':
        steps.append(('ld', 1, None, None))
    done = set(); failed = False
    # an output path in a missing directory is a failure only if the command writes an output at all: with -S nothing is written
    # for .s and .o inputs, with -c and -E nothing for .o inputs
    writes = mode == 'link' or any(k.endswith('.c') or (mode == '-c' and k.endswith('.s')) for n_, k in inputs)
    if fault is not None and fault[0] == 'outdir' and writes:
        failed = True          # (-S with only assembler inputs writes nothing, so an unwritable -o is not a failure)
    else:
        for tool, n, i, kind in steps:
            bad_input = (tool == 'cc1' and (kind == 'missing.c' or (kind in ('bad.c', 'badcg.c') and mode != '-E'))) or (tool == 'as' and kind == 'badasm.s')
            injected = fault is not None and fault[0] == tool and fault[1] == n
            if bad_input or injected:
                failed = True; break
            if i is not None and (tool == 'as' or mode in ('-E', '-S')):
                done.add(i)
    must = set(); mustnot = set()
    for i, (name, kind) in enumerate(inputs):
        base = name.rsplit('.', 1)[0]
        if mode == '-S' and kind.endswith('.c'):
            out = 'out' if has_o else base + '.s'
        elif mode == '-c' and (kind.endswith('.c') or kind.endswith('.s')):
            out = 'out' if has_o else base + '.o'
        else:
            out = None
        if out:
            (must if (i in done and not (fault and fault[0] == 'outdir')) else mustnot).add(out)
    if mode == 'link':
        out = 'out' if has_o else 'a.out'
        (mustnot if failed else must).add(out)
    if mode == '-E' and has_o and not failed:
        must.add('out')
    if fault and fault[0] == 'outdir':
        must = set()
    return failed, must, mustnot - must


def one(job):
    chi, preload, mode, has_o, kinds, fault = job
    d = tempfile.mkdtemp(prefix='dv', dir=core.WORKBASE)
    try:
        setup(d, chi)
        inputs = []
        for i, k in enumerate(kinds):
            ext = '.c' if k.endswith('.c') else ('.o' if k.endswith('.o') else '.s')
            name = 'u%d%s' % (i, ext)
            if k == 'obj.o':
                shutil.copy(os.path.join(os.path.dirname(preload), 'obj%d.o' % i), os.path.join(d, name))      # a pre-built object defining o<i>
            elif k != 'missing.c':
                open(os.path.join(d, name), 'w').write(SRC[k] % (i, i))
            inputs.append((name, k))
        if mode == 'link':
            open(os.path.join(d, 'mainx.c'), 'w').write('int main(void){return 0;}\n')
            inputs.append(('mainx.c', 'good.c'))
        oarg = ['-o', 'out'] if has_o else []
        if fault and fault[0] == 'outdir':
            oarg = ['-o', 'no_such_dir/out']
        args = ([] if mode == 'link' else [mode]) + oarg + [n for n, k in inputs]
        exp_fail, must, mustnot = model(mode, has_o, inputs, fault)
        for f in mustnot:
            open(os.path.join(d, f), 'w').write('SENTINEL')
        env = dict(os.environ)
        env['PATH'] = os.path.join(d, 'shim') + ':' + env['PATH']
        env['CNT'] = os.path.join(d, 'cnt'); env['LD_PRELOAD'] = preload; env['VERIF_TMPLOG'] = os.path.join(d, 'tmplog')
        env['FAULT'] = ':'.join(map(str, fault)) if (fault and fault[0] != 'outdir') else ''
        try:
            p = subprocess.run([os.path.join(d, 'shim', 'cc1shim')] + args, executable=chi, cwd=d, env=env, capture_output=True, text=True, timeout=60)
        except subprocess.TimeoutExpired:
            return job[2:], ['driver hangs']
        problems = []
        if exp_fail and p.returncode == 0:
            problems.append('exit 0 although a step failed')
        if not exp_fail and p.returncode != 0:
            problems.append('exit %d although nothing failed: %s' % (p.returncode, p.stderr[-120:]))
        for f in must:
            if not os.path.exists(os.path.join(d, f)):
                problems.append('requested output %s is missing' % f)
        for f in mustnot:
            q = os.path.join(d, f)
            # a stale output of a failed unit may be removed (GNU as and gcc do that) but never rewritten
            if os.path.exists(q) and open(q, errors='replace').read() != 'SENTINEL':
                problems.append('output of a failed unit was created or overwritten: %s' % f)
        if not exp_fail and p.returncode == 0:
            # "on success exactly the requested outputs exist": nothing else may appear in the directory ...
            allowed = {'shim', 'tmplog', 'no_such_dir'} | {n for n, k in inputs} | set(must)
            extra = sorted(f for f in os.listdir(d) if f not in allowed and not f.startswith('cnt.'))
            if extra:
                problems.append('files that were not requested were created: %s' % extra)
            # ... and the executable is the link of every input
            exe = os.path.join(d, 'out' if has_o else 'a.out')
            if mode == 'link' and os.path.exists(exe):
                nm = subprocess.run(['nm', exe], capture_output=True, text=True).stdout
                defined = set(l.split()[-1] for l in nm.split('\n') if len(l.split()) == 3 and l.split()[1] in 'Tt')
                for i, (name, kind) in enumerate(inputs):
                    sym = {'good.c': 'g%d' % i, 'goodasm.s': 'a%d' % i, 'obj.o': 'o%d' % i}.get(kind) if name != 'mainx.c' else 'main'
                    if sym and sym not in defined:
                        problems.append('input %s was not linked into the executable (symbol %s missing)' % (name, sym))
        log = open(os.path.join(d, 'tmplog')).read().split('\n') if os.path.exists(os.path.join(d, 'tmplog')) else []
        left = [l.split()[2] for l in log if l and os.path.exists(l.split()[2])]
        if left:
            problems.append('temporary files left behind: %s' % left)
        for l in left:
            os.remove(l)
        return job[2:], problems
    finally:
        shutil.rmtree(d, ignore_errors=True)


def all_jobs(tier):
    jobs = []
    for mode in ('-S', '-c', 'link', '-E'):
        for n in (1, 2, 3):
            for kinds in itertools.product(KINDS, repeat=n):
                if mode == '-E' and any(k.endswith('.s') or k.endswith('.o') for k in kinds):
                    continue
                if kinds.count('obj.o') > 1 or (n == 3 and 'obj.o' in kinds and tier == 'quick' and list(kinds) != sorted(kinds)):
                    continue          # pre-built objects: one per command; quick tier takes one order of each 3-input combination
                if n == 3 and tier == 'quick' and len(set(kinds)) == 3 and kinds[0] > kinds[1]:
                    continue          # quick tier: permutations of three distinct kinds thinned (thorough runs all)
                for has_o in (False, True):
                    if has_o and mode in ('-S', '-c', '-E') and n > 1:
                        continue      # rejected by the driver up front
                    faults = [None, ('outdir', 0, 'x')] if has_o else [None]
                    for tool in ('cc1', 'as', 'ld'):
                        for k in range(1, n + 2):
                            for how in ('exit', 'sig'):
                                faults.append((tool, k, how))
                    for fault in faults:
                        jobs.append((mode, has_o, kinds, fault))
    return jobs


class C14:
    id = 'C14'
    level = 'fault_enumeration'
    rule = ('complete enumeration: command shape {-E,-S,-c,link} x {-o, none} x 1..3 inputs of 7 kinds (good .c, syntax-error .c, codegen-error .c, missing .c, good .s, bad .s, pre-built .o) x one '
            'fault: none, k-th cc1 / k-th as / ld failing by exit status or by signal (k up to inputs+1), or an output path in a missing directory; each run checked against a model of the '
            'driver contract (exit status; outputs exist exactly for units whose pipeline completed; outputs of failed units never created or rewritten; every mkstemp file gone; on success no file appears that was not requested and the executable defines the symbols of every input). Plus '
            'Hypothesis-drawn concurrent bundles of 2-12 drivers in one directory, each compared with its solo run. non-trivial = pipeline has >= 2 subprocesses and the fault is not in the '
            'first one, or a concurrent bundle; distinct by (shape, inputs, fault).')
    assumptions = ['interleavings inside the kernel are not controlled for the concurrent bundles', 'killing the driver itself is outside the statement',
                   'quick tier thins permutations of three distinct input kinds; the thorough tier enumerates all']
    exhaustive = True

    def budget(self, tier):
        return 48 if tier == 'quick' else 600

    def prepare(self, tree, tier):
        top = os.path.dirname(tree.dir)
        self.preload = os.path.join(top, 'mkstemp_log.so')
        if not os.path.exists(self.preload):
            r = core.run(['gcc', '-shared', '-fPIC', '-o', self.preload, os.path.join(core.VERIF, 'native', 'mkstemp_log.c'), '-ldl'], timeout=60, as_mb=0)
            if r.rc != 0:
                raise core.BuildError('cannot build mkstemp observer: ' + r.err[-300:])
        for i in range(3):
            o = os.path.join(top, 'obj%d.o' % i)
            if not os.path.exists(o):
                c = os.path.join(top, 'obj%d.c' % i)
                open(c, 'w').write('int o%d(void){return %d;}\n' % (i, i))
                if core.run(['gcc', '-c', '-o', o, c], timeout=60).rc != 0:
                    raise core.BuildError('cannot build the object inputs')

    # ---- concurrent bundles
    def example(self, ch, ctx):
        st = ctx.stats
        d = ctx.fresh_dir()
        try:
            n = ch.int(2, 12)
            jobs = []
            for i in range(n):
                mode = ch.choice(['-S', '-c', 'link', '-E'])
                kind = ch.choice(['good.c', 'good.c', 'bad.c', 'badcg.c', 'goodasm.s'])
                if mode == '-E' and kind.endswith('.s'):
                    kind = 'good.c'
                ext = '.c' if kind.endswith('.c') else '.s'
                name = 'm%d%s' % (i, ext)
                open(os.path.join(d, name), 'w').write(SRC[kind] % (i, i))
                extra = []
                if mode == 'link':
                    open(os.path.join(d, 'main%d.c' % i), 'w').write('int main(void){return 0;}\n')
                    extra = ['main%d.c' % i]
                out = 'o%d' % i
                args = ([] if mode == 'link' else [mode]) + ['-o', out, name] + extra
                jobs.append((args, out, mode, kind))
            env = dict(os.environ, LD_PRELOAD=self.preload, VERIF_TMPLOG=os.path.join(d, 'tmplog'))
            # solo runs first
            solo = []
            for args, out, mode, kind in jobs:
                p = subprocess.run([ctx.tree.cc] + args, cwd=d, env=env, capture_output=True, timeout=60)
                q = os.path.join(d, out)
                data = open(q, 'rb').read() if os.path.exists(q) else None
                if data is not None and data[:4] == b'\x7fELF':
                    data = b'ELF'      # link/object bytes are not compared (build ids, debug dirs); existence is
                solo.append((p.returncode, data))
                if os.path.exists(q):
                    os.unlink(q)
            procs = []
            for args, out, mode, kind in jobs:
                procs.append(subprocess.Popen([ctx.tree.cc] + args, cwd=d, env=env, stdout=subprocess.DEVNULL, stderr=subprocess.DEVNULL))
                if ch.int(0, 3) == 0:
                    import time
                    time.sleep(ch.int(0, 5) / 1000.0)
            res = []
            for p, (args, out, mode, kind) in zip(procs, jobs):
                try:
                    rc = p.wait(timeout=60)
                except subprocess.TimeoutExpired:
                    p.kill(); rc = 'timeout'
                q = os.path.join(d, out)
                data = open(q, 'rb').read() if os.path.exists(q) else None
                if data is not None and data[:4] == b'\x7fELF':
                    data = b'ELF'
                res.append((rc, data))
            st.case(('bundle', tuple((tuple(a), k) for a, o, m, k in jobs)), sample=({'bundle': [a for a, o, m, k in jobs]} if len(st.samples) < 1 else None))
            st.tag('concurrent-bundle')
            bad = [(jobs[i][0], solo[i][0], res[i][0]) for i in range(n) if solo[i] != res[i]]
            log = open(os.path.join(d, 'tmplog')).read().split('\n') if os.path.exists(os.path.join(d, 'tmplog')) else []
            left = [l.split()[2] for l in log if l and os.path.exists(l.split()[2])]
            for l in left:
                os.remove(l)
            if bad or left:
                rep = {'kind': 'bundle', 'jobs': [[a, o, m, k] for a, o, m, k in jobs], 'signature': core.shash(repr(jobs))}
                raise core.Violation(rep, 'concurrent drivers interfere: (args, solo rc, concurrent rc) %s; temporaries left: %s' % (bad[:3], left[:3]))
        finally:
            shutil.rmtree(d, ignore_errors=True)

    def extra(self, tree, tier, stats, top):
        jobs = all_jobs(tier)
        full = [(tree.cc, self.preload) + j for j in jobs]
        with mp.get_context('fork').Pool(core.NPROC) as pool:
            res = pool.map(one, full, chunksize=8)
        viols = []
        seen = set()
        for (mode, has_o, kinds, fault), problems in res:
            nsub = sum(1 for k in kinds) * (2 if mode in ('-c', 'link') else 1) + (1 if mode == 'link' else 0)
            nt = nsub >= 2 and fault is not None and not (fault[0] == 'cc1' and fault[1] == 1)
            stats.case((mode, has_o, kinds, fault) if nt else None)
            stats.tag('mode:' + mode)
            stats.tag('fault:' + (fault[0] + ':' + fault[2] if fault else 'none'))
            if problems:
                sig = (mode, problems[0].split(':')[0], fault[0] if fault else None, fault[2] if fault else None)
                if sig not in seen and len(viols) < 4:
                    seen.add(sig)
                    viols.append(({'kind': 'driver', 'mode': mode, 'has_o': has_o, 'kinds': list(kinds), 'fault': list(fault) if fault else None, 'signature': 'drv-' + core.shash(repr(sig))},
                                  'driver deviates from its contract: mode %s, -o %s, inputs %s, fault %s: %s' % (mode, has_o, kinds, fault, problems)))
        stats.counters['shape_x_fault_combinations'] = len(jobs)
        if tier == 'quick':
            self.exhaustive = False
        return viols

    def replay(self, tree, rep, wd):
        self.prepare(tree, 'quick')
        if rep['kind'] == 'driver':
            fault = tuple(rep['fault']) if rep['fault'] else None
            _, problems = one((tree.cc, self.preload, rep['mode'], rep['has_o'], tuple(rep['kinds']), fault))
            return bool(problems), '; '.join(problems) or 'driver conforms to the model'
        return False, 'concurrent bundles are not replayed deterministically (inconclusive)'


CHECK = C14()
