"""C02 Floating-point arithmetic and conversions are bit-exact.

Operands enter through volatile unions initialised from integer bit patterns, so nothing is
constant-folded; results are printed as raw bits (NaNs canonicalised) and compared with the
gcc/clang consensus.  Definedness of fp->int conversions (C11 6.3.1.4) is decided exactly with
rational arithmetic on the operand's bit pattern."""
import math
from fractions import Fraction
from vlib import core, diffprog, igen, fpfmt
from vlib.fpfmt import F32, F64, F80, FMTS, INF, NINF, NAN, NZERO
from vlib.igen import TYPES as ITYPES, BOOL, INT, LONG, ULONG, conv

FPRELUDE = diffprog.PRELUDE + r'''
#include <stdarg.h>
static void PF(const char *id, float v) { unsigned int b; memcpy(&b, &v, 4);
  if ((b & 0x7f800000u) == 0x7f800000u && (b & 0x7fffffu)) printf("%s f nan\n", id); else printf("%s f %08x\n", id, b); }
static void PD(const char *id, double v) { unsigned long b; memcpy(&b, &v, 8);
  if ((b & 0x7ff0000000000000ul) == 0x7ff0000000000000ul && (b & 0xffffffffffffful)) printf("%s d nan\n", id); else printf("%s d %016lx\n", id, b); }
static void PL(const char *id, long double v) { unsigned long lo = 0; unsigned short hi = 0; memcpy(&lo, &v, 8); memcpy(&hi, (char *)&v + 8, 2);
  if ((hi & 0x7fff) == 0x7fff && (lo << 1)) printf("%s l nan\n", id); else printf("%s l %04x%016lx\n", id, (unsigned)hi, lo); }
static void PI(const char *id, long v) { printf("%s i %lx\n", id, (unsigned long)v); }
'''

ALLT = list(ITYPES) + FMTS
ROUNDING_INTS = [2 ** 24 + 1, 2 ** 24 + 3, 2 ** 24 + 2, 2 ** 25 + 2, 2 ** 25 + 6, 2 ** 53 + 1, 2 ** 53 + 3, 2 ** 54 + 2, 2 ** 54 + 6, -(2 ** 24 + 1), -(2 ** 53 + 1),
                 0x8000008000000001, 0x8000008000000000, 0x8000018000000000, 0x8000000000000401, 0x8000000000000400, 0x8000000000000c00,
                 0x7fffffbfffffffff, 0x7fffffffffffffff, 0xffffffffffffffff, 0xfffffffffffffbff, 0xffffff7fffffffff, 0xffffff8000000001,
                 0x8000000000000000, 0x8000000000000001, 0x4000004000000001, 0x4000000000000201, 0xffffffff, 0x100000000, 0xfffffffe, 0x1ffffff, 0x3fffffe]


def isfp(t):
    return isinstance(t, fpfmt.Fmt)


def cname(t):
    return t.cname if isfp(t) else t.name


def sname(t):
    return t.name if isfp(t) else t.short


def printer(t, expr):
    if t is F32:
        return 'PF("@", %s);' % expr
    if t is F64:
        return 'PD("@", %s);' % expr
    if t is F80:
        return 'PL("@", %s);' % expr
    return 'PI("@", (long)(%s));' % expr


def fp_rank(t):
    return {F32: 1, F64: 2, F80: 3}[t]


def common_t(a, b):
    if isfp(a) and isfp(b):
        return a if fp_rank(a) >= fp_rank(b) else b
    if isfp(a):
        return a
    if isfp(b):
        return b
    return igen.common(a, b)


def vclass(v):
    if v in (INF, NINF):
        return 'inf'
    if v == NAN:
        return 'nan'
    if v == NZERO:
        return '-0'
    if v == 0:
        return '0'
    a = abs(v)
    for k in (64, 63, 53, 32, 31, 24):
        if abs(a - 2 ** k) <= 2 ** max(k - 20, 0) * 4:
            return '2^%d' % k
    if a < Fraction(1, 2 ** 126):
        return 'tiny'
    if a >= 2 ** 64:
        return 'huge'
    if a != int(a):
        return 'frac'
    return 'int'


def fp_to_int_defined(v, d):
    """C11 6.3.1.4p1: finite, and the truncated value representable (for _Bool: always defined)."""
    if d is BOOL:
        return True
    if v in (INF, NINF, NAN):
        return False
    if v == NZERO:
        return True
    t = int(v)        # truncation toward zero (Fraction.__int__ -> trunc)
    return d.min() <= t <= d.max()


class Obj:
    """A leaf object: type, exact value (int or Fraction/special), C expression reading it."""
    __slots__ = ('t', 'v', 'txt', 'ap')

    def __init__(s, t, v, txt):
        s.t, s.v, s.txt = t, v, txt
        s.ap = float(v) if not isfp(t) else fpfmt.approx(v)


class FGen:
    def __init__(self, ch):
        self.ch = ch
        self.decls = []
        self.n = 0
        self.feat = set()
        self.nt = False

    def leaf(self, t=None, small=False):
        ch = self.ch
        if t is None:
            t = ch.choice(ALLT)
        self.n += 1
        if isfp(t):
            p = fpfmt.pool(t)
            if small:
                bits = fpfmt.encode(ch.choice([0, 1, -1, Fraction(1, 2), 3, Fraction(5, 2), 100, -7, Fraction(1, 3), 1000, NZERO, Fraction(-3, 2)]), t)
            elif ch.int(0, 9) < 8:
                bits = ch.choice(p)
            else:
                bits = ch.bits(t.sig_bytes * 8)
                if t is F80:   # keep the explicit integer bit consistent (no pseudo-denormals/unnormals)
                    ef = (bits >> 64) & 0x7fff
                    bits = (bits | (1 << 63)) if ef else (bits & ~(1 << 63))
            v = fpfmt.decode(bits, t)
            name = '@u%d' % self.n
            self.decls.append('  ' + fpfmt.union_decl(name, bits, t))
            c = vclass(v)
            if c not in ('int', 'frac'):
                self.nt = True
            if t is F80:
                self.nt = True
            self.feat.add('v:%s:%s' % (t.name, c))
            return Obj(t, v, name + '.f')
        if small:
            v = igen.conv(ch.choice([0, 1, 2, 3, 7, 100, -1, -5, 255]), t)
        else:
            k = ch.int(0, 9)
            if k < 5:
                v = igen.conv(ch.choice(igen.bound_values(t)), t)
            elif k < 8:
                # integers whose conversion to a floating type must round (ties, sticky bits, 2^63 split)
                v = igen.conv(ch.choice(ROUNDING_INTS), t)
            else:
                v = igen.conv(ch.bits(64), t)
            if abs(v) >= 2 ** 24:
                self.nt = True
        name = '@i%d' % self.n
        self.decls.append('  volatile %s %s = %s;' % (t.name, name, igen.lit(t, v)))
        return Obj(t, v, name)


class C02:
    id = 'C02'
    level = 'exploration'
    rule = ('cases: (a) conversions between all 12x12 arithmetic type pairs over boundary-class values in 5 syntactic forms (cast, initializer, '
            'assignment, argument, return), restricted to conversions C11 6.3.1.4 defines (decided exactly); (b) every binary operator, comparison, '
            'unary operator, truth context, compound assignment and ++/-- over fp and mixed int/fp operands drawn from the special-value pools; '
            '(c) nested fp/int expressions to depth 4; (d) decimal and hexadecimal floating constants x suffixes; (e) default argument promotion through '
            'variadic calls; (f) any of the above followed by rounding-sensitive x87 and SSE probes (the floating-point environment must survive); (g) static objects initialized from constants: integers up to 2^64-1 -> each floating type, floating constants -> each integer type, enum-typed operands, hexadecimal floating constants longer than the mantissa. Oracle: raw result bits (NaN canonicalised) of gcc and clang must agree and chibicc must equal them. '
            'non-trivial = involves a boundary-class value (0,-0,denormal,2^24,2^31,2^32,2^53,2^63,2^64,inf,NaN), a long double operand, or a mixed-type pair; '
            'distinct by (form, operation, type pair, value-class pair).')
    assumptions = ['gcc 12 / clang 14 at -O0 -std=gnu11 implement IEEE-754 binary32/64 and x87 extended arithmetic with FLT_EVAL_METHOD 0',
                   'NaN payload/sign is not compared (canonicalised); signed zeros and everything else compared bit-exactly',
                   'decimal constants whose two-step rounding (via long double) differs from direct rounding are excluded: C11 6.4.4.2p3 allows either neighbour']
    excl = {'decimal-double-rounding': 0}

    def budget(self, tier):
        return 1300 if tier == 'quick' else 15000

    # (a) conversions ---------------------------------------------------------------
    def g_conv(self, ch):
        g = FGen(ch)
        s = ch.choice(ALLT); d = ch.choice(ALLT)
        if not isfp(s) and not isfp(d):
            d = ch.choice(FMTS)
        x = g.leaf(s)
        if isfp(s) and not isfp(d) and not fp_to_int_defined(x.v, d):
            # redirect to a value for which the conversion is defined (construction, not rejection)
            cands = [b for b in fpfmt.pool(s) if fp_to_int_defined(fpfmt.decode(b, s), d)]
            bits = ch.choice(cands)
            g.decls[-1] = '  ' + fpfmt.union_decl(x.txt[:-2], bits, s)
            x = Obj(s, fpfmt.decode(bits, s), x.txt)
        form = ch.int(0, 4)
        D, S = cname(d), cname(s)
        decls = ''
        if form == 0:
            body = '  ' + printer(d, '(%s)%s' % (D, x.txt))
        elif form == 1:
            body = '  { %s r = %s; %s }' % (D, x.txt, printer(d, 'r'))
        elif form == 2:
            body = '  { %s r; r = %s; %s }' % (D, x.txt, printer(d, 'r'))
        elif form == 3:
            decls = 'static %s @f(%s p) { return p; }\n' % (D, D)
            body = '  ' + printer(d, '@f(%s)' % x.txt)
        else:
            decls = 'static %s @f(%s p) { return p; }\n' % (D, S)
            body = '  ' + printer(d, '@f(%s)' % x.txt)
        vc = vclass(x.v) if isfp(s) else ('ib' if abs(x.v) >= 2 ** 24 else 'is')
        nt = ('conv', form, sname(s), sname(d), vc)
        tags = ['conv:%s>%s' % (sname(s), sname(d)), 'form:conv%d' % form]
        return diffprog.Case(decls=decls, body='\n'.join(g.decls) + '\n' + body + '\n', nt=nt, tags=tags)

    # (b) operators -----------------------------------------------------------------
    def g_op(self, ch):
        g = FGen(ch)
        ta = ch.choice(ALLT); tb = ch.choice(ALLT)
        if not isfp(ta) and not isfp(tb):
            ta = ch.choice(FMTS)
        kind = ch.int(0, 9)
        lines = []
        tags = []
        if kind <= 4:
            a = g.leaf(ta); b = g.leaf(tb)
            op = ch.choice(['+', '-', '*', '/', '<', '<=', '>', '>=', '==', '!='])
            if op == '/' and not isfp(tb) and b.v == 0:
                op = '*'
            e = '(%s %s %s)' % (a.txt, op, b.txt)
            rt = INT if op in ('<', '<=', '>', '>=', '==', '!=') else common_t(ta, tb)
            lines.append(printer(rt, e))
            lines.append('printf("@ s %%d\\n", (int)sizeof%s);' % e)
            tags.append('%s:%s,%s' % (op, sname(ta), sname(tb)))
            nt = ('bin', op, sname(ta), sname(tb), self.cls(a), self.cls(b))
        elif kind == 5:
            a = g.leaf(ch.choice(FMTS))
            op = ch.choice(['-', '!', '+'])
            e = '(%s%s)' % (op, a.txt)
            rt = INT if op == '!' else a.t
            lines.append(printer(rt, e))
            lines.append('printf("@ s %%d\\n", (int)sizeof%s);' % e)
            tags.append('u%s:%s' % (op, sname(a.t)))
            nt = ('un', op, sname(a.t), self.cls(a))
        elif kind == 6:
            a = g.leaf(ch.choice(FMTS))
            form = ch.int(0, 7)
            x = a.txt
            t = ['if (%s) printf("@ 1\\n"); else printf("@ 0\\n");' % x,
                 'printf("@ %%d\\n", %s ? 1 : 0);' % x,
                 'printf("@ %%d\\n", %s && 1);' % x,
                 'printf("@ %%d\\n", %s || 0);' % x,
                 'printf("@ %%d\\n", (int)(_Bool)%s);' % x,
                 '{ int n = 0; while (%s) { n++; break; } printf("@ %%d\\n", n); }' % x,
                 '{ int n = 0; for (; %s; ) { n++; break; } printf("@ %%d\\n", n); }' % x,
                 '{ int n = 0; do { if (n++) break; } while (%s); printf("@ %%d\\n", n); }' % x][form]
            lines.append(t)
            tags.append('truth%d:%s' % (form, sname(a.t)))
            nt = ('truth', form, sname(a.t), self.cls(a))
        elif kind == 7:
            # logical operators with mixed operand types: each operand is tested with its own type
            a = g.leaf(ta); b = g.leaf(tb)
            op = ch.choice(['&&', '||'])
            lines.append('printf("@ %%d\\n", (%s %s %s));' % (a.txt, op, b.txt))
            c = g.leaf(ch.choice(ALLT)); d = g.leaf(ch.choice(ALLT))
            e = '(%s ? %s : %s)' % (a.txt, c.txt, d.txt)
            rt = common_t(c.t, d.t)
            lines.append(printer(rt, e))
            lines.append('printf("@ s %%d\\n", (int)sizeof%s);' % e)
            tags.append('%s:%s,%s' % (op, sname(ta), sname(tb)))
            tags.append('?::%s,%s' % (sname(c.t), sname(d.t)))
            nt = ('log', op, sname(ta), sname(tb), self.cls(a), self.cls(b), sname(c.t), sname(d.t))
        elif kind == 8:
            # compound assignment / plain assignment with mixed types; value and stored result
            lt = ch.choice(ALLT); rt_ = ch.choice(FMTS) if not isfp(lt) else ch.choice(ALLT)
            op = ch.choice(['+', '-', '*', '/', ''])
            if isfp(lt):
                a = g.leaf(lt); b = g.leaf(rt_)
                if op == '/' and not isfp(rt_) and b.v == 0:
                    op = '+'
            else:
                # integer lhs, floating rhs: the converted-back result must be representable: keep operands small
                a = g.leaf(lt, small=True); b = g.leaf(rt_, small=True)
                if op == '/' and (b.v == 0 or b.v == NZERO):
                    op = '+'
                if op == '-' and not lt.signed and b.ap > a.ap:
                    op = '+'
                if (op in ('+', '*', '') and not lt.signed and (b.ap < 0 or (op == '+' and a.ap + b.ap < 0))):
                    op = '/' if (b.v != 0 and b.v != NZERO and b.ap > 0) else '+'
                    if op == '+':
                        b = g.leaf(rt_, small=True)
                        if b.ap < 0:
                            return None
                if lt is not BOOL:
                    res = {'+': a.ap + b.ap, '-': a.ap - b.ap, '*': a.ap * b.ap, '/': (a.ap / b.ap if b.ap else 0), '': b.ap}[op]
                    if not (lt.min() + 1 < res < lt.max() - 1) or (not lt.signed and res <= -1):
                        return None
            L = cname(lt)
            lines.append('{ %s x = %s; %s y; y = (x %s= %s); %s %s }' % (L, a.txt, L, op, b.txt, printer(lt, 'x'), printer(lt, 'y')))
            tags.append('%s=:%s,%s' % (op, sname(lt), sname(rt_)))
            nt = ('asg', op, sname(lt), sname(rt_), self.cls(a), self.cls(b))
        else:
            t = ch.choice(FMTS)
            a = g.leaf(t)
            op = ch.choice(['++', '--'])
            post = ch.bool()
            T = cname(t)
            e = ('x%s' % op) if post else ('%sx' % op)
            lines.append('{ %s x = %s; %s y = %s; %s %s }' % (T, a.txt, T, e, printer(t, 'x'), printer(t, 'y')))
            tags.append('%s%s:%s' % ('post' if post else 'pre', op, sname(t)))
            nt = ('incdec', op, post, sname(t), self.cls(a))
        if not g.nt and not any(t is F80 for t in (ta, tb)):
            nt = None if kind <= 4 and ta is tb else nt
        body = '\n'.join(g.decls) + '\n' + '\n'.join('  ' + l for l in lines) + '\n'
        return diffprog.Case(body=body, nt=nt, tags=tags)

    @staticmethod
    def cls(o):
        return vclass(o.v) if isfp(o.t) else ('ib' if abs(o.v) >= 2 ** 24 else 'is')

    # (c) nested expressions --------------------------------------------------------
    def g_nested(self, ch, depth):
        g = FGen(ch)
        pend = [0]

        def ex(d):
            """returns (text, type, approx)"""
            if d <= 0 or ch.int(0, 5) == 0:
                o = g.leaf(ch.choice(ALLT), small=ch.int(0, 2) > 0)
                return o.txt, o.t, o.ap
            k = ch.int(0, 9)
            if k <= 4:
                op = ch.choice(['+', '-', '*', '/'])
                a = ex(d - 1); b = ex(d - 1)
                ct = common_t(a[1], b[1])
                if not isfp(ct):
                    # integer arithmetic: keep it defined by forcing one side floating
                    a = ('(double)%s' % a[0], F64, a[2])
                    ct = common_t(a[1], b[1])
                if op == '/' and b[2] == 0 and not isfp(b[1]):
                    op = '+'
                try:
                    ap = {'+': a[2] + b[2], '-': a[2] - b[2], '*': a[2] * b[2], '/': (a[2] / b[2]) if b[2] != 0 else float('nan')}[op]
                except OverflowError:
                    ap = float('inf')
                if ct is F32 and ap == ap and abs(ap) > 3e38:
                    ap = float('inf') if ap > 0 else float('-inf')
                g.feat.add('n%s:%s' % (op, sname(ct)))
                return '(%s %s %s)' % (a[0], op, b[0]), ct, ap
            if k == 5:
                a = ex(d - 1)
                if not isfp(a[1]):
                    t = ch.choice(FMTS)
                    return '(%s)%s' % (cname(t), a[0]), t, a[2]
                return '(-%s)' % a[0], a[1], -a[2]
            if k == 6:
                a = ex(d - 1)
                t = ch.choice(ALLT)
                if isfp(a[1]) and not isfp(t):
                    ap = a[2]
                    ok = (ap == ap) and abs(ap) != float('inf')
                    if ok and t is not BOOL:
                        lo, hi = t.min(), t.max()
                        ok = (lo * (1 - 2 ** -20) < ap < hi * (1 - 2 ** -20)) if t.signed else (-0.999 < ap < hi * (1 - 2 ** -20))
                    if not ok:
                        t = ch.choice(FMTS)
                        return '(%s)%s' % (cname(t), a[0]), t, a[2]
                    g.feat.add('ncast:%s>%s' % (sname(a[1]), sname(t)))
                    return '(%s)%s' % (cname(t), a[0]), t, (float(int(ap)) if t is not BOOL else float(ap != 0))
                if not isfp(a[1]) and not isfp(t):
                    t = ch.choice(FMTS)
                g.feat.add('ncast:%s>%s' % (sname(a[1]), sname(t)))
                return '(%s)%s' % (cname(t), a[0]), t, a[2]
            if k == 7:
                op = ch.choice(['<', '<=', '>', '>=', '==', '!='])
                a = ex(d - 1); b = ex(d - 1)
                if not isfp(a[1]) and not isfp(b[1]):
                    a = ('(long double)%s' % a[0], F80, a[2])
                # the truth value near equality is not predictable from approximations: but it is only 0/1 either way
                return '(%s %s %s)' % (a[0], op, b[0]), INT, 0.5
            if k == 8:
                c = ex(d - 1); a = ex(d - 1); b = ex(d - 1)
                ct = common_t(a[1], b[1])
                if not isfp(ct):
                    a = ('(float)%s' % a[0], F32, a[2]); ct = common_t(a[1], b[1])
                # approx unknown which branch: subsequent int conversions must be safe for both: use the larger magnitude
                ap = a[2] if abs(a[2]) >= abs(b[2]) or b[2] != b[2] else b[2]
                if a[2] != a[2] or b[2] != b[2]:
                    ap = float('nan')
                return '(%s ? %s : %s)' % (c[0], a[0], b[0]), ct, ap
            a = ex(d - 1)
            return '(!%s)' % a[0], INT, 0.5
        txt, t, ap = ex(depth)
        lines = [printer(t, txt), 'printf("@ s %%d\\n", (int)sizeof(%s));' % txt]
        body = '\n'.join(g.decls) + '\n' + '\n'.join('  ' + l for l in lines) + '\n'
        nt = ('nested', tuple(sorted(g.feat)))
        return diffprog.Case(body=body, nt=nt, tags=['nested'] + sorted(f for f in g.feat if f.startswith('n')))

    # (d) floating constants ----------------------------------------------------------
    def g_lit(self, ch):
        t = ch.choice(FMTS)
        hexf = ch.bool(0.4)
        if hexf:
            nd = ch.int(1, min(t.p // 4, 14))
            mant = ch.bits(4 * nd) | 1
            fracd = ch.int(0, nd)
            e = ch.int(-30, 30) if t is not F32 else ch.int(-20, 20)
            hs = '%x' % mant
            hs = hs.rjust(fracd + 1, '0')
            if fracd:
                spell = '0x%s.%sp%d' % (hs[:-fracd], hs[-fracd:], e)
            else:
                spell = '0x%sp%d' % (hs, e)
            if ch.bool(0.3):
                spell = spell.replace('0x', '0X').replace('p', 'P')
            val = Fraction(mant, 16 ** fracd) * Fraction(2) ** e
            if fpfmt.round_frac(val, t) != val:
                return None
        else:
            nd = ch.int(1, 19)
            digs = str(ch.int(0, 10 ** nd - 1))
            fracd = ch.int(0, len(digs))
            e = ch.int(-30, 30) if ch.bool() else None
            ip, fp = (digs[:-fracd] if fracd else digs), (digs[-fracd:] if fracd else '')
            spell = (ip or ('0' if ch.bool() else '')) + ('.' + fp if (fracd or ch.bool()) else '')
            if spell in ('', '.'):
                spell = '0.'
            if '.' not in spell and e is None:
                e = 0
            if e is not None:
                spell += ('e' if ch.bool() else 'E') + ('%+d' % e if ch.bool() else '%d' % e)
            val = Fraction(int(digs), 10 ** fracd) * (Fraction(10) ** (e or 0))
            direct = fpfmt.round_frac(val, t)
            via = fpfmt.round_frac(fpfmt.round_frac(val, F80), t) if fpfmt.round_frac(val, F80) not in (INF, NINF) else direct
            if direct != via:
                self.excl['decimal-double-rounding'] += 1
                return None
            if direct in (INF, NINF):
                return None
        suf = {F32: ch.choice(['f', 'F']), F64: '', F80: ch.choice(['l', 'L'])}[t]
        spell += suf
        neg = ch.bool(0.2)
        e = ('-' if neg else '') + spell
        lines = [printer(t, e), 'printf("@ s %%d\\n", (int)sizeof(%s));' % spell,
                 '{ static %s sx = %s; %s }' % (cname(t), e, printer(t, 'sx'))]
        nt = ('lit', spell)
        return diffprog.Case(body='\n'.join('  ' + l for l in lines) + '\n', nt=nt, tags=['lit:%s:%s' % ('hex' if hexf else 'dec', t.name)])

    # (e) variadic promotion ----------------------------------------------------------
    def g_va(self, ch):
        g = FGen(ch)
        n = ch.int(1, 5)
        args = []
        rd = []
        for i in range(n):
            t = ch.choice([F32, F32, F64, F80, INT, LONG, igen.CHAR, igen.USHORT])
            o = g.leaf(t)
            args.append(o.txt)
            pt = F64 if t is F32 else (t if isfp(t) else (LONG if t is LONG else INT))
            rd.append('  { %s v = va_arg(ap, %s); %s }' % (cname(pt), cname(pt), printer(pt, 'v')))
        decls = 'static void @va(int n, ...) {\n  va_list ap; va_start(ap, n);\n%s\n  va_end(ap);\n}\n' % '\n'.join(rd)
        body = '\n'.join(g.decls) + '\n  @va(%d, %s);\n' % (n, ', '.join(args))
        return diffprog.Case(decls=decls, body=body, nt=('va', tuple(args and [a[1] for a in args])), tags=['variadic'])

    # (f) the floating-point environment survives every operation --------------------
    def g_state(self, ch, depth):
        """Any conversion or operator case, followed in the same function by inexact x87 and SSE operations whose results depend
        on the rounding mode and precision control: an operation that leaves the control word changed shows here."""
        c = self.g_conv(ch) if ch.bool() else self.g_op(ch)
        if c is None:
            return None
        probe = ('  { volatile long double @qa = 1.0L, @qb = 3.0L, @qc = 0.1L; volatile double @qd = 1.0, @qe = 3.0; volatile float @qf = 0.1f;\n'
                 '    PL("@", @qa / @qb); PL("@", @qc * @qc + @qa); PD("@", (double)(@qa / @qb)); PF("@", (float)(@qc * @qb));\n'
                 '    PD("@", @qd / @qe); PF("@", @qf * @qf); PL("@", (long double)@qd / @qe); }\n')
        nt = ('state',) + tuple(c.nt or ())
        return diffprog.Case(decls=c.decls, body=c.body + probe, nt=nt, tags=list(c.tags) + ['fp-state-probe'])

    # (g) conversions and arithmetic done at translation time --------------------------
    def g_const(self, ch):
        """Objects with static storage initialized from constants: integer constants up to 2^64-1 converted to each floating type,
        floating constants converted to each integer type (where 6.3.1.4 defines it), enumeration constants and enum-typed
        operands, and hexadecimal floating constants with more digits than the type holds (must be correctly rounded).
        The enumerations always have a negative enumerator: without one gcc and clang choose unsigned int as the compatible type,
        chibicc int, and C11 6.7.2.2p4 leaves that choice to the implementation."""
        k = ch.int(0, 3)
        d = ch.choice(FMTS)
        D = cname(d)
        if k == 0:
            v = ch.choice(ROUNDING_INTS + [2 ** 63, 2 ** 64 - 1, 2 ** 63 - 1, 2 ** 64 - 1025])
            lit = '%dUL' % v if v >= 0 else '(%dL)' % v
            body = '  { static %s @s = %s; %s s2 = %s; %s %s }' % (D, lit, D, lit, printer(d, '@s'), printer(d, 's2'))
            nt = ('const', 'int->fp', sname(d), v >= 2 ** 63)
            tags = ['const:int->%s' % sname(d)]
        elif k == 1:
            it = ch.choice([t for t in ITYPES])
            cands = [x for x in ['0.5', '2.9', '-2.9', '255.9', '65535.5', '2147483647.5', '4294967295.5', '9223372036854775808.0', '1.8e19', '1.2e19f', '18446744073709549568.0', '-0.9', '1e10', '3000000000.0']
                     if fp_to_int_defined(Fraction(float(x.rstrip('f'))), it)]
            lit = ch.choice(cands)
            body = '  { static %s @s = %s; %s s2 = %s; PI("@", (long)@s); PI("@", (long)s2); }' % (it.name, lit, it.name, lit)
            nt = ('const', 'fp->int', it.short, lit)
            tags = ['const:fp->%s' % it.short]
        elif k == 2:
            ev = ch.choice([-1, -5, 0, 7, -2147483647])
            op = ch.choice(['*', '+', '<', '-', '/'])
            rhs = ch.choice(['0.5', '2', '0.5f', '1.5L', '2L', '3u'])
            body = ('  { enum @E { @A = %d, @B = 3, @N = -9 }; volatile enum @E e = @A; %s r = e; %s PD("@", (double)(e %s %s)); PI("@", (long)(e %s 2)); PL("@", (long double)e); }'
                    % (ev, D, printer(d, 'r'), op, rhs, op))
            nt = ('enum', sname(d), op, rhs, ev < 0)
            tags = ['enum-operand']
        else:
            mant = ch.choice(['1.00000000000008000001', '1.fffffffffffff7ff', '1.0000010000000001', '1.000001', '1.ffffff0000001', '1.00000000000008', '1.8000000000000001', '1.0000000000000001'])
            e = ch.choice([0, 1, -1, 100, -126, -1022, -149, -1074, 127])
            suf = {F32: 'f', F64: '', F80: 'L'}[d]
            lit = '0x%sp%d%s' % (mant, e, suf)
            body = '  { static %s @s = %s; %s s2 = %s; %s %s }' % (D, lit, D, lit, printer(d, '@s'), printer(d, 's2'))
            nt = ('hexfloat', sname(d), mant, e)
            tags = ['hexfloat-long-mantissa']
        return diffprog.Case(decls='', body=body + '\n', nt=nt, tags=tags)

    def gen_case(self, ch, depth):
        k = ch.int(0, 99)
        if k < 8:
            return self.g_state(ch, depth)
        if k < 18:
            return self.g_const(ch)
        if k < 40:
            return self.g_conv(ch)
        if k < 66:
            return self.g_op(ch)
        if k < 84:
            return self.g_nested(ch, depth)
        if k < 95:
            return self.g_lit(ch)
        return self.g_va(ch)

    def example(self, ch, ctx):
        cases = []
        depth = 3 if ctx.quick else 4
        while ch.more(len(cases), 1, 36):
            c = self.gen_case(ch, depth)
            if c is not None:
                cases.append(c)
        if not cases:
            return
        fails = diffprog.judge(ctx, cases, prelude=FPRELUDE)
        for k, v in self.excl.items():
            ctx.stats.counters['excluded:' + k] = v
        if fails:
            raise diffprog.violation_from(cases, fails[0], prelude=FPRELUDE)

    def replay(self, tree, rep, wd):
        return diffprog.replay(tree, rep, wd)


CHECK = C02()
