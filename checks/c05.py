"""C05 Initializers produce exactly the object value of C11 6.7.9.

Type-directed generator (ported from notes/pilots/initgen2.py onto the Hypothesis Chooser): draws a type, then a
*valid* initializer for it with a small stack machine that mirrors 6.7.9p17-23 (brace elision, designators that
reset the cursor, resumption in the enclosing aggregate, overrides, short lists, strings, scalars in braces), and
carries a model of the resulting object value.  The same initializer text is used for a file-scope object, a
static local, an automatic object (in a frame that was dirtied first) and a compound literal.
Oracles: model == gcc == clang == chibicc for every storage kind."""
from vlib import core, diffprog


class R:
    """random.Random look-alike over the Chooser, so the pilot generator ports mechanically."""

    def __init__(self, ch):
        self.ch = ch

    def random(self):
        return self.ch.int(0, 999) / 1000.0

    def choice(self, seq):
        return self.ch.choice(list(seq))

    def randint(self, a, b):
        return self.ch.int(a, b)


EXCL = {'D54': 0}

class Sc:
    def __init__(s, ty, bf=0): s.ty, s.bf = ty, bf
class Ar:
    def __init__(s, el, n): s.el, s.n = el, n          # n None = unknown bound (top level only)
class St:
    def __init__(s, mems, union=False): s.mems, s.union = mems, union   # [(name|None, type)]

SCAL = ['char', 'unsigned char', 'short', 'int', 'unsigned', 'long', 'float', 'double', '_Bool', 'char *', 'long double', 'unsigned long', 'unsigned short']
BFT = {'int': 32, 'unsigned': 32, 'char': 7, 'long': 64, 'unsigned long': 64, 'short': 15, 'unsigned char': 8}

def gen_type(r, d, cnt):
    k = r.random()
    if d <= 0 or k < 0.35:
        return Sc(r.choice(SCAL))
    if k < 0.6:
        el = gen_type(r, d - 1, cnt) if r.random() < 0.7 else Sc(r.choice(['char', 'unsigned char', 'int']))
        return Ar(el, r.randint(1, 4))
    mems = []; union = r.random() < 0.2
    for i in range(r.randint(1, 4)):
        cnt[0] += 1
        if not union and r.random() < 0.2:
            bt = r.choice(list(BFT)); w = r.randint(1, BFT[bt])
            if r.random() < 0.15: mems.append((None, Sc(bt, r.choice([0, w]) if True else w)))   # unnamed bit-field
            else: mems.append((f'b{cnt[0]}', Sc(bt, w)))
        else:
            t = gen_type(r, d - 1, cnt)
            if isinstance(t, St) and r.random() < 0.25: mems.append((None, t))
            else: mems.append((f'm{cnt[0]}', t))
        # an unnamed bit-field directly after a member: where initialization resumes after that member is designated (also from an
        # enclosing list: .m.x = v, next) it must step over the unnamed bit-field (6.7.9p9)
        if not union and r.random() < 0.15:
            bt = r.choice(list(BFT)); mems.append((None, Sc(bt, r.choice([0, r.randint(1, BFT[bt])]))))
    if all(n is None and isinstance(t, Sc) for n, t in mems):      # only unnamed bit-fields: add a real member
        cnt[0] += 1; mems.append((f'm{cnt[0]}', Sc('int')))
    return St(mems, union)

def decl(t, name):
    if isinstance(t, Sc): return f'{t.ty} {name}' + (f' : {t.bf}' if (t.bf or (name == '' and t.bf == 0 and False)) else '') if not (name == '' ) else f'{t.ty} : {t.bf}'
    if isinstance(t, Ar): return decl(t.el, f'{name}[{"" if t.n is None else t.n}]')
    return f'{"union" if t.union else "struct"} {{ ' + ' '.join(decl(mt, mn or '') + ';' for mn, mt in t.mems) + f' }} {name}'

def is_unnamed_bf(mn, mt): return mn is None and isinstance(mt, Sc)
def subs(t):
    """positional subobjects: list of (key, designator text or None, type). Unnamed bit-fields do not take part."""
    if isinstance(t, Ar):
        n = t.n if t.n is not None else 6
        return [(i, f'[{i}]', t.el) for i in range(n)]
    out = []
    for i, (mn, mt) in enumerate(t.mems):
        if is_unnamed_bf(mn, mt): continue
        out.append((i, (f'.{mn}' if mn else None), mt))
    return out
def nsubs(t):
    s = subs(t)
    return 1 if isinstance(t, St) and t.union else len(s)

# ---- model of an object value -------------------------------------------------------------
def zero(t):
    if isinstance(t, Sc): return -1000 if t.ty == 'char *' else 0
    if isinstance(t, Ar): return [zero(t.el) for _ in range(t.n if t.n is not None else 0)]
    if t.union:
        s = subs(t); return {'u': 0, 'v': zero(s[0][2])}
    return {k: zero(mt) for k, d, mt in subs(t)}
def cval(ty, v, bf):
    if ty in ('float', 'double', 'long double'): return float(v)
    if ty == '_Bool': return 1 if v else 0
    return v

class IG:
    def __init__(s, r): s.r = r; s.k = 0; s.feat = set()
    def scal(s, t):
        s.k += 1; v = s.k
        if t.ty == 'char *':
            # address constants: offsets into a file-scope object reached through array / member paths
            forms = [('@tgt.a', 8), ('@tgt.a + %d' % (v % 8), 8 + v % 8), ('&@tgt.a[%d]' % (v % 8), 8 + v % 8), ('@tgt.in[1].name', 40),
                     ('&@tgt.in[%d].name[%d]' % (v % 2, v % 5), 24 + 16 * (v % 2) + v % 5), ('(char *)&@tgt.in[1].z', 36), ('(char *)&@tgt', 0),
                     ('@tgt.in[0].name + %d' % (v % 7), 24 + v % 7), ('(char *)@tgt.w[1]', 60), ('(char *)(@tgt.w + 1) - 2', 58), ('&@tgt.a[7] - 3', 12),
                     ('(char *)&@tgt.w[1][1]', 64), ('0', -1000)]
            txt, off = forms[v % len(forms)] if s.r.random() < 0.9 else s.r.choice(forms)
            s.feat.add('addr-const')
            return txt, off
        if t.ty in ('float', 'double', 'long double'): return f'{v}.5', v + 0.5
        if t.ty == '_Bool': return str(v % 2), v % 2
        if t.bf:
            uns = t.ty in ('unsigned', 'unsigned char', 'unsigned long')
            lim = (1 << (t.bf - 1)) if not uns else (1 << t.bf)
            k = s.r.random()
            if k < 0.3: v = lim - 1 - (v % 4) % lim               # top of the field's range: the high bits of wide fields are set
            elif k < 0.45 and not uns and lim > 1: v = -(v % lim)
            else: v = v % lim
            if t.bf > 31: s.feat.add('wide_bitfield')
            txt = ('(%d)' % v) if v < 0 else (str(v) + ('UL' if v > 0x7fffffff else ''))
            return txt, v
        if t.ty in ('char', 'unsigned char'):
            v = 97 + v % 26
            return (f"'{chr(v)}'" if s.r.random() < 0.5 else str(v)), v
        return str(v), v
    STRPFX = {'char': '', 'unsigned char': '', 'unsigned short': 'u', 'unsigned': 'U', 'int': 'L'}      # char16_t / char32_t / wchar_t of this ABI
    def is_chararr(s, t): return isinstance(t, Ar) and isinstance(t.el, Sc) and t.el.ty in s.STRPFX and not t.el.bf
    def want_string(s, t, p):
        if not s.is_chararr(t): return False
        wide = t.el.ty not in ('char', 'unsigned char')
        ok = s.r.random() < (p / 3 if wide else p)
        if ok and wide: s.feat.add('wide_string')
        return ok
    def strlit(s, t, unknown=False):
        n = t.n if t.n is not None else s.r.randint(1, 5)
        ln = s.r.randint(0, n if not unknown else n - 1)
        s.k += 1; txt = ''.join(chr(97 + (s.k + i) % 26) for i in range(ln))
        vals = [ord(c) for c in txt] + [0] * (n - ln)
        if unknown: vals = [ord(c) for c in txt] + [0]
        return s.STRPFX[t.el.ty] + '"' + txt + '"', vals[:n] if not unknown else vals
    # whole-object initializer: returns (text, model)
    def init(s, t, top=False):
        r = s.r
        if isinstance(t, Sc):
            txt, v = s.scal(t)
            if r.random() < 0.06: s.feat.add('scalar_braces'); return '{ ' + txt + ' }', v
            return txt, v
        if s.want_string(t, 0.45):
            s.feat.add('string'); txt, vals = s.strlit(t, unknown=(t.n is None))
            return (('{ ' + txt + ' }') if r.random() < 0.2 else txt), vals
        txt, m = s.lst(t)
        return '{ ' + txt + ' }', m
    def lst(s, T):
        r = s.r; items = []; nitems = 0
        if not hasattr(s, 'touched'): s.touched = set(); s.keepalive = []
        touched = s.touched
        keep = s.keepalive          # objects whose id() is in `touched` stay referenced: a freed object's id can be reused by a new one,
                                    # which made generation depend on the allocator (Hypothesis: FlakyStrategyDefinition, 2 in 10,000 examples)
        def has_touched(m):
            if id(m) in touched: return True
            if isinstance(m, list): return any(has_touched(x) for x in m)
            if isinstance(m, dict): return any(has_touched(x) for x in m.values())
            return False
        model = zero(T) if not (isinstance(T, Ar) and T.n is None) else []
        # frames: [agg type, next index into subs(agg), model ref]
        stack = [[T, 0, model]]
        def ensure_len(fr, i):
            A, m = fr[0], fr[2]
            if isinstance(A, Ar) and A.n is None:
                while len(m) <= i: m.append(zero(A.el))
        def setsub(fr, pos, val):
            A, m = fr[0], fr[2]; key, d, ty = subs(A)[pos]
            touched.add(id(m)); keep.append(m)
            if isinstance(val, (list, dict)): touched.add(id(val)); keep.append(val)
            if isinstance(A, Ar): ensure_len(fr, key); m[key] = val
            elif A.union: m['u'] = pos; m['v'] = val
            else: m[key] = val
        def getsub(fr, pos):
            A, m = fr[0], fr[2]; key, d, ty = subs(A)[pos]
            if isinstance(A, Ar): ensure_len(fr, key); return m[key]
            if A.union:
                if m['u'] != pos: m['u'] = pos; m['v'] = zero(ty)
                return m['v']
            return m[key]
        def limit(A): return nsubs(A)
        def old_touched(fr, pos):
            A, m = fr[0], fr[2]; key, d, ty = subs(A)[pos]
            if isinstance(ty, Sc): return False
            if isinstance(A, Ar):
                return key < len(m) and has_touched(m[key])
            if A.union:
                return has_touched(m)
            return has_touched(m[key])
        while True:
            if nitems > 0 and r.random() < 0.12: s.feat.add('short'); break
            if nitems > 14: break
            # ---- designator item (always relative to T)
            if r.random() < 0.22:
                fr = [T, 0, model]; text = ''; newstack = []; ok = True; depth = 0
                while True:
                    A = fr[0]; sl = subs(A)
                    cand = [p for p, (k, d, ty) in enumerate(sl) if d is not None]
                    if isinstance(A, Ar) and A.n is None: cand = list(range(5))
                    if not cand: ok = False; break
                    pos = r.choice(cand); key, d, ty = sl[pos]
                    text += d; depth += 1
                    nxt = pos + 1 if not (isinstance(A, St) and A.union) else 10**6   # union complete after its member
                    newstack.append([A, nxt, fr[2]])
                    if isinstance(ty, Sc) or r.random() < 0.5:
                        target_fr, target_pos, target_ty = newstack[-1], pos, ty; break
                    sub_m = getsub(fr, pos)
                    fr = [ty, 0, sub_m]
                rng_hi = None
                if ok and isinstance(target_fr[0], Ar) and r.random() < 0.3:
                    # range designator [lo ... hi] as the last step: every element gets the value, the cursor continues after hi
                    A_ = target_fr[0]; nmax = (A_.n if A_.n is not None else 5) - 1
                    if target_pos < nmax:
                        rng_hi = r.randint(target_pos + 1, min(nmax, target_pos + 2))
                        text = text[:text.rindex('[')] + '[%d ... %d]' % (target_pos, rng_hi)
                        s.feat.add('range_desig'); s.feat.add('nested_range_desig') if depth > 1 else None
                if ok:
                    s.feat.add('desig');
                    if depth > 1: s.feat.add('nested_desig')
                    # the designated object gets its own initializer (scalar, braced, string) or, with a scalar
                    # initializer for an aggregate target, brace elision descends into it
                    if isinstance(target_ty, Sc) or r.random() < 0.7 or rng_hi is not None:
                        if any(old_touched(target_fr, q) for q in range(target_pos, (rng_hi if rng_hi is not None else target_pos) + 1)):
                            EXCL['D54'] += 1; continue
                        txt, val = s.init(target_ty)
                        setsub(target_fr, target_pos, val)
                        if rng_hi is not None:
                            import copy
                            def mark(x):
                                # the copies are initialised objects too: a later braced item for them would be a D54 override
                                if isinstance(x, (list, dict)):
                                    touched.add(id(x)); keep.append(x)
                                    for y in (x if isinstance(x, list) else x.values()):
                                        mark(y)
                            for q in range(target_pos + 1, rng_hi + 1):
                                cp = copy.deepcopy(val); mark(cp)
                                setsub(target_fr, q, cp)
                            newstack[-1][1] = rng_hi + 1
                        items.append(text + ' = ' + txt); nitems += 1; stack = newstack
                    else:
                        # elided: descend to first leaf
                        s.feat.add('desig_elide')
                        cur_fr = target_fr; cur_pos = target_pos; cur_ty = target_ty
                        stack = newstack
                        while not isinstance(cur_ty, Sc):
                            sub_m = getsub(cur_fr, cur_pos)
                            nf = [cur_ty, 1 if not (isinstance(cur_ty, St) and cur_ty.union) else 10**6, sub_m]
                            stack.append(nf); cur_fr = nf; cur_pos = 0; cur_ty = subs(cur_ty)[0][2]
                        txt, val = s.scal(cur_ty); setsub(cur_fr, 0, val)
                        items.append(text + ' = ' + txt); nitems += 1
                    if len(stack) > 1: s.feat.add('resume_after_desig')
                    continue
            # ---- positional item
            while stack and stack[-1][1] >= (limit(stack[-1][0]) if not (isinstance(stack[-1][0], Ar) and stack[-1][0].n is None) else r.randint(1, 5) if False else 6):
                stack.pop()
            if not stack: break
            fr = stack[-1]; A, i, m = fr[0], fr[1], fr[2]
            if isinstance(A, Ar) and A.n is None and i >= 5: break
            key, d, ty = subs(A)[i]; fr[1] = i + 1
            if isinstance(A, St) and A.union: fr[1] = 10**6
            if len(stack) > 1: s.feat.add('elision_cont')
            fresh = len(fr) > 3 and fr[3]      # frame entered by elision and nothing consumed yet
            if len(fr) > 3: fr[3] = False
            if isinstance(ty, Sc):
                txt, val = s.scal(ty); setsub(fr, i, val); items.append(txt); nitems += 1
            elif old_touched(fr, i) and not (isinstance(A, St) and A.union):
                # only brace elision may continue into an aggregate that a designator already touched (D54 otherwise)
                EXCL['D54'] += 1; s.feat.add('elision'); sub_m = getsub(fr, i)
                stack.append([ty, 0, sub_m, True])
            elif s.want_string(ty, 0.4):
                s.feat.add('string'); txt, vals = s.strlit(ty); setsub(fr, i, vals); items.append(txt); nitems += 1
            elif r.random() < 0.5 and not fresh:
                txt, val = s.init(ty)
                while not txt.startswith('{') and not txt.lstrip('uUL').startswith('"'): txt, val = s.init(ty)
                setsub(fr, i, val); items.append(txt); nitems += 1
            else:
                s.feat.add('elision'); sub_m = getsub(fr, i)
                stack.append([ty, 0, sub_m, True])
        if not items:
            return '0', model if not (isinstance(T, Ar) and T.n is None) else [zero(T.el)]
        return ', '.join(items) + (',' if r.random() < 0.15 else ''), model

def leaves_model(t, m, path):
    """yield (path expr, value) following the model (active union members only)"""
    if isinstance(t, Sc): yield path, m
    elif isinstance(t, Ar):
        for i, x in enumerate(m): yield from leaves_model(t.el, x, f'{path}[{i}]')
    elif t.union:
        key, d, ty = subs(t)[m['u']]
        yield from leaves_model(ty, m['v'], f'{path}{d}' if d else path)
    else:
        for key, d, ty in subs(t): yield from leaves_model(ty, m[key], f'{path}{d}' if d else path)

def fmt(v):
    return ('%g' % v)



TGT = ('static struct { long pad; char a[8]; int i; struct { int z; char name[12]; } in[2]; int w[2][2]; } @tgt;\n'
       'static void @dirty(void) { volatile char b[3000]; memset((void *)b, 0xAA, sizeof b); }\n')


def pr(obj, p, t_is_ptr):
    return ' printf(" %%g", (double)(%s%s));' % (obj, p)


def leaf_types(t, m, path):
    """like leaves_model but also yields the scalar type"""
    if isinstance(t, Sc): yield path, m, t
    elif isinstance(t, Ar):
        for i, x in enumerate(m): yield from leaf_types(t.el, x, f'{path}[{i}]')
    elif t.union:
        key, d, ty = subs(t)[m['u']]
        yield from leaf_types(ty, m['v'], f'{path}{d}' if d else path)
    else:
        for key, d, ty in subs(t): yield from leaf_types(ty, m[key], f'{path}{d}' if d else path)


class C05:
    id = 'C05'
    level = 'exploration'
    rule = ('cases = (type, initializer) pairs: the type is drawn from scalars (incl. pointers initialised by address constants with offsets), arrays (also of unknown bound), '
            'structs/unions with bit-fields, unnamed bit-fields and anonymous members (depth<=3); the initializer is drawn by a stack machine over 6.7.9 (positional items, brace elision, '
            'nested/out-of-order designators and [lo ... hi] range designators with cursor resumption, bit-fields up to 64 bits wide holding values with their top bits set, overrides of scalars, short lists, trailing commas, strings (also u"", U"", L"" for arrays of the matching element type) with and without braces, scalars in braces) and comes with a model of the object value. '
            'The same text initialises a file-scope object, a static local, an automatic object in a dirtied frame and a compound literal; all dumps must equal the model, gcc and clang. '
            'non-trivial = uses a designator, brace elision, a string into a nested array, a union, or resumes after a nested designator; distinct by (type text, initializer text).')
    assumptions = ['gcc and clang implement 6.7.9; a case counts only if both agree with each other and with the model',
                   'D54 (a braced or string initializer that re-initialises an already initialised aggregate merges instead of replacing; pinned by test/initializer.c) is recorded; such overrides are not generated (counted)',
                   'only the active member of a union is dumped']

    def budget(self, tier):
        return 800 if tier == 'quick' else 10000

    def gen_case(self, ch):
        r = R(ch)
        cnt = [0]
        t = gen_type(r, 3, cnt)
        if isinstance(t, Sc):
            t = Ar(t, 3)
        unknown = isinstance(t, Ar) and r.random() < 0.3
        if unknown:
            t = Ar(t.el, None)
        g = IG(r)
        ini, model = g.init(t, top=True)
        if not ini.startswith('{') and not ini.lstrip('uUL').startswith('"'):
            ini = '{ ' + ini + ' }'
        tn = '@T'
        use_c = ini.startswith('{') and not unknown
        lv = list(leaf_types(t, model, ''))

        def val_expr(obj, p, st):
            if st.ty == 'char *':
                return '(%s%s ? (double)(%s%s - (char *)&@tgt) : -1000.0)' % (obj, p, obj, p)
            return '(double)%s%s' % (obj, p)
        exp = []
        decls = TGT + 'typedef ' + decl(t, tn) + ';\n' + '%s @g = %s;\n' % (tn, ini)
        fn = ['static void @fn(void) {', '  static %s s = %s;' % (tn, ini), '  %s l = %s;' % (tn, ini)]
        if use_c:
            fn.append('  %s *c = &(%s)%s;' % (tn, tn, ini))
        want = ' '.join(fmt(v) for p_, v, st in lv)
        cnt = len(model) if unknown else None
        for nm in (('g', 's', 'l', 'c') if use_c else ('g', 's', 'l')):
            obj = {'g': '@g', 's': 's', 'l': 'l', 'c': '(*c)'}[nm]
            head = ('  printf("@ %s cnt=%%d:", (int)(sizeof(%s) / sizeof(%s[0])));' % (nm, obj, obj)) if unknown else ('  printf("@ %s:");' % nm)
            fn.append(head + ''.join(' printf(" %%g", %s);' % val_expr(obj, p_, st) for p_, v, st in lv) + ' printf("\\n");')
            exp.append(('%s cnt=%d: %s' % (nm, cnt, want)) if unknown else ('%s: %s' % (nm, want)))
        fn.append('  printf("@ n=%%d\\n", (int)sizeof(%s));' % tn if not unknown else '  ;')
        fn.append('}')
        decls += '\n'.join(fn) + '\n'
        body = '  @dirty();\n  @fn();\n'
        feat = set(g.feat)
        nt = (decl(t, 'T'), ini) if feat & {'desig', 'elision', 'nested_desig', 'resume_after_desig', 'string', 'desig_elide', 'addr-const'} or self.has_union(t) else None
        # model expectation: every storage kind prints the same leaves; sizeof comes from the references
        c = diffprog.Case(decls=decls, body=body, expect=None, nt=nt, tags=sorted(feat) + (['unknown-bound'] if unknown else []) + (['union'] if self.has_union(t) else []))
        c.desc = exp
        return c

    def has_union(self, t):
        if isinstance(t, St):
            return t.union or any(self.has_union(mt) for mn, mt in t.mems)
        if isinstance(t, Ar):
            return self.has_union(t.el)
        return False

    def example(self, ch, ctx):
        cases = []
        while ch.more(len(cases), 1, 20):
            cases.append(self.gen_case(ch))
        fails = judge_with_model(ctx, cases)
        ctx.stats.counters['excluded_by_known_finding:D54'] = EXCL['D54']
        if fails:
            raise diffprog.violation_from(cases, fails[0])

    def replay(self, tree, rep, wd):
        return diffprog.replay(tree, rep, wd)


def judge_with_model(ctx, cases):
    """diffprog.judge, then the model: the leaf lines the references print must equal the model's
    (a disagreement discards the case as model_disagree; it is never a violation)."""
    st = ctx.stats
    wd = ctx.fresh_dir()
    og, _ = diffprog.observe(ctx.tree, 'gcc', cases, wd)
    ocl, _ = diffprog.observe(ctx.tree, 'clang', cases, wd)
    oc, _ = diffprog.observe(ctx.tree, 'chibicc', cases, wd)
    import shutil
    shutil.rmtree(wd, ignore_errors=True)
    fails = []
    for i, c in enumerate(cases):
        g, l, x = og[i], ocl[i], oc[i]
        if isinstance(g, str) or isinstance(l, str):
            st.count('ref_reject')
            if st.counters['ref_reject'] <= 3:
                st.samples.append({'ref_reject': str(g if isinstance(g, str) else l)[:300], 'case': c.decls[-700:]})
            continue
        if g != l:
            st.count('ref_disagree')
            continue
        if [ln for ln in g if not ln.startswith('n=')] != c.desc:
            st.count('model_disagree')
            if st.counters['model_disagree'] <= 3:
                st.samples.append({'model_disagree': {'model': c.desc[:1], 'gcc': g[:1]}, 'case': c.decls[-600:]})
            continue
        for t in c.tags:
            st.tag(t)
        st.case(c.nt, sample=({'case': c.decls[c.decls.index('typedef'):][:500], 'observed': g[:2]} if len(st.samples) < 3 else None))
        if x != g:
            fails.append((i, g, x))
    return fails


CHECK = C05()
