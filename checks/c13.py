"""C13 Every input is answered with output or a located diagnostic.

Seeds: the repository's tests (raw and preprocessed), the compiler's own sources (preprocessed), a corpus with one
minimal trigger per diagnostic site, and small valid programs.  Mutators (drawn by Hypothesis so the edit list
shrinks): token-level delete / replace / insert / duplicate / swap / bracket edits, line-level edits, and byte-level
edits for the tokenizer (quotes, backslashes, NUL, invalid UTF-8, truncation).
Oracle: `chibicc -cc1` run directly under CPU and memory limits must either exit 0 with assembly that `as` accepts,
or exit 1 with a diagnostic `<input file>:<line>:` whose line exists in that file, without 'internal error'.
Death by signal, an assertion, any other exit status, an empty diagnostic, or a (three times confirmed) hang is a
violation."""
import os, re, shutil, importlib.util, glob
from vlib import core, pptok

V = core.VERIF
_spec = importlib.util.spec_from_file_location('c13_triggers', os.path.join(V, 'corpus', 'c13_triggers.py'))
_m = importlib.util.module_from_spec(_spec)
_spec.loader.exec_module(_m)
TRIGGERS = _m.T

TOK = re.compile(r'''[A-Za-z_]\w*|\.?\d(?:[eEpP][+-]|[\w.])*|(?:u8|u|U|L)?"(?:\\.|[^"\\\n])*"|(?:u|U|L)?'(?:\\.|[^'\\\n])*'|<<=|>>=|\.\.\.|->|\+\+|--|<<|>>|<=|>=|==|!=|&&|\|\||[-+*/%&|^]=|##|\S''')

EXTRA_POOL = ['(', ')', '{', '}', '[', ']', ';', ',', '=', '*', '&', '...', '.', '->', ':', '?', '#', '##', 'int', 'long', 'char', 'struct', 'union', 'enum', 'typedef',
              'static', 'extern', '_Alignas', '_Alignof', 'sizeof', 'return', 'goto', 'switch', 'case', 'default', 'break', 'continue', 'if', 'else', 'for', 'while', 'do',
              '0', '1', '-1', '1.5', '%', '/', '(-9223372036854775807L-1)', '2147483648', '4294967295', '0x7fffffffffffffff', '18446744073709551615', '99999999999999999999', '"s"', "'c'", 'L"w"', '__VA_ARGS__', 'defined', '_Generic', '_Atomic',
              '__builtin_types_compatible_p', '__builtin_compare_and_swap', '__builtin_atomic_exchange', '__builtin_reg_class', '__attribute__', 'packed', 'aligned', 'asm',
              '__typeof__', 'void', 'float', 'double', '_Bool', 'signed', 'unsigned', 'short', 'const', 'volatile', 'inline', '_Noreturn', '_Thread_local', 'x', 'main', 'T']

VALID_SMALL = [
    'int main(void) { return 0; }\n',
    'struct S { int a; char b[3]; long c : 7; } s = { 1, "ab", 3 };\nint f(struct S *p) { return p->a + p->b[1] + p->c; }\n',
    'typedef int T; T g(T x) { for (T i = 0; i < 3; i++) x += i; switch (x) { case 1 ... 3: return 1; default: break; } return x; }\n',
    'union U { int i; float f; }; float h(union U u, int n, ...) { int a[n]; a[0] = sizeof a; return u.f + a[0]; }\n',
    '#define F(x, ...) x ## __VA_ARGS__\nint F(a, b) = 3;\nint k(void) { return _Generic(1, int: 2, default: 3) + _Alignof(long); }\n',
    'static inline int sq(int x) { return x * x; }\nint (*fp)(int) = sq; _Thread_local int tl; int arr[] = { [2] = 5, 6 };\nlong double ld = 1.5L; float fl = 2.0f;\n',
    'void q(void) { int x = ({ int y = 2; y; }); goto *&&L; L: ; __builtin_compare_and_swap(&x, &x, 3); }\nenum E { A, B = 5 }; _Atomic int at;\n',
    'char *s = u8"a" "b"; int w = L\'x\'; void r(int n) { char v[n][n + 1]; (void)sizeof v; asm("nop"); }\n',
    'union U { int a; char b[4]; } x, y; struct P { long l; } p, q;\nint sel(int c) { return (c ? x : y).a + (x = y).b[0] + (c ? p : q).l + (p = q).l; }\n',
    # arithmetic corners of the constant evaluator and of case labels (values that do not fit a 32-bit immediate)
    'long m1 = (-9223372036854775807L - 1) % -1, m2 = (-9223372036854775807L - 1) / -1; int m3 = (-2147483647 - 1) % -1;\nenum { EM = (-9223372036854775807L - 1) % -1 };\n'
    '#if (-9223372036854775807L - 1) % -1 == 0 && (-9223372036854775807L - 1) / -1 != 1\nint m4 = 1 << 31 >> 31, m5 = -1 >> 70, m6 = 1L << 63;\n#endif\n',
    'int sw(long x, unsigned long u, int i) { switch (x) { case 2147483648: return 1; case 4294967295: return 2; case -2147483649: return 3; case 0x7fffffffffffffff: return 4; case -9223372036854775807L - 1: return 10; }\n'
    '  switch (u) { case 0xffffffff: return 5; case 0x80000000: return 6; case 18446744073709551615UL: return 7; case 2147483649 ... 2147483651: return 11; }\n  switch (i) { case -2147483647 - 1: return 8; case 2147483647: return 9; } return 0; }\n',
    # groups that are skipped are not evaluated: #elif after a taken group, directives nested in a skipped group (6.10.1p6)
    '#if 1\nint pa;\n#elif 1 / 0\n#elif NOFN(3) + (\n#elif X X\n#else\n#error never\n#endif\n#if 0\n#if 1 / 0\n#elif (\n#endif\n#include <no/such/header.h>\n#else\nint pb;\n#endif\n'
    '#ifndef PA_UNDEF\n#define PA_UNDEF\nint pc;\n#elif defined(\n#elif 1 % 0\n#endif\n#ifdef PA_UNDEF\nint pd;\n#elif PA_UNDEF(\n#endif\nint pe = 0 ? 1 / 0 : 2;\n',
    'int va(int n, ...) { __builtin_va_list ap; return n; }\n'[:0] + 'long f2(long a, long double b, float c) { long double r = a + b * c; return r > 0 ? (long)r : -(long)r; }\n',
]


def lex_line(l):
    """tokens of one line; in `#define NAME(` the name and the parenthesis stay one unit, because a space there would turn
    the function-like macro into an object-like one when the mutant is rendered"""
    toks = TOK.findall(l)
    m = re.match(r'^\s*#\s*define\s+([A-Za-z_]\w*)\(', l)
    if m and len(toks) >= 4 and toks[0] == '#' and toks[1] == 'define' and toks[3] == '(':
        toks[2:4] = [toks[2] + '(']
    return toks


class Seeds:
    def __init__(self, tree):
        self.items = []       # (name, token lines [[tok..]..])
        tdir = os.path.join(tree.dir, 'test')
        for f in sorted(glob.glob(os.path.join(tdir, '*.c'))):
            base = os.path.basename(f)
            try:
                raw = open(f, encoding='utf-8', errors='replace').read()
            except OSError:
                continue
            if 'asm' in raw and base == 'asm.c':
                continue       # user-supplied assembly is outside the statement
            r = core.run([tree.cc, '-E', '-I' + os.path.join(tree.dir, 'include'), '-I' + tdir, f], timeout=20)
            if r.rc == 0 and len(r.out) < 400000:
                self.add('E:' + base, r.out)
            if base in ('macro.c', 'line.c', 'pragma-once.c', 'include1.h'):
                self.add('raw:' + base, raw)
        for f in sorted(glob.glob(os.path.join(tree.dir, '*.c'))):
            r = core.run([tree.cc, '-E', f], timeout=30)
            if r.rc == 0:
                # one function-sized window is drawn later; keep whole text
                self.add('E:' + os.path.basename(f), r.out)
        for i, (msg, src) in enumerate(TRIGGERS):
            if isinstance(src, bytes):
                src = src.decode('latin1')
            self.add('trigger:%d' % i, src)
        for i, s in enumerate(VALID_SMALL):
            self.add('valid:%d' % i, s)
        self.pool = EXTRA_POOL + sorted({t for _, ls in self.items for l in ls[:400] for t in l})[:3000]

    def add(self, name, text):
        lines = [lex_line(l) for l in text.split('\n')]
        self.items.append((name, lines))


_seeds = {}


def get_seeds(tree):
    if tree.dir not in _seeds:
        _seeds[tree.dir] = Seeds(tree)
    return _seeds[tree.dir]


def window(ch, lines):
    """a contiguous chunk of at most ~60 lines, preferring to start at a line that starts at column 0 with a type-ish token"""
    n = len(lines)
    if n <= 60:
        return [list(l) for l in lines]
    start = ch.int(0, n - 1)
    # move back to the previous blank line / closing brace
    k = start
    while k > 0 and lines[k] and lines[k] != ['}']:
        k -= 1
    ln = ch.int(5, 60)
    return [list(l) for l in lines[k:k + ln]]


def mutate(ch, lines, pool):
    lines = [l for l in lines]
    flat = [(i, j) for i, l in enumerate(lines) for j in range(len(l))]
    desc = []
    for _ in range(ch.int(1, 3)):
        if not flat:
            break
        op = ch.int(0, 10)
        i, j = flat[ch.int(0, len(flat) - 1)]
        if j >= len(lines[i]):
            continue
        if op == 0:
            desc.append(('del', lines[i][j])); del lines[i][j]
        elif op <= 2:
            t = pool[ch.int(0, 23)] if ch.bool() else pool[ch.int(0, len(pool) - 1)]
            desc.append(('rep', lines[i][j], t)); lines[i][j] = t
        elif op <= 4:
            t = pool[ch.int(0, 23)] if ch.bool() else pool[ch.int(0, len(pool) - 1)]
            desc.append(('ins', t)); lines[i].insert(j, t)
        elif op == 5:
            desc.append(('dup', lines[i][j])); lines[i].insert(j, lines[i][j])
        elif op == 6:
            i2, j2 = flat[ch.int(0, len(flat) - 1)]
            if j2 < len(lines[i2]):
                lines[i][j], lines[i2][j2] = lines[i2][j2], lines[i][j]
                desc.append(('swap',))
        elif op == 7:
            desc.append(('delline',)); lines[i] = []
        elif op == 8:
            desc.append(('dupline',)); lines.insert(i, list(lines[i]))
        elif op == 10:
            # break the line before this token, optionally putting a directive-like line into the gap (inside argument lists,
            # initializers, declarations: constructs that span lines)
            head, tail = lines[i][:j], lines[i][j:]
            mid = []
            if ch.int(0, 9) < 6:
                mid = [['#'] + ch.choice(['2', 'if', 'if 0', 'define X', 'undef X', 'line 7', 'pragma once', 'endif', 'else', 'include "nope.h"', 'error e', '', 'ifdef', 'elif 1', '3 "f.c"']).split()]
            desc.append(('split-line', ' '.join(mid[0]) if mid else ''))
            lines[i:i + 1] = [head] + mid + [tail]
            flat = [(a, b) for a, l in enumerate(lines) for b in range(len(l))]
        else:
            # truncate the file: at a random token, or just after an opening bracket (unterminated nested constructs at end of input)
            opens = [(a_, b_) for (a_, b_) in flat if b_ < len(lines[a_]) and lines[a_][b_] in ('(', '{', '[') and not (lines[a_] and lines[a_][0] == '#')]
            if opens and ch.bool():
                i, j = opens[ch.int(0, len(opens) - 1)]
                j = j + 1 + ch.int(0, 2)
                desc.append(('trunc-after-open',))
            else:
                desc.append(('trunc',))
            lines = lines[:i] + [lines[i][:j]]
            flat = [(a, b) for a, l in enumerate(lines) for b in range(len(l))]
    return lines, desc


def render(lines):
    return '\n'.join(' '.join(l) for l in lines) + '\n'


BYTE_EDITS = [b'"', b"'", b'\\', b'\x00', b'\xff', b'\xc3', b'\xe2\x82', b'\xf0\x9f', b'\r', b'/*', b'*/', b'//', b'\\\n', b'#', b'\n#', b'\n# 2\n', b'\n#define X 1\n', b'\n#if 0\n', b'\x1a', b'\xef\xbb\xbf', b'@', b'`', b'$']


def byte_mutate(ch, data):
    data = bytearray(data)
    for _ in range(ch.int(1, 2)):
        if not data:
            break
        pos = ch.int(0, len(data))
        op = ch.int(0, 3)
        if op == 0:
            data[pos:pos] = ch.choice(BYTE_EDITS)
        elif op == 1 and pos < len(data):
            del data[pos:pos + ch.int(1, 3)]
        elif op == 2 and pos < len(data):
            data[pos] = ch.int(0, 255)
        else:
            data = data[:pos]
    return bytes(data)


def judge(tree, path, nlines, d):
    """returns (verdict, detail): verdict in ok-accept / ok-reject / BAD:<kind>"""
    out = os.path.join(d, 'o.s')
    r = core.run([tree.cc, '-cc1', '-cc1-input', path, '-cc1-output', out, path], timeout=10, as_mb=2048, text=True)
    if r.timeout:
        return 'BAD:hang', 'no answer within 10 s'
    if r.rc == 0:
        a = core.run(['as', '-o', os.path.join(d, 'o.o'), out], timeout=20)
        if a.rc != 0:
            return 'BAD:unassemblable', 'exit 0 but as rejects the output: %s' % a.err.strip().split('\n')[-1][-160:]
        return 'ok-accept', ''
    if r.rc < 0:
        return 'BAD:signal%d' % -r.rc, 'cc1 died from signal %d; stderr: %s' % (-r.rc, r.err.strip().split('\n')[-1][-160:])
    if r.rc != 1:
        return 'BAD:exit%d' % r.rc, 'exit status %d; stderr: %s' % (r.rc, r.err.strip().split('\n')[-1][-160:])
    err = r.err
    if re.search(r'^internal error at ', err, re.M):      # (the echoed source line may itself contain these words)
        return 'BAD:internal-error', err.strip().split('\n')[-1][-160:]
    if re.search(r'^\S+: \S+:\d+: .*Assertion .* failed', err, re.M):
        return 'BAD:assertion', err.strip().split('\n')[-1][-160:]
    m = re.search(r'^([^\n:]*):(\d+): ', err, re.M)
    if not m:
        if not err.strip():
            return 'BAD:silent', 'exit 1 with empty stderr'
        return 'BAD:unlocated', 'diagnostic without file:line: %r' % err.strip()[:160]
    fname, line = m.group(1), int(m.group(2))
    if re.search(rb'^[ \t]*#[ \t]*(line[ \t]|[0-9])', open(path, 'rb').read(), re.M):
        return 'ok-reject', err.strip().split('\n')[-1].strip()      # presumed file names / line numbers are legitimate after #line
    base = os.path.basename(fname)
    if base == os.path.basename(path):
        if not (1 <= line <= nlines + 1):
            return 'BAD:line-out-of-range', 'diagnostic names line %d of a %d-line input' % (line, nlines)
    elif not (os.path.exists(fname) or os.path.exists(os.path.join(os.path.dirname(path), fname))):
        return 'BAD:unknown-file', 'diagnostic names %r, which is not an input' % fname
    return 'ok-reject', err.strip().split('\n')[-1].strip()


class C13:
    id = 'C13'
    level = 'exploration'
    rule = ('cases = token-level mutants (1-3 edits: delete, replace, insert, duplicate, swap, delete/duplicate line, line break with an optional directive-like line in the gap, truncate; replacement tokens from a pool of keywords, punctuators, '
            'boundary literals, builtins and tokens of the seeds) and byte-level mutants (quotes, backslashes, NUL, invalid UTF-8, CR, comment openers, BOM, truncation) of seeds: the '
            "repository's tests (raw and preprocessed), the compiler's own preprocessed sources, 97 minimal per-diagnostic-site triggers and small valid programs (60-line windows). "
            'Oracle: cc1 exit 0 + assembles, or exit 1 with `file:line:` inside the input, never a signal / assertion / internal error / other status / silence / hang. '
            'non-trivial = mutant differs from its seed and has not been seen before (content hash); distinct diagnostic messages reached are counted separately.')
    assumptions = ['inputs containing user-supplied inline assembly are outside the statement (test/asm.c is not a seed)',
                   'a time-out (10 s against a typical 2 ms) is confirmed three times before it is reported',
                   'D34 (an array with a huge constant bound and an initializer exhausts memory / time) is recorded; identified by its input shape']

    def budget(self, tier):
        return 8000 if tier == 'quick' else 100000

    def prepare(self, tree, tier):
        get_seeds(tree)
        # diagnostic message inventory of the tree under test
        self.msgs = set()
        for f in glob.glob(os.path.join(tree.dir, '*.c')):
            for m in re.finditer(r'error(?:_tok|_at)?\([^"]*"((?:[^"\\]|\\.)*)"', open(f).read()):
                s = m.group(1)
                s = re.split(r'%[-+ #0-9.]*[a-zA-Z]', s)[0].strip()
                if len(s) >= 6:
                    self.msgs.add(s)

    def example(self, ch, ctx):
        st = ctx.stats
        S = get_seeds(ctx.tree)
        cat = ch.weighted([(34, 'E:'), (8, 'raw:'), (20, 'trigger:'), (13, 'valid:'), (10, 'any'), (15, 'gen:')])
        if cat == 'gen:':
            # freshly generated preprocessor-heavy programs (macro definition sets + invocations, conditional trees)
            from checks import c09, c10
            if ch.bool():
                name, text = 'gen:c09', c09.Gen(ch, {}).program()
            else:
                name, text = 'gen:c10', c10.Cond(ch).program()
            lines = [lex_line(l) for l in text.split('\n')]
        else:
            pool_ = [it for it in S.items if cat == 'any' or it[0].startswith(cat)] or S.items
            name, lines = pool_[ch.int(0, len(pool_) - 1)]
        base = window(ch, lines)
        d = ctx.fresh_dir()
        try:
            n = 0
            while ch.more(n, 1, 30):
                n += 1
                bytemode = ch.int(0, 5) == 0
                if bytemode:
                    data = byte_mutate(ch, render(base).encode('utf-8', 'replace'))
                    desc = [('bytes',)]
                else:
                    ml, desc = mutate(ch, base, S.pool)
                    data = render(ml).encode('utf-8', 'replace')
                if b'asm' in data:
                    st.count('skipped_asm')
                    continue
                if is_d34(data):
                    st.count('excluded_by_known_finding:D34')
                    continue
                p = os.path.join(d, 'm%d.c' % n)
                open(p, 'wb').write(data)
                nl = count_lines(data)
                verdict, detail = judge(ctx.tree, p, nl, d)
                h = core.shash(data)
                st.case(h, sample=({'seed': name, 'edits': [list(x) for x in desc], 'verdict': verdict, 'text': data.decode('latin1')[:300]} if len(st.samples) < 3 else None))
                st.tag(verdict)
                st.tag('seed:' + name.split(':')[0])
                if verdict == 'ok-reject':
                    for mtxt in getattr(self, 'msgs', ()):
                        if mtxt in detail:
                            st.tag('diag:' + mtxt[:40])
                            break
                if verdict.startswith('BAD'):
                    if verdict == 'BAD:hang':
                        # confirm
                        again = [judge(ctx.tree, p, nl, d)[0] for _ in range(2)]
                        if again != ['BAD:hang', 'BAD:hang']:
                            st.count('inconclusive_timeouts')
                            continue
                    rep = {'kind': 'robust', 'input_latin1': data.decode('latin1'), 'verdict': verdict, 'seed': name,
                           'signature': verdict + ':' + core.shash(detail.split('stderr:')[-1][:60])}
                    raise core.Violation(rep, '%s: %s\nseed %s, edits %s\n--- input ---\n%s' % (verdict, detail, name, desc, data.decode('latin1')[:2500]))
        finally:
            shutil.rmtree(d, ignore_errors=True)

    def replay(self, tree, rep, wd):
        data = rep['input_latin1'].encode('latin1')
        p = os.path.join(wd, 'r.c')
        open(p, 'wb').write(data)
        verdict, detail = judge(tree, p, count_lines(data), wd)
        if verdict == 'BAD:hang':
            again = [judge(tree, p, count_lines(data), wd)[0] for _ in range(2)]
            if again != ['BAD:hang', 'BAD:hang']:
                return False, 'time-out not reproducible (inconclusive)'
        if verdict.startswith('BAD'):
            return True, '%s: %s' % (verdict, detail)
        return False, '%s %s' % (verdict, detail)

    def evidence_extra(self, tier):
        return {'diagnostic_sites_in_tree': len(getattr(self, 'msgs', ()))}

    def extra(self, tree, tier, stats, top):
        """deterministic part: every trigger and every valid seed, unmutated; valid seeds must be accepted."""
        d = os.path.join(top, 'c13x'); os.makedirs(d, exist_ok=True)
        viols = []
        reached = set()
        for i, (msg, src) in enumerate(TRIGGERS):
            data = src if isinstance(src, bytes) else src.encode('utf-8')
            p = os.path.join(d, 't%d.c' % i)
            open(p, 'wb').write(data)
            verdict, detail = judge(tree, p, count_lines(data), d)
            stats.case(('trigger', i))
            if verdict.startswith('BAD') and len(viols) < 3:
                viols.append(({'kind': 'robust', 'input_latin1': data.decode('latin1'), 'verdict': verdict, 'seed': 'trigger:%d' % i, 'signature': 'trigger-%d' % i},
                              'trigger for %r: %s %s' % (msg, verdict, detail)))
            if verdict == 'ok-reject' and msg in detail:
                reached.add(msg)
        stats.counters['trigger_sites_reached'] = len(reached)
        stats.counters['trigger_sites_total'] = len({m for m, _ in TRIGGERS})
        for i, s in enumerate(VALID_SMALL):
            p = os.path.join(d, 'v%d.c' % i)
            open(p, 'w').write(s)
            verdict, detail = judge(tree, p, s.count('\n') + 1, d)
            stats.case(('valid', i))
            if verdict != 'ok-accept' and len(viols) < 4:
                viols.append(({'kind': 'robust-valid', 'input_latin1': s, 'verdict': verdict, 'signature': 'valid-%d' % i}, 'valid program not accepted: %s %s' % (verdict, detail)))
        return viols


def count_lines(data):
    """physical lines: LF, CR LF and a lone CR all end a line (chibicc canonicalises all three)"""
    return len(re.split(b'\r\n|\r|\n', data))


def is_d34(data):
    """recorded finding D34: array declarator with a huge constant bound (>= 2^24 elements) followed by an initializer"""
    for m in re.finditer(rb'\[\s*(\d{8,})\s*[uUlL]*\s*\]', data):
        return True
    return False


CHECK = C13()
