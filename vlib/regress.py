"""Generic replay kinds for hand-minimised regression cases of repaired defects ('fixed:' entries of known_findings.json).
A replay file with "generic": true is decided here, by the same oracles the checks use, without any generator:

  diffprog  one C program; chibicc's output must equal the gcc == clang consensus          (vlib.diffprog.replay)
  xlink     several C files; the files listed in "chi" are compiled by chibicc, the rest by gcc, linked by gcc;
            output must equal the all-gcc == all-clang build (cross-compiler calls)
  cpp       preprocessor token sequence must equal gcc -E == clang -E                      (checks.c09.cpp_replay)
  cpplines  the same, additionally the division of the output into lines
  inc       include tree + options, marker sequence must equal gcc/clang                   (checks.c10.inc_replay)
  robust    arbitrary bytes: chibicc must produce output or a located diagnostic           (checks.c13 judge)
  script    a self-contained demo.sh <tree> with companion files (driver behaviour)
  diagpos   an invalid input; the first diagnostic must name r.c and one of the given lines
"""
import os, re
from . import core, diffprog


def xlink(tree, rep, wd):
    outs = {}
    for cfg in ('gcc', 'clang', 'mixed'):
        objs = []
        for name, src in rep['files'].items():
            p = os.path.join(wd, name)
            open(p, 'w').write(src)
            o = os.path.join(wd, '%s_%s.o' % (cfg, name))
            if cfg == 'mixed' and name in rep['chi']:
                r = core.run([tree.cc, '-I' + os.path.join(tree.dir, 'include'), '-c', '-o', o, p], timeout=30)
            else:
                r = core.run(['gcc' if cfg != 'clang' else 'clang', '-O0', '-w', '-std=gnu11', '-fno-builtin', '-c', '-o', o, p], timeout=30)
            if r.rc != 0:
                outs[cfg] = 'COMPILE-FAIL %s: %s' % (name, diffprog.errsum(r.err))
                break
            objs.append(o)
        else:
            exe = os.path.join(wd, cfg + '.exe')
            r = core.run(['gcc', '-o', exe] + objs + ['-lm'], timeout=30)
            if r.rc != 0:
                outs[cfg] = 'LINK-FAIL ' + r.err[-200:]
                continue
            rr = core.run([exe], timeout=10, cwd=wd)
            outs[cfg] = rr.out if (rr.rc == 0 and not rr.timeout) else 'RUN-FAIL rc=%s timeout=%s' % (rr.rc, rr.timeout)
    if outs['gcc'].startswith(('COMPILE-FAIL', 'LINK-FAIL', 'RUN-FAIL')) or outs['gcc'] != outs['clang']:
        return False, 'references do not agree (not decidable): %r / %r' % (outs['gcc'][:200], outs['clang'][:200])
    if outs['mixed'] != outs['gcc']:
        return True, 'expected (all gcc == all clang): %r\nobserved (%s by chibicc): %r' % (outs['gcc'][:400], ','.join(rep['chi']), outs['mixed'][:400])
    return False, 'mixed link-up agrees: %r' % outs['gcc'][:200]


def diagpos(tree, rep, wd):
    p = os.path.join(wd, 'r.c')
    open(p, 'wb').write(rep['input_latin1'].encode('latin1'))
    r = core.run([tree.cc, '-c', '-o', os.path.join(wd, 'r.o'), 'r.c'], cwd=wd, timeout=20)
    if r.timeout:
        return True, 'chibicc hangs'
    if r.rc == 0:
        return True, 'invalid input accepted'
    first = (r.err.strip().split('\n') or [''])[0]
    m = re.match(r'^(\S+?):(\d+): ', first)
    if not m:
        return True, 'no located diagnostic: %r' % r.err[:300]
    if os.path.basename(m.group(1)) != 'r.c' or int(m.group(2)) not in rep['lines']:
        return True, 'diagnostic names %s:%s, expected r.c:%s: %r' % (m.group(1), m.group(2), rep['lines'], first[:200])
    return False, 'diagnostic at %s:%s' % (m.group(1), m.group(2))


def cpplines(tree, rep, wd):
    """line structure of -E output: the non-empty lines, each as a token list, must equal gcc -E -P == clang -E -P."""
    from . import pptok
    p = os.path.join(wd, 't.c')
    open(p, 'w').write(rep['source'])
    outs = {}
    for comp in ('gcc', 'clang', 'chibicc'):
        rc, toks, err, to, raw = pptok.cpp(tree, comp, p, cwd=wd, timeout=10)
        outs[comp] = None if (rc != 0 or to) else [pptok.lex(l) for l in pptok.strip_markers(raw).split('\n') if l.strip()]
    if outs['gcc'] is None or outs['gcc'] != outs['clang']:
        return False, 'references do not agree (not decidable)'
    if outs['chibicc'] != outs['gcc']:
        return True, 'expected lines %r\nobserved lines %r' % (outs['gcc'][:12], outs['chibicc'][:12] if outs['chibicc'] is not None else 'rejected')
    return False, 'line structure agrees: %r' % outs['gcc'][:6]


def script(tree, rep, wd):
    """a demonstration script (bash, `demo.sh <tree>`) with its companion files; it exits 0 when the property holds for its input
    on that tree and non-zero when it is violated.  Used where the observation is a driver behaviour (exit status, files written)
    rather than program output."""
    for name, content in rep.get('files', {}).items():
        q = os.path.join(wd, name)
        os.makedirs(os.path.dirname(q), exist_ok=True)
        open(q, 'wb').write(content.encode('latin1'))
    sp = os.path.join(wd, 'demo.sh')
    open(sp, 'w').write(rep['script'])
    r = core.run(['bash', sp, tree.dir], cwd=wd, timeout=rep.get('timeout', 120), as_mb=0)
    if r.timeout:
        return True, 'demonstration script timed out'
    tail = (r.out + r.err).strip().split('\n')[-3:]
    return (r.rc != 0), 'demo.sh exit %s: %s' % (r.rc, ' | '.join(tail)[:400])


def dispatch(tree, rep, wd):
    k = rep['kind']
    if k == 'script':
        return script(tree, rep, wd)
    if k == 'diffprog':
        return diffprog.replay(tree, rep, wd, run_timeout=20)
    if k == 'xlink':
        return xlink(tree, rep, wd)
    if k == 'cpp':
        from checks import c09
        return c09.cpp_replay(tree, rep, wd)
    if k == 'cpplines':
        return cpplines(tree, rep, wd)
    if k == 'inc':
        from checks import c10
        return c10.inc_replay(tree, rep, wd)
    if k == 'robust':
        from checks import c13
        return c13.CHECK.replay(tree, rep, wd)
    if k == 'diagpos':
        return diagpos(tree, rep, wd)
    raise ValueError('unknown generic replay kind %r' % k)
