"""pp-token lexer and preprocessor runners (chibicc -E, gcc -E -P, clang -E -P)."""
import re, os
from . import core

PPTOK = re.compile(r'''(?:u8|u|U|L)?"(?:\\.|[^"\\\n])*"|(?:u|U|L)?'(?:\\.|[^'\\\n])*'|[A-Za-z_$][\w$]*|\.?\d(?:[eEpP][+-]|[\w.])*|<<=|>>=|\.\.\.|->|\+\+|--|<<|>>|<=|>=|==|!=|&&|\|\||[-+*/%&|^]=|##|\S''')


def lex(s):
    return PPTOK.findall(s)


_MARKER = re.compile(r'^#\s*(\d+(\s|$)|pragma\b|line\b|ident\b)')


def strip_markers(out):
    """drop line markers and #pragma lines; any other line that starts with '#' is ordinary output (a '#' token that came out of
    macro replacement) and is kept"""
    return '\n'.join(l for l in out.split('\n') if not _MARKER.match(l))


def norm_strings(toks):
    """string literals with white space removed (for re-stringified expansions, 6.10.3.2 leaves their spacing open)"""
    return [re.sub(r'\s+', '', t) if t[:1] == '"' or t[:2] in ('L"', 'u"', 'U"') or t[:3] == 'u8"' else t for t in toks]


def cpp(tree, comp, path, args=(), cwd=None, timeout=10):
    """returns (rc, tokens or None, stderr, timed_out, raw stdout)"""
    if comp == 'chibicc':
        cmd = [tree.cc, '-E'] + list(args) + [path]
    elif comp == 'gcc':
        cmd = ['gcc', '-E', '-P', '-std=gnu11', '-w', '-undef' if False else '-w'] + list(args) + [path]
    else:
        cmd = ['clang', '-E', '-P', '-std=gnu11', '-w'] + list(args) + [path]
    r = core.run(cmd, cwd=cwd, timeout=timeout)
    if r.timeout:
        return None, None, r.err, True, ''
    if r.rc != 0:
        return r.rc, None, r.err, False, r.out
    return 0, lex(strip_markers(r.out)), r.err, False, r.out
