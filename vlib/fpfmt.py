"""Exact IEEE-754 / x87 encode-decode helpers (Fractions): binary32, binary64, x87 extended.
Used to build operand pools from exact values, to decide definedness of fp->int conversions
exactly, and to detect decimal spellings whose double rounding differs from direct rounding."""
from fractions import Fraction


class Fmt:
    def __init__(s, name, cname, p, ebits, size, sig_bytes, suffix, explicit_one=False):
        s.name, s.cname, s.p, s.ebits, s.size, s.sig_bytes, s.suffix = name, cname, p, ebits, size, sig_bytes, suffix
        s.bias = (1 << (ebits - 1)) - 1
        s.emax = s.bias
        s.emin = 1 - s.bias
        s.explicit_one = explicit_one

    def __repr__(s):
        return s.name


F32 = Fmt('float', 'float', 24, 8, 4, 4, 'f')
F64 = Fmt('double', 'double', 53, 11, 8, 8, '')
F80 = Fmt('ldouble', 'long double', 64, 15, 16, 10, 'L', explicit_one=True)
FMTS = [F32, F64, F80]

INF, NINF, NAN, NZERO = 'inf', '-inf', 'nan', '-0'


def round_frac(x, fmt):
    """Round Fraction x (non-special) to fmt with round-half-even; returns Fraction or INF/NINF."""
    if x == 0:
        return Fraction(0)
    sign = -1 if x < 0 else 1
    a = abs(x)
    # exponent e with 2^e <= a < 2^(e+1)
    e = a.numerator.bit_length() - a.denominator.bit_length()
    if Fraction(2) ** e > a:
        e -= 1
    elif Fraction(2) ** (e + 1) <= a:
        e += 1
    e = max(e, fmt.emin)
    q = Fraction(2) ** (e - fmt.p + 1)       # quantum
    n = a / q
    fl = n.numerator // n.denominator
    rem = n - fl
    if rem > Fraction(1, 2) or (rem == Fraction(1, 2) and (fl & 1)):
        fl += 1
    r = fl * q
    if r >= Fraction(2) ** (fmt.emax + 1):
        return INF if sign > 0 else NINF
    return sign * r


def encode(v, fmt):
    """v: Fraction/int or one of INF,NINF,NAN,NZERO -> integer bit pattern (sig_bytes*8 bits wide)."""
    eb, p = fmt.ebits, fmt.p
    mbits = p if fmt.explicit_one else p - 1
    emax_field = (1 << eb) - 1

    def pack(sign, ef, mant):
        return (sign << (eb + mbits)) | (ef << mbits) | mant
    if v == NAN:
        return pack(0, emax_field, (3 << (mbits - 2)) if fmt.explicit_one else (1 << (mbits - 1)))
    if v == INF or v == NINF:
        return pack(1 if v == NINF else 0, emax_field, (1 << (mbits - 1)) if fmt.explicit_one else 0)
    if v == NZERO:
        return pack(1, 0, 0)
    x = round_frac(Fraction(v), fmt)
    if x in (INF, NINF):
        return encode(x, fmt)
    if x == 0:
        return pack(1, 0, 0) if Fraction(v) < 0 else 0
    sign = 1 if x < 0 else 0
    a = abs(x)
    e = a.numerator.bit_length() - a.denominator.bit_length()
    if Fraction(2) ** e > a:
        e -= 1
    elif Fraction(2) ** (e + 1) <= a:
        e += 1
    if e < fmt.emin:   # subnormal
        m = a / (Fraction(2) ** (fmt.emin - p + 1))
        assert m.denominator == 1
        return pack(sign, 0, int(m))
    m = a / (Fraction(2) ** (e - p + 1))
    assert m.denominator == 1
    m = int(m)
    if not fmt.explicit_one:
        m -= 1 << (p - 1)
    return pack(sign, e + fmt.bias, m)


def decode(bits, fmt):
    eb, p = fmt.ebits, fmt.p
    mbits = p if fmt.explicit_one else p - 1
    sign = (bits >> (eb + mbits)) & 1
    ef = (bits >> mbits) & ((1 << eb) - 1)
    mant = bits & ((1 << mbits) - 1)
    if ef == (1 << eb) - 1:
        frac = mant & ((1 << (mbits - 1)) - 1) if fmt.explicit_one else mant
        if frac:
            return NAN
        return NINF if sign else INF
    if ef == 0:
        if mant == 0:
            return NZERO if sign else Fraction(0)
        v = mant * Fraction(2) ** (fmt.emin - p + 1)
    else:
        if not fmt.explicit_one:
            mant |= 1 << (p - 1)
        v = mant * Fraction(2) ** (ef - fmt.bias - p + 1)
    return -v if sign else v


def is_special(v):
    return v in (INF, NINF, NAN)


def approx(v):
    """Python float approximation for range guards."""
    if v == NAN:
        return float('nan')
    if v == INF:
        return float('inf')
    if v == NINF:
        return float('-inf')
    if v == NZERO:
        return -0.0
    try:
        return float(v)
    except OverflowError:
        return float('inf') if v > 0 else float('-inf')


def c_init(bits, fmt):
    """C initializer text for a union {integer words; fp} holding the pattern."""
    if fmt is F32:
        return '{ 0x%xu }' % bits
    if fmt is F64:
        return '{ 0x%xul }' % bits
    return '{ { 0x%xul, 0x%xul } }' % (bits & ((1 << 64) - 1), bits >> 64)


def union_decl(name, bits, fmt, volatile=True):
    v = 'volatile ' if volatile else ''
    if fmt is F32:
        return '%sunion { unsigned int i; float f; } %s = %s;' % (v, name, c_init(bits, fmt))
    if fmt is F64:
        return '%sunion { unsigned long i; double f; } %s = %s;' % (v, name, c_init(bits, fmt))
    return '%sunion { unsigned long i[2]; long double f; } %s = %s;' % (v, name, c_init(bits, fmt))


BASE_VALUES = [0, NZERO, 1, -1, Fraction(1, 2), Fraction(3, 2), Fraction(5, 2), Fraction(-1, 2), Fraction(-3, 2), Fraction(7, 2),
               Fraction(-5, 2), 2, 3, 100, Fraction(1, 10), Fraction(1, 3), Fraction(-1, 3), 10 ** 10, Fraction(1, 10 ** 10),
               127, 128, 255, 256, -128, -129, 32767, 32768, 65535, 65536, -32768, -32769,
               2 ** 24, 2 ** 24 + 1, 2 ** 24 - 1, 2 ** 24 + 3, 16777217, 33554435,
               2 ** 31, 2 ** 31 - 1, 2 ** 31 + 1, -2 ** 31, -2 ** 31 - 1, -2 ** 31 + 1, 2 ** 31 - Fraction(1, 2), 2 ** 31 - 128, 2 ** 31 + 256,
               2 ** 32, 2 ** 32 - 1, 2 ** 32 + 1, 2 ** 32 - 256, 2 ** 32 + 512, 2 ** 32 - Fraction(1, 2),
               2 ** 53, 2 ** 53 + 1, 2 ** 53 - 1, 2 ** 53 + 2, 2 ** 53 + 3,
               2 ** 63, 2 ** 63 - 1, 2 ** 63 + 1, 2 ** 63 - 512, 2 ** 63 - 2 ** 39, 2 ** 63 + 2 ** 11, 2 ** 63 + 2 ** 40, -2 ** 63, -2 ** 63 - 2 ** 11, -2 ** 63 + 512, -2 ** 63 - 2 ** 40,
               2 ** 64, 2 ** 64 - 1, 2 ** 64 - 2 ** 11, 2 ** 64 - 2 ** 40, 2 ** 64 + 2 ** 41, 2 ** 64 - 2048,
               Fraction(123456789123, 1000), Fraction(-987654321, 1000), INF, NINF, NAN,
               0x8000008000000001, 0xffffff8000000001, 0x8000000000000401, 0xfffffffffffffbff]


def pool(fmt):
    out = []
    seen = set()
    vs = list(BASE_VALUES)
    vs += [Fraction(2) ** (fmt.emax + 1) - Fraction(2) ** (fmt.emax - fmt.p + 1),   # max
           Fraction(2) ** fmt.emin, Fraction(2) ** (fmt.emin - fmt.p + 1),           # min normal, min subnormal
           -(Fraction(2) ** fmt.emin), Fraction(2) ** (fmt.emin) - Fraction(2) ** (fmt.emin - fmt.p + 1)]
    for v in vs:
        b = encode(v, fmt)
        if b not in seen:
            seen.add(b)
            out.append(b)
    return out
