"""Random C object types: scalars, arrays, structs/unions with nested and anonymous members,
bit-fields (incl. zero-width and unnamed), packed/aligned attributes and _Alignas.
Shared by C04 (lvalues), C05 (initializers), C06 (calling convention) and C08 (layout).
Layout is deliberately NOT modelled here - it is what C08 tests against the references."""
from . import igen

# scalar table: cname, size, kind, integer model type (or None)
SCALARS = [
    ('char', 1, 'int', igen.CHAR), ('unsigned char', 1, 'int', igen.UCHAR), ('short', 2, 'int', igen.SHORT),
    ('unsigned short', 2, 'int', igen.USHORT), ('int', 4, 'int', igen.INT), ('unsigned', 4, 'int', igen.UINT),
    ('long', 8, 'int', igen.LONG), ('unsigned long', 8, 'int', igen.ULONG), ('_Bool', 1, 'int', igen.BOOL),
    ('float', 4, 'fp', None), ('double', 8, 'fp', None), ('long double', 16, 'fp', None), ('char *', 8, 'ptr', None),
]
BF_BASES = [('char', 8, igen.CHAR), ('unsigned char', 8, igen.UCHAR), ('short', 16, igen.SHORT), ('unsigned short', 16, igen.USHORT),
            ('int', 32, igen.INT), ('unsigned', 32, igen.UINT), ('long', 64, igen.LONG), ('unsigned long', 64, igen.ULONG), ('_Bool', 1, igen.BOOL)]
NAT_ALIGN = {'char': 1, 'unsigned char': 1, 'short': 2, 'unsigned short': 2, 'int': 4, 'unsigned': 4, 'long': 8, 'unsigned long': 8,
             '_Bool': 1, 'float': 4, 'double': 8, 'long double': 16, 'char *': 8}


class Scalar:
    def __init__(s, cname, size, kind, it):
        s.cname, s.size, s.kind, s.it = cname, size, kind, it

    def decl(s, name):
        return '%s %s' % (s.cname, name)


class Array:
    def __init__(s, elem, n):
        s.elem, s.n = elem, n

    def decl(s, name):
        # arrays of arrays: build inside-out
        dims = ''
        t = s
        while isinstance(t, Array):
            dims += '[%s]' % ('' if t.n is None else t.n)
            t = t.elem
        return t.decl(name + dims) if not isinstance(t, Agg) else '%s %s%s' % (t.ref(), name, dims)


class Field:
    def __init__(s, name, ty, bf=None, bf_base=None, alignas=0, anon=False):
        s.name, s.ty, s.bf, s.bf_base, s.alignas, s.anon = name, ty, bf, bf_base, alignas, anon


class Agg:
    def __init__(s, kind, tag, fields, packed=False, aligned=0, attr_after=False):
        s.kind, s.tag, s.fields, s.packed, s.aligned, s.attr_after = kind, tag, fields, packed, aligned, attr_after

    def attrs(s):
        a = []
        if s.packed:
            a.append('packed')
        if s.aligned:
            a.append('aligned(%d)' % s.aligned)
        return ' __attribute__((%s))' % ','.join(a) if a else ''

    def body(s):
        out = []
        nm = dict(getattr(s, 'nonmembers', ()))
        for i, f in enumerate(s.fields):
            if i in nm:
                out.append(nm[i])
            al = '_Alignas(%d) ' % f.alignas if f.alignas else ''
            if f.bf is not None:
                out.append('%s %s: %d;' % (f.bf_base[0], f.name or '', f.bf))
            elif isinstance(f.ty, Agg) and f.ty.tag is None:
                # inline (possibly anonymous-member) definition
                out.append('%s%s { %s }%s%s;' % (f.ty.kind, '' if f.ty.attr_after else f.ty.attrs(), f.ty.body(),
                                                  f.ty.attrs() if f.ty.attr_after else '', '' if f.anon else ' ' + f.name))
            else:
                out.append(al + f.ty.decl(f.name) + ';')
        if len(s.fields) in nm:
            out.append(nm[len(s.fields)])
        return ' '.join(out)

    def ref(s):
        return '%s %s' % (s.kind, s.tag)

    def definition(s):
        if s.attr_after:
            return '%s %s { %s }%s;' % (s.kind, s.tag, s.body(), s.attrs())
        return '%s%s %s { %s };' % (s.kind, s.attrs(), s.tag, s.body())

    def decl(s, name):
        return '%s %s' % (s.ref(), name)


class Leaf:
    """A named scalar leaf reachable from the top object: path text, scalar type or bit-field info,
    and the chain of union memberships (for shadow models)."""
    __slots__ = ('path', 'ty', 'bf', 'bf_base', 'unions', 'addressable')

    def __init__(s, path, ty, bf, bf_base, unions):
        s.path, s.ty, s.bf, s.bf_base, s.unions = path, ty, bf, bf_base, unions
        s.addressable = bf is None


class TGen:
    def __init__(self, ch, allow_bf=True, allow_packed=True, allow_aligned=True, allow_union=True, allow_fp=True, allow_ld=True,
                 allow_anon=True, allow_ptr=True, max_fields=6, excl=None, force_packed=False):
        self.ch = ch
        self.o = dict(bf=allow_bf, packed=allow_packed, aligned=allow_aligned, union=allow_union, fp=allow_fp, ld=allow_ld, anon=allow_anon, ptr=allow_ptr)
        self.max_fields = max_fields
        self.feat = set()
        self.excl = excl if excl is not None else {}
        self.ntag = 0
        self.force_packed = force_packed

    def scalar(self):
        ch = self.ch
        while True:
            cname, size, kind, it = ch.choice(SCALARS)
            if kind == 'fp' and not self.o['fp']:
                continue
            if cname == 'long double' and not self.o['ld']:
                continue
            if kind == 'ptr' and not self.o['ptr']:
                continue
            return Scalar(cname, size, kind, it)

    def agg(self, depth, tag=None, pref='', top=True):
        ch = self.ch
        kind = 'struct' if (not self.o['union'] or ch.int(0, 4) > 0) else 'union'
        packed = self.o['packed'] and (ch.int(0, 7) == 0 or (self.force_packed and top))
        aligned = ch.choice([2, 8, 16, 32]) if (self.o['aligned'] and ch.int(0, 7) == 0) else 0
        fields = []
        n = ch.int(1, self.max_fields)
        has_bf = False
        for i in range(n):
            nm = '%sm%d' % (pref, i)
            r = ch.int(0, 19)
            if r < 6 and self.o['bf'] and not (packed and 'D12b' in self.excl):
                base = ch.choice(BF_BASES)
                bits = base[1]
                w = ch.int(0, bits) if ch.int(0, 9) < 8 else bits
                if base[0] == '_Bool':
                    w = ch.int(0, 1)
                if w == 0 or ch.int(0, 9) == 0:
                    fields.append(Field(None, None, bf=w, bf_base=base))
                    self.feat.add('bf:unnamed' if w else 'bf:zero')
                else:
                    fields.append(Field(nm, None, bf=w, bf_base=base))
                    self.feat.add('bf')
                    if w > 32:
                        self.feat.add('bf:wide')
                has_bf = True
                if kind == 'union':
                    self.feat.add('bf:in-union')
            elif r < 6 and self.o['bf']:
                self.excl['D12b'] = self.excl.get('D12b', 0) + 1
                fields.append(Field(nm, self.scalar()))
            elif r < 9 and depth > 0:
                sub = self.agg(depth - 1, tag=None, pref=nm + '_', top=False)
                anon = self.o['anon'] and ch.int(0, 2) == 0
                if anon:
                    self.feat.add('anon-member')
                fields.append(Field(nm, sub, anon=anon))
                self.feat.add('nested')
            elif r < 12:
                el = self.scalar()
                k = ch.int(1, 5)
                t = Array(el, k)
                if ch.int(0, 5) == 0:
                    t = Array(t, ch.int(1, 3))
                    self.feat.add('array2d')
                fields.append(Field(nm, t))
                self.feat.add('array')
            else:
                sc = self.scalar()
                al = 0
                if self.o['aligned'] and ch.int(0, 9) == 0 and not (packed and 'D12b' in self.excl):
                    al = ch.choice([a for a in (1, 2, 4, 8, 16, 32) if a >= NAT_ALIGN[sc.cname]])
                    self.feat.add('alignas')
                fields.append(Field(nm, sc, alignas=al))
        if not any(f.name and not f.anon or (f.anon) for f in fields):
            fields.append(Field('%smx' % pref, self.scalar()))
        if packed:
            self.feat.add('packed')
            if has_bf:
                self.feat.add('packed+bf')
        if aligned:
            self.feat.add('aligned')
        if kind == 'union':
            self.feat.add('union')
        a = Agg(kind, tag, fields, packed, aligned, attr_after=ch.bool())
        if ch.int(0, 7) == 0:
            # a declaration in the member list that declares a tag and no member (C11 6.7.2.1p13 makes only an *untagged* specifier an anonymous member)
            self.ntag += 1
            form = ch.choice(['struct %s { int q; };', 'const struct %s { char z; long w; };', 'struct __attribute__((packed)) %s { char a; int b; };',
                              'union %s { long double l; char c; };', 'volatile union %s { int i; };', 'struct %s;'])
            # the tag is derived from the enclosing tag, so that it is unique wherever that one is (callers substitute their own prefixes in it)
            ident = 'NM%d_%s' % (self.ntag + 100 * len(pref), (tag or 'anon%d' % ch.int(0, 10 ** 6)).replace(' ', '_'))
            a.nonmembers = [(ch.int(0, len(fields)), form % ident)]
            self.feat.add('tag-declaration-in-member-list')
        return a


def leaves(ty, path='', unions=()):
    """All named scalar leaves of a type (bit-fields included)."""
    out = []
    if isinstance(ty, Scalar):
        out.append(Leaf(path, ty, None, None, unions))
    elif isinstance(ty, Array):
        for i in range(ty.n or 0):
            out += leaves(ty.elem, '%s[%d]' % (path, i), unions)
    else:
        for idx, f in enumerate(ty.fields):
            u = unions + (((id(ty), idx),) if ty.kind == 'union' else ())
            if f.bf is not None:
                if f.name:
                    out.append(Leaf((path + '.' if path else '') + f.name, None, f.bf, f.bf_base, u))
                continue
            if f.anon:
                out += leaves(f.ty, path, u)
            else:
                out += leaves(f.ty, (path + '.' if path else '') + f.name, u)
    return out


def members(ty, path=''):
    """Named non-bit-field members at every level (for offsetof): (path, is_aggregate)."""
    out = []
    if not isinstance(ty, Agg):
        return out
    for f in ty.fields:
        if f.bf is not None:
            continue
        if f.anon:
            out += members(f.ty, path)
            continue
        p = (path + '.' if path else '') + f.name
        out.append(p)
        t = f.ty
        if isinstance(t, Agg):
            out += members(t, p)
    return out
