"""Core machinery shared by every check: building the tree under test, running
subprocesses under limits, the Hypothesis-backed Chooser, the worker-pool campaign,
replay files, known findings and evidence output.  See DESIGN.md section 2."""
import os, sys, json, time, shutil, hashlib, tempfile, subprocess, resource, signal, traceback
import multiprocessing as mp

VERIF = os.path.dirname(os.path.dirname(os.path.abspath(__file__)))
REPO = os.environ.get('VERIF_REPO', '/repo')
WORKBASE = os.environ.get('VERIF_WORK', '/var/tmp')
NPROC = int(os.environ.get('VERIF_JOBS', str(min(16, os.cpu_count() or 4))))


def seed_value():
    try:
        s = int(os.environ.get('VERIF_SEED', '0'))
    except ValueError:
        s = 0
    return s if s != 0 else 20261002


def h64(*parts):
    m = hashlib.sha256()
    for p in parts:
        m.update(repr(p).encode()); m.update(b'\0')
    return int.from_bytes(m.digest()[:8], 'big')


def shash(s):
    return hashlib.sha256(s.encode() if isinstance(s, str) else s).hexdigest()[:16]


# ---------------------------------------------------------------------------------------
# subprocesses

class R:
    __slots__ = ('rc', 'out', 'err', 'timeout', 'sig')

    def __init__(s, rc, out, err, timeout):
        s.rc, s.out, s.err, s.timeout = rc, out, err, timeout
        s.sig = -rc if (rc is not None and rc < 0) else 0

    def __repr__(s):
        return 'R(rc=%r,timeout=%r,out=%r,err=%r)' % (s.rc, s.timeout, s.out[:200], s.err[:200])


def _limits(as_mb, cpu_s, stack_mb=None):
    def f():
        os.setsid()
        if as_mb:
            resource.setrlimit(resource.RLIMIT_AS, (as_mb << 20, as_mb << 20))
        if cpu_s:
            resource.setrlimit(resource.RLIMIT_CPU, (cpu_s, cpu_s + 1))
        resource.setrlimit(resource.RLIMIT_CORE, (0, 0))
        resource.setrlimit(resource.RLIMIT_FSIZE, (256 << 20, 256 << 20))
    return f


def run(cmd, cwd=None, timeout=20, input=None, env=None, as_mb=4096, cpu_s=None, text=True, stdout=None):
    """Run cmd under CPU/address-space limits in its own session; never raises on failure.
    rc<0 = killed by signal -rc.  (Limits are set by a /bin/sh wrapper rather than a preexec_fn so
    that Popen can use vfork: forking a large Python worker for every compiler run was the
    dominant cost.)"""
    if cpu_s is None:
        cpu_s = int(timeout) + 2
    lim = 'ulimit -c 0; ulimit -t %d; ' % cpu_s
    if as_mb:
        lim += 'ulimit -v %d; ' % (as_mb * 1024)
    wrapped = ['/bin/sh', '-c', lim + 'exec "$0" "$@"'] + list(cmd)
    try:
        p = subprocess.Popen(wrapped, cwd=cwd, env=env, stdin=subprocess.PIPE if input is not None else subprocess.DEVNULL,
                             stdout=stdout if stdout is not None else subprocess.PIPE, stderr=subprocess.PIPE,
                             start_new_session=True)
    except OSError as e:
        return R(127, '', str(e), False)
    try:
        if input is not None and text and isinstance(input, str):
            input = input.encode()
        o, e = p.communicate(input, timeout=timeout)
        to = False
    except subprocess.TimeoutExpired:
        try:
            os.killpg(p.pid, signal.SIGKILL)
        except OSError:
            pass
        o, e = p.communicate()
        to = True
    if o is None:
        o = b''
    if text:
        o = o.decode('utf-8', 'replace'); e = e.decode('utf-8', 'replace')
    return R(p.returncode, o, e, to)


# ---------------------------------------------------------------------------------------
# the tree under test

class Tree:
    """A private copy of /repo's current working tree, built with the repository's Makefile."""

    def __init__(self, d):
        self.dir = d
        self.cc = os.path.join(d, 'chibicc')

    def cleanup(self):
        shutil.rmtree(os.path.dirname(self.dir), ignore_errors=True)


def mkwork(prefix='chibicc-verif-'):
    os.makedirs(WORKBASE, exist_ok=True)
    return tempfile.mkdtemp(prefix=prefix, dir=WORKBASE)


def build_tree(with_tests=False):
    """Copy the working tree of /repo (sources, headers, Makefile, include/, test/) and build it.
    Returns Tree or raises BuildError."""
    top = mkwork()
    d = os.path.join(top, 'tree')
    os.makedirs(d)
    for name in sorted(os.listdir(REPO)):
        src = os.path.join(REPO, name)
        if name in ('.git', 'stage2', 'chibicc') or name.endswith('.o') or name.startswith('tmp'):
            continue
        if os.path.isdir(src):
            if name in ('include', 'test'):
                shutil.copytree(src, os.path.join(d, name), ignore=shutil.ignore_patterns('*.exe', '*.o', '*.s'))
        elif name.endswith(('.c', '.h')) or name in ('Makefile',):
            shutil.copy2(src, os.path.join(d, name))
    r = run(['make', '-j%d' % NPROC, 'chibicc'], cwd=d, timeout=300, as_mb=0)
    if r.rc != 0 or not os.path.exists(os.path.join(d, 'chibicc')):
        shutil.rmtree(top, ignore_errors=True)
        raise BuildError(r.out[-2000:] + r.err[-2000:])
    return Tree(d)


class BuildError(Exception):
    pass


# ---------------------------------------------------------------------------------------
# Chooser over hypothesis

class Chooser:
    """Every random choice of every generator goes through here (hypothesis data.draw), so a
    failing example shrinks as one value and replays from the seed."""

    def __init__(self, data):
        from hypothesis import strategies as st
        self._d = data
        self._st = st
        self._ints = {}

    def int(self, lo, hi):
        if lo >= hi:
            return lo
        k = (lo, hi)
        s = self._ints.get(k)
        if s is None:
            s = self._ints[k] = self._st.integers(lo, hi)
        return self._d.draw(s)

    def bool(self, p=0.5):
        # small value = False so that shrinking removes optional material
        n = self.int(0, 999)
        return n >= int(1000 * (1 - p))

    def choice(self, seq):
        return seq[self.int(0, len(seq) - 1)]

    def weighted(self, pairs):
        """pairs: [(weight, value)]; first entries are the 'simplest'."""
        tot = sum(w for w, _ in pairs)
        n = self.int(0, tot - 1)
        for w, v in pairs:
            if n < w:
                return v
            n -= w
        return pairs[-1][1]

    def bits(self, n):
        return self.int(0, (1 << n) - 1)

    def more(self, count, lo, hi):
        """'one more?' flag for deletable blocks: at least lo, at most hi items."""
        if count < lo:
            return True
        if count >= hi:
            return False
        return self.int(0, 19) > 0

    def sample(self, seq, k):
        seq = list(seq); out = []
        for _ in range(min(k, len(seq))):
            out.append(seq.pop(self.int(0, len(seq) - 1)))
        return out

    def shuffle(self, seq):
        return self.sample(seq, len(seq))


class RandomChooser(Chooser):
    """Same interface over random.Random — used only for development probes, never by a
    registered check."""

    def __init__(self, seed):
        import random
        self._r = random.Random(seed)

    def int(self, lo, hi):
        if lo >= hi:
            return lo
        return self._r.randint(lo, hi)


# ---------------------------------------------------------------------------------------
# results

class Violation(Exception):
    def __init__(self, replay, summary=''):
        Exception.__init__(self, summary)
        self.replay = replay
        self.summary = summary


class Stats:
    def __init__(self):
        self.evaluations = 0
        self.nt = set()
        self.samples = []
        self.fallback = []
        self.counters = {}
        self.hist = {}
        self.examples = 0

    def count(self, k, n=1):
        self.counters[k] = self.counters.get(k, 0) + n

    def tag(self, k, n=1):
        self.hist[k] = self.hist.get(k, 0) + n

    def case(self, nt_key=None, sample=None):
        self.evaluations += 1
        if nt_key is not None:
            self.nt.add(shash(repr(nt_key)))
        # samples shown in the evidence are non-trivial cases from after Hypothesis' minimal first examples;
        # a trivial one is kept only as a fallback
        if sample is not None:
            if nt_key is not None and self.evaluations > 5:
                if len(self.samples) < 6:
                    self.samples.append(sample)
            elif not self.fallback:
                self.fallback.append(sample)

    def merge(self, o):
        self.evaluations += o.evaluations
        self.examples += o.examples
        self.nt |= o.nt
        for s in o.samples:
            if len(self.samples) < 12:
                self.samples.append(s)
        if not self.fallback:
            self.fallback = list(o.fallback)
        for k, v in o.counters.items():
            self.counters[k] = self.counters.get(k, 0) + v
        for k, v in o.hist.items():
            self.hist[k] = self.hist.get(k, 0) + v


# ---------------------------------------------------------------------------------------
# campaign

def _worker(args):
    check, tree_dir, tier, wseed, n_examples, widx, part = args
    import hypothesis
    from hypothesis import given, settings, seed as hseed, strategies as st, HealthCheck, Phase
    import hypothesis.internal.conjecture.engine as eng
    eng.MAX_SHRINKING_SECONDS = 45 if tier == 'quick' else 180
    eng.BUFFER_SIZE = 64 * 1024        # generated programs need a few thousand draws
    import warnings
    warnings.filterwarnings('ignore', message='.*spent more than five minutes.*')
    warnings.filterwarnings('ignore', category=hypothesis.errors.HypothesisWarning)
    tree = Tree(tree_dir)
    stats = Stats()
    wd = tempfile.mkdtemp(prefix='w%d-' % widx, dir=os.path.dirname(tree_dir))
    ctx = Ctx(tree, tier, stats, wd, widx, part)
    last = {}

    @hseed(wseed)
    @settings(max_examples=n_examples, database=None, deadline=None, suppress_health_check=list(HealthCheck),
              phases=[Phase.generate, Phase.shrink], report_multiple_bugs=False, derandomize=False)
    @given(st.data())
    def t(data):
        ch = Chooser(data)
        stats.examples += 1
        try:
            check.example(ch, ctx)
        except Violation as v:
            last['v'] = v
            raise

    viol = None
    err = None
    import hypothesis.reporting as hrep
    try:
        with hrep.with_reporter(lambda *a, **k: None):
            t()
    except Violation as v:
        viol = last.get('v', v)
    except BaseException as e:  # harness problem: report, do not turn into a violation
        if 'v' in last and isinstance(e, (Exception,)) and 'Violation' in repr(type(e)):
            viol = last['v']
        else:
            err = traceback.format_exc()
    shutil.rmtree(wd, ignore_errors=True)
    return stats, (viol.replay if viol else None), (viol.summary if viol else None), err


class Ctx:
    def __init__(self, tree, tier, stats, wd, widx=0, part=None):
        self.tree, self.tier, self.stats, self.wd, self.widx, self.part = tree, tier, stats, wd, widx, part
        self.quick = tier == 'quick'
        self._n = 0

    def tmp(self, suffix=''):
        self._n += 1
        return os.path.join(self.wd, 't%d%s' % (self._n, suffix))

    def fresh_dir(self):
        self._n += 1
        d = os.path.join(self.wd, 'd%d' % self._n)
        os.makedirs(d)
        return d


def run_campaign(check, tree, tier, n_examples_total, parts=None, workers=None):
    """Run check.example under Hypothesis in a pool of worker processes.
    Returns (Stats, [ (replay, summary) ], [errors])."""
    workers = workers or NPROC
    base = seed_value()
    per = max(1, (n_examples_total + workers - 1) // workers)
    jobs = []
    for i in range(workers):
        part = parts[i % len(parts)] if parts else None
        jobs.append((check, tree.dir, tier, h64(base, check.id, i) & 0x7fffffff, per, i, part))
    ctxm = mp.get_context('fork')
    with ctxm.Pool(workers) as pool:
        res = pool.map(_worker, jobs, chunksize=1)
    stats = Stats()
    viols = []
    errs = []
    for s, rep, summ, err in res:
        stats.merge(s)
        if rep is not None:
            viols.append((rep, summ))
        if err:
            errs.append(err)
    return stats, viols, errs


# ---------------------------------------------------------------------------------------
# replay files, findings, evidence

def write_replay(prop, rep):
    os.makedirs(os.path.join(VERIF, 'replays'), exist_ok=True)
    rep = dict(rep)
    rep['property'] = prop
    body = json.dumps(rep, indent=1, sort_keys=True)
    path = os.path.join(VERIF, 'replays', '%s-%s.json' % (prop, shash(body)))
    with open(path, 'w') as f:
        f.write(body)
    return path


def load_findings(prop=None):
    p = os.path.join(VERIF, 'known_findings.json')
    if not os.path.exists(p):
        return []
    fs = json.load(open(p))
    return [f for f in fs if prop is None or f['property'] == prop]


def write_evidence(prop, tier, level, stats, rule, wall, violations, extra=None, assumptions=None, exhaustive=None):
    os.makedirs(os.path.join(VERIF, 'evidence'), exist_ok=True)
    cov = {
        'evaluations': int(stats.evaluations),
        'distinct_nontrivial': len(stats.nt),
        'rule': rule,
        'samples': (stats.samples[:8] if stats.samples else list(stats.fallback)),
        'hypothesis_examples': stats.examples,
        'counters': dict(sorted(stats.counters.items())),
        'feature_histogram': dict(sorted(stats.hist.items(), key=lambda kv: -kv[1])[:80]),
    }
    if exhaustive is not None:
        cov['exhaustive'] = exhaustive
    if extra:
        cov.update(extra)
    ev = {
        'property_id': prop, 'tier': tier, 'seed': seed_value(), 'level': level, 'coverage': cov,
        'assumptions': assumptions or [], 'wall_s': round(wall, 2), 'violations': int(violations),
    }
    path = os.path.join(VERIF, 'evidence', '%s.json' % prop)
    with open(path, 'w') as f:
        json.dump(ev, f, indent=1)
    return path
