"""Differential execution of generated C programs: chibicc vs the consensus of gcc and clang.

A *case* is an independent piece of a translation unit (file-scope declarations + the body of
one function) that prints observation lines starting with its own id.  The marker '@' in case
text is replaced by the case's unique prefix 'c<i>_'.  A batch of cases is compiled once per
compiler; on a compile failure or crash the batch falls back to one unit per case so that one
bad case never hides or taints the others."""
import os, re
from . import core

PRELUDE = ('int printf(const char*,...);\nint strcmp(const char*,const char*);\n'
           'void *memcpy(void*,const void*,unsigned long);\nvoid *memset(void*,int,unsigned long);\n'
           'int memcmp(const void*,const void*,unsigned long);\nvoid *malloc(unsigned long);\nvoid free(void*);\n'
           'int atoi(const char*);\nvoid exit(int);\nint fflush(void*);\n')

GCC = ['gcc', '-O0', '-w', '-std=gnu11', '-fcommon', '-fno-builtin']
CLANG = ['clang', '-O0', '-w', '-std=gnu11', '-fcommon', '-fno-builtin']


class Case:
    __slots__ = ('decls', 'body', 'expect', 'nt', 'tags', 'desc', 'pre')

    def __init__(self, decls='', body='', expect=None, nt=None, tags=(), desc=None, pre=''):
        self.decls, self.body, self.expect, self.nt, self.tags, self.desc, self.pre = decls, body, expect, nt, tags, desc, pre


def unit_source(cases, idxs=None, prelude=PRELUDE):
    """Build one translation unit from cases[idxs]."""
    if idxs is None:
        idxs = range(len(cases))
    parts = [prelude]
    for i in idxs:
        c = cases[i]
        pfx = 'c%d_' % i
        txt = '%s\n%s\nvoid @run(void){\n%s\n}\n' % (c.pre, c.decls, c.body)
        parts.append(txt.replace('@', pfx))
    parts.append('int main(int argc,char**argv){\n int only = argc>1 ? atoi(argv[1]) : -1;\n')
    for i in idxs:
        parts.append(' if (only<0 || only==%d) { c%d_run(); fflush(0); }\n' % (i, i))
    parts.append(' return 0;\n}\n')
    return ''.join(parts)


def compile_with(tree, comp, src_path, exe, extra=()):
    libs = [x for x in extra if x.startswith('-l')]        # libraries go after the objects that need them
    extra = [x for x in extra if not x.startswith('-l')]
    if comp == 'chibicc':
        cmd = [tree.cc, '-o', exe] + list(extra) + [src_path] + libs
        return core.run(cmd, timeout=30)
    if comp == 'gcc':
        return core.run(GCC + list(extra) + ['-o', exe, src_path] + libs, timeout=60)
    return core.run(CLANG + list(extra) + ['-o', exe, src_path] + libs, timeout=60)


def errsum(msg):
    """Last diagnostic line (chibicc prints the whole source line first), without temp paths."""
    ls = [l for l in msg.strip().split('\n') if l.strip()]
    if not ls:
        return ''
    last = ls[-1].strip()
    last = re.sub(r'^\s*\^\s*', '', last)
    return re.sub(r'/[^ :]*/', '', last)[:200]


_line = re.compile(r'^c(\d+)_ ?(.*)$')


def parse_out(out):
    d = {}
    for l in out.split('\n'):
        m = _line.match(l)
        if m:
            d.setdefault(int(m.group(1)), []).append(m.group(2))
    return d


def _obs_one(tree, comp, cases, idxs, wd, tag, extra, prelude, run_timeout):
    """Compile+run cases[idxs] as one unit.  Returns dict idx -> obs (list of lines) or None if the unit
    failed as a whole (then 'why' is set)."""
    src = os.path.join(wd, '%s_%s.c' % (tag, comp))
    exe = os.path.join(wd, '%s_%s.exe' % (tag, comp))
    with open(src, 'w') as f:
        f.write(unit_source(cases, idxs, prelude))
    r = compile_with(tree, comp, src, exe, extra)
    if r.timeout:
        return None, 'COMPILE-TIMEOUT'
    if r.rc != 0:
        return None, 'COMPILE-FAIL rc=%s %s' % (r.rc, errsum(r.err or r.out))
    rr = core.run([exe], timeout=run_timeout, cwd=wd)
    if rr.timeout:
        return None, 'RUN-TIMEOUT'
    if rr.rc != 0:
        return None, 'RUN-FAIL rc=%s' % rr.rc
    return parse_out(rr.out), None


def observe(tree, comp, cases, wd, extra=(), prelude=PRELUDE, run_timeout=10):
    """Observation per case for one compiler: list of lines, or a string 'COMPILE-FAIL ...' etc."""
    idxs = list(range(len(cases)))
    d, why = _obs_one(tree, comp, cases, idxs, wd, 'u', extra, prelude, run_timeout)
    res = {}
    if d is not None:
        for i in idxs:
            res[i] = d.get(i, [])
        return res, False
    if len(idxs) == 1:
        return {idxs[0]: why}, True
    for i in idxs:
        d, why1 = _obs_one(tree, comp, cases, [i], wd, 's%d' % i, extra, prelude, run_timeout)
        res[i] = d.get(i, []) if d is not None else why1
    return res, True


def judge(ctx, cases, extra=(), prelude=PRELUDE, chi_extra=(), run_timeout=10):
    """Run a batch under the three compilers.  Returns list of failures
    (idx, expected, observed) and updates counters in ctx.stats."""
    st = ctx.stats
    wd = ctx.fresh_dir()
    og, _ = observe(ctx.tree, 'gcc', cases, wd, extra, prelude, run_timeout)
    ocl, _ = observe(ctx.tree, 'clang', cases, wd, extra, prelude, run_timeout)
    oc, _ = observe(ctx.tree, 'chibicc', cases, wd, tuple(extra) + tuple(chi_extra), prelude, run_timeout)
    fails = []
    for i, c in enumerate(cases):
        g, l, x = og[i], ocl[i], oc[i]
        if isinstance(g, str) or isinstance(l, str):
            st.count('ref_reject')
            if ctx.stats.counters.get('ref_reject', 0) <= 3:
                st.samples.append({'ref_reject': str(g if isinstance(g, str) else l)[:300], 'case': (c.decls + c.body)[:600]})
            continue
        if g != l:
            st.count('ref_disagree')
            continue
        if c.expect is not None and list(c.expect) != g:
            st.count('model_disagree')
            if st.counters['model_disagree'] <= 3:
                st.samples.append({'model_disagree': {'model': c.expect, 'gcc': g}, 'case': (c.decls + c.body)[:800]})
            continue
        for t in c.tags:
            st.tag(t)
        st.case(c.nt, sample=({'case': (c.decls + '\n' + c.body).strip()[:700], 'observed': g[:6]} if len(st.samples) < 3 else None))
        if x != g:
            fails.append((i, g, x))
    import shutil
    shutil.rmtree(wd, ignore_errors=True)
    return fails


def violation_from(cases, fail, kind='diffprog', extra=(), prelude=PRELUDE, chi_extra=(), note=''):
    i, exp, obs = fail
    src = unit_source(cases, [i], prelude)
    rep = {'kind': kind, 'source': src, 'expected': exp, 'observed': obs, 'extra': list(extra), 'chi_extra': list(chi_extra),
           'tags': list(cases[i].tags), 'note': note,
           'signature': core.shash(cases[i].decls + cases[i].body)}
    summ = 'chibicc output differs from gcc/clang consensus\n--- case ---\n%s\n%s\n--- expected %r\n--- observed %r' % (
        cases[i].decls.replace('@', 'c%d_' % i).strip(), cases[i].body.replace('@', 'c%d_' % i).strip()[:1500], exp, obs)
    return core.Violation(rep, summ)


def replay(tree, rep, wd, run_timeout=10):
    """Plain regression check of a saved diffprog case (no Hypothesis)."""
    src = os.path.join(wd, 'r.c')
    with open(src, 'w') as f:
        f.write(rep['source'])
    outs = {}
    for comp in ('gcc', 'clang', 'chibicc'):
        exe = os.path.join(wd, 'r_%s.exe' % comp)
        ex = list(rep.get('extra', [])) + (list(rep.get('chi_extra', [])) if comp == 'chibicc' else [])
        r = compile_with(tree, comp, src, exe, ex)
        if r.rc != 0 or r.timeout:
            outs[comp] = 'COMPILE-FAIL rc=%s %s' % (r.rc, errsum(r.err or r.out))
            continue
        rr = core.run([exe], timeout=run_timeout, cwd=wd)
        outs[comp] = rr.out if (rr.rc == 0 and not rr.timeout) else 'RUN-FAIL rc=%s timeout=%s' % (rr.rc, rr.timeout)
    if outs['gcc'].startswith(('COMPILE-FAIL', 'RUN-FAIL')) or outs['gcc'] != outs['clang']:
        return False, 'references do not agree on this case (not decidable): gcc=%r clang=%r' % (outs['gcc'][:200], outs['clang'][:200])
    if outs['chibicc'] != outs['gcc']:
        return True, 'expected (gcc==clang): %r\nobserved (chibicc):    %r' % (outs['gcc'][:600], outs['chibicc'][:600])
    return False, 'chibicc agrees with gcc and clang: %r' % outs['gcc'][:300]
