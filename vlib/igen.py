"""Integer type model (C11 6.3.1, 6.5) and a generator of well-defined integer expressions.

Every expression is built together with its exact value (Python int) and its C type, so each
generated program is free of undefined behaviour *by construction*: when an operation would
overflow, divide by zero or shift out of range, an operand is repaired (cast to unsigned, `|1`,
count masked) instead of the case being filtered.  The model's prediction is cross-checked
against gcc and clang by the caller."""


class T:
    def __init__(s, name, bits, signed, rank, short=None):
        s.name, s.bits, s.signed, s.rank = name, bits, signed, rank
        s.short = short or name

    def __repr__(s):
        return s.short

    def min(s):
        return -(1 << (s.bits - 1)) if s.signed else 0

    def max(s):
        return (1 << (s.bits - 1)) - 1 if s.signed else (1 << s.bits) - 1

    @property
    def size(s):
        return 1 if s.bits == 1 else s.bits // 8


BOOL = T('_Bool', 1, False, 0, 'bool')
CHAR = T('char', 8, True, 1, 'char'); UCHAR = T('unsigned char', 8, False, 1, 'uchar')
SHORT = T('short', 16, True, 2, 'short'); USHORT = T('unsigned short', 16, False, 2, 'ushort')
INT = T('int', 32, True, 3, 'int'); UINT = T('unsigned int', 32, False, 3, 'uint')
LONG = T('long', 64, True, 4, 'long'); ULONG = T('unsigned long', 64, False, 4, 'ulong')
TYPES = [INT, UINT, LONG, ULONG, CHAR, UCHAR, SHORT, USHORT, BOOL]
UNS = {INT: UINT, LONG: ULONG}


def conv(v, t):
    if t is BOOL:
        return 1 if v != 0 else 0
    m = 1 << t.bits
    v %= m
    if t.signed and v >= m >> 1:
        v -= m
    return v


def promote(t):
    return INT if t.rank < 3 else t


def common(a, b):
    a, b = promote(a), promote(b)
    if a is b:
        return a
    if a.signed == b.signed:
        return a if a.rank > b.rank else b
    u, s = (a, b) if not a.signed else (b, a)
    if u.rank >= s.rank:
        return u
    if s.bits > u.bits:
        return s
    return UNS[s]


def cdiv(x, y):
    q = abs(x) // abs(y)
    return q if (x < 0) == (y < 0) else -q


def bound_values(t):
    return [0, 1, 2, t.max(), t.max() - 1, t.min(), t.min() + 1, -1, t.max() >> 1, (t.max() >> 1) + 1, 3, 7, 100, 127, 128,
            255, 256, 32767, 32768, 65535, 65536, 0x7fffffff, 0x80000000, 0xffffffff, 0x100000000, 0x7fffffffffffffff,
            # non-zero values whose low 32 / 16 / 8 bits are all zero: a narrower view of the same register is zero
            0xffffffff00000000, 0x500000000, 0x7fff0000, 0xffffff00, 0x10000]


def lit(t, v):
    """Spell value v of type t as a cast literal."""
    if t is BOOL:
        return '((_Bool)%d)' % v
    if t.signed:
        if v == LONG.min():
            return '((%s)(-9223372036854775807L-1))' % t.name
        return '((%s)%dL)' % (t.name, v) if v >= 0 else '((%s)-%dL)' % (t.name, -v)
    return '((%s)%dUL)' % (t.name, v)


class E:
    __slots__ = ('txt', 'ctxt', 't', 'v')

    def __init__(s, txt, t, v, ctxt=None):
        s.txt, s.t, s.v = txt, t, v
        s.ctxt = txt if ctxt is None else ctxt


class Gen:
    """One generator per case.  vars: volatile objects (name, type, value); mods: objects that the
    expression modifies, with their final value; feat: feature tags."""

    def __init__(self, ch, const_only=False, allow_side=True, allow_ptr=True, allow_comma=True, types=None,
                 excl=None, pp=False):
        self.ch = ch
        self.vars = []
        self.mods = []       # (name, type, init, final)
        self.arrays = []     # (name, type, values)
        self.enums = []      # (name, value)
        self.bfs = []        # bit-field objects: (name, base type, width, initial value)
        self.feat = set()
        self.const_only = const_only
        self.allow_side = allow_side and not const_only
        self.allow_ptr = allow_ptr and not const_only
        self.allow_comma = allow_comma
        self.types = types or TYPES
        self.excl = excl if excl is not None else {}
        self.nt = False
        self.IT = LONG if pp else INT
        self.pp = pp           # preprocessor arithmetic: intmax_t/uintmax_t only, no casts, no objects
        if pp:
            self.types = [LONG, ULONG]; self.const_only = True; self.allow_side = False; self.allow_ptr = False; self.allow_comma = False

    # ---- leaves
    def value(self, t):
        ch = self.ch
        if ch.int(0, 9) < 7:
            return conv(ch.choice(bound_values(t)), t)
        return conv(ch.bits(64), t)

    def newvar(self, t, v):
        n = '@v%d' % len(self.vars)
        self.vars.append((n, t, v))
        return E(n, t, v, lit(t, v))

    def pplit(self, t, v):
        if t is ULONG:
            if v >= 2 ** 63 and self.ch.int(0, 3) == 0:
                return '%d' % v         # too large for intmax_t: taken as uintmax_t (gcc and clang agree, with a warning)
            return self.ch.choice(['%du', '%dU', '0x%xu', '%dul', '%dULL']) % v
        if v < 0:
            return '(-%d)' % -v if v != LONG.min() else '(-9223372036854775807-1)'
        return self.ch.choice(['%d', '%d', '0x%x', '%dl', '0%o', '%dLL']) % v

    def leaf(self):
        ch = self.ch
        if self.pp:
            k = ch.int(0, 9)
            if k < 7:
                t = ch.choice(self.types)
                v = self.value(t)
                if abs(v) >= 0x7fffffff:
                    self.nt = True
                return E(self.pplit(t, v), t, v)
            if k == 7:
                c = ch.choice("aZ09 ~")
                return E("'%s'" % c, LONG, ord(c))
            v = ch.choice([0, 1, 2, 3, 5, 7, 8, 31, 32, 63, 64, 100, 255, 65535, 2147483647, 4294967295, 4294967296])
            return E(str(v), LONG, v)
        if self.allow_side and not self.const_only and ch.int(0, 9) == 0:
            return self.bf_leaf()
        k = ch.int(0, 11)
        if k <= 6 or (k >= 10 and self.const_only and False):
            t = ch.choice(self.types)
            v = self.value(t)
            if v in (t.min(), t.max(), t.max() - 1, t.min() + 1) or abs(v) in (0x7fffffff, 0x80000000, 0xffffffff, 0x100000000):
                self.nt = True
            if self.const_only or ch.int(0, 9) < 3:
                return E(lit(t, v), t, v)
            return self.newvar(t, v)
        if k <= 8:
            # plain literal with suffix
            suf, t = ch.choice([('', INT), ('u', UINT), ('l', LONG), ('ul', ULONG), ('U', UINT), ('LL', LONG), ('ULL', ULONG)])
            v = ch.choice([0, 1, 2, 3, 5, 7, 8, 10, 31, 32, 63, 64, 100, 127, 255, 1000, 65535, 2147483647])
            return E('%d%s' % (v, suf), t, v)
        if k == 9:
            v = ch.choice([0, 1, -1, 2147483647, -2147483647 - 1, 7, 255, -128, 65536])
            n = '@E%d' % len(self.enums)
            self.enums.append((n, v))
            self.feat.add('enum-const')
            return E(n, INT, v)
        if k == 10:
            c = ch.choice("aZ09 ~")
            return E("'%s'" % c, INT, ord(c))
        if self.allow_ptr:
            return self.ptr_expr()
        t = ch.choice(self.types)
        v = self.value(t)
        return E(lit(t, v), t, v)

    def bf_leaf(self):
        """A fresh bit-field object, read directly or as the value of an assignment, ++/--, op= or comma expression.  Widths are
        at most 32, and 32 only for int/unsigned bases, where gcc, clang and 6.3.1.1p2 agree on the promoted type: int unless the
        field is an unsigned one of width 32."""
        ch = self.ch
        base = ch.choice([INT, UINT, LONG, ULONG])
        w = ch.choice([1, 2, 3, 7, 8, 15, 16, 31] + ([32] if base.bits == 32 else []))
        pt = UINT if (w == 32 and not base.signed) else INT

        def fit(x):
            x &= (1 << w) - 1
            return x - (1 << w) if (base.signed and x >> (w - 1)) else x
        v0 = fit(ch.bits(64) if ch.bool() else ch.choice([0, 1, -1, (1 << (w - 1)) - 1, 1 << (w - 1), (1 << w) - 1]))
        n = '@bf%d' % len(self.bfs)
        self.bfs.append((n, base, w, v0))
        self.nt = True
        form = ch.int(0, 5)
        self.feat.add('bit-field:%s' % ['read', 'assign', 'pre-incdec', 'comma', 'op-assign', 'read'][form])
        f = '%s.f' % n
        if form == 1:
            x = self.value(ch.choice(self.types))
            nv = fit(x)
            return E('(%s = %s)' % (f, lit(LONG if x < 0 else ULONG, x)), pt, conv(nv, pt))
        if form == 2:
            d = ch.choice([1, -1])
            nv = fit(v0 + d)
            return E('(%s%s)' % ('++' if d > 0 else '--', f), pt, conv(nv, pt))
        if form == 3:
            return E('(0, %s)' % f, pt, conv(v0, pt))
        if form == 4:
            k = ch.int(1, 200)
            op = ch.choice(['+', '-', '|', '^'])
            a = conv(v0, pt)                        # the operation is done on the promoted value, then converted back to the field
            r = {'+': a + k, '-': a - k, '|': a | k, '^': a ^ k}[op]
            nv = fit(conv(r, common(pt, INT)))
            return E('(%s %s= %d)' % (f, op, k), pt, conv(nv, pt))
        return E('(+%s)' % f, pt, conv(v0, pt))       # not the bare member: sizeof and typeof of a bit-field are constraint violations

    def array(self):
        ch = self.ch
        if self.arrays and ch.int(0, 2) > 0:
            return ch.choice(self.arrays)
        t = ch.choice(self.types)
        vals = [self.value(t) for _ in range(8)]
        a = ('@a%d' % len(self.arrays), t, vals)
        self.arrays.append(a)
        return a

    def ptr_expr(self):
        """pointer difference / comparison / indexed load: integer-valued expressions over pointers."""
        ch = self.ch
        name, t, vals = self.array()
        i, j = ch.int(0, 8), ch.int(0, 8)
        k = ch.int(0, 6)
        self.feat.add('ptr:%d' % k)
        self.nt = True

        def p(idx):
            f = ch.int(0, 3)
            if f == 0:
                return '&%s[%d]' % (name, idx)
            if f == 1:
                return '(%s + %d)' % (name, idx)
            if f == 2:
                n = ch.int(0, idx)
                return '(&%s[%d] + %d)' % (name, idx - n, n)
            n = ch.int(0, 8 - idx)
            return '(&%s[%d] - %d)' % (name, idx + n, n)
        if k == 0:
            return E('(%s - %s)' % (p(i), p(j)), LONG, i - j)
        if k == 1:
            op = ch.choice(['<', '<=', '>', '>=', '==', '!='])
            r = {'<': i < j, '<=': i <= j, '>': i > j, '>=': i >= j, '==': i == j, '!=': i != j}[op]
            return E('(%s %s %s)' % (p(i), op, p(j)), INT, int(r))
        i = min(i, 7)
        if k == 2:
            return E('%s[%d]' % (name, i), t, vals[i])
        if k == 3:
            return E('(*%s)' % p(i), t, vals[i])
        if k == 4:
            return E('%d[%s]' % (i, name), t, vals[i])
        if k == 5:
            # index by an integer object of a drawn type (scaling of a non-int index)
            it = ch.choice([CHAR, UCHAR, SHORT, USHORT, INT, UINT, LONG, ULONG])
            iv = self.newvar(it, i)
            return E('%s[%s]' % (name, iv.txt), t, vals[i])
        # negative index from the end
        it = ch.choice([CHAR, SHORT, INT, LONG])
        iv = self.newvar(it, i - 8)
        return E('(%s + 8)[%s]' % (name, iv.txt), t, vals[i])

    # ---- helpers
    @staticmethod
    def mk(fmt, t, v, *subs):
        return E(fmt.format(*[s.txt for s in subs]), t, v, fmt.format(*[s.ctxt for s in subs]))

    def cast_to(self, e, t):
        if self.pp:
            # no casts in #if: adding 0u converts to uintmax_t
            return self.mk('({0} + 0u)', ULONG, conv(e.v, ULONG), e)
        return self.mk('((%s){0})' % t.name, t, conv(e.v, t), e)

    # ---- operators
    def expr(self, d):
        ch = self.ch
        if d <= 0 or ch.int(0, 6) == 0:
            return self.leaf()
        kinds = ['bin', 'bin', 'bin', 'bin', 'un', 'cast', 'cmp', 'cmp', 'log', 'cond', 'shift', 'shift']
        if self.allow_comma:
            kinds.append('comma')
        if self.allow_side:
            kinds += ['assign', 'opassign', 'opassign', 'incdec']
        if self.pp:
            kinds = [x for x in kinds if x != 'cast']
        k = ch.choice(kinds)
        return getattr(self, 'k_' + k)(d)

    def k_bin(self, d):
        ch = self.ch
        op = ch.choice('+-*/%&|^')
        a = self.expr(d - 1); b = self.expr(d - 1)
        return self.binop(op, a, b)

    def binop(self, op, a, b):
        ct = common(a.t, b.t)
        x, y = conv(a.v, ct), conv(b.v, ct)
        if op in '/%':
            if y == 0:
                b = self.mk('({0} | 1)', common(b.t, INT), conv(b.v, common(b.t, INT)) | 1, b)
                ct = common(a.t, b.t); x, y = conv(a.v, ct), conv(b.v, ct)
            if ct.signed and x == ct.min() and y == -1:
                ut = UNS[ct]
                a = self.cast_to(a, ut)
                ct = common(a.t, b.t); x, y = conv(a.v, ct), conv(b.v, ct)
            q = cdiv(x, y)
            res = q if op == '/' else x - q * y
        else:
            f = {'+': lambda: x + y, '-': lambda: x - y, '*': lambda: x * y, '&': lambda: x & y, '|': lambda: x | y, '^': lambda: x ^ y}
            res = f[op]()
            if ct.signed and not (ct.min() <= res <= ct.max()):
                ut = UNS[ct]
                a = self.cast_to(a, ut)
                ct = common(a.t, b.t); x, y = conv(a.v, ct), conv(b.v, ct)
                res = {'+': x + y, '-': x - y, '*': x * y}[op]
        if a.t is not b.t:
            self.nt = True
        self.feat.add('%s:%s,%s' % (op, a.t.short, b.t.short))
        return self.mk('({0} %s {1})' % op, ct, conv(res, ct), a, b)

    def k_shift(self, d):
        ch = self.ch
        op = ch.choice(['<<', '>>'])
        a = self.expr(d - 1); b = self.expr(d - 1)
        return self.shift(op, a, b)

    def shift(self, op, a, b):
        pt = promote(a.t); x = conv(a.v, pt)
        cnt = conv(b.v, promote(b.t))
        if not (0 <= cnt < pt.bits):
            bt = common(b.t, INT)
            b = self.mk('({0} & %d)' % (pt.bits - 1), bt, conv(b.v, bt) & (pt.bits - 1), b)
            cnt = b.v
        if op == '<<':
            if pt.signed and (x < 0 or (x << cnt) > pt.max()):
                ut = UNS[pt]
                a = self.cast_to(a, ut); pt = a.t; x = a.v
            res = conv(x << cnt, pt)
        else:
            res = x >> cnt      # arithmetic shift of negative values: implementation-defined, pinned to gcc/clang
        self.nt = True
        self.feat.add('%s:%s,%s' % (op, a.t.short, b.t.short))
        return self.mk('({0} %s {1})' % op, pt, conv(res, pt), a, b)

    def k_un(self, d):
        ch = self.ch
        op = ch.choice('-~!+')
        a = self.expr(d - 1)
        pt = promote(a.t); x = conv(a.v, pt)
        self.feat.add('u%s:%s' % (op, a.t.short))
        if op == '!':
            return self.mk('(!{0})', self.IT, int(a.v == 0), a)
        if a.t.rank < 3 or not a.t.signed:
            self.nt = True
        if op == '+':
            return self.mk('(+{0})', pt, x, a)
        if op == '~':
            return self.mk('(~{0})', pt, conv(~x, pt), a)
        if pt.signed and x == pt.min():
            a = self.cast_to(a, UNS[pt]); pt = a.t; x = a.v
        return self.mk('(-{0})', pt, conv(-x, pt), a)

    def k_cast(self, d):
        a = self.expr(d - 1)
        t = self.ch.choice(self.types)
        if conv(a.v, t) != a.v:
            self.nt = True
        self.feat.add('cast:%s>%s' % (a.t.short, t.short))
        return self.cast_to(a, t)

    def k_cmp(self, d):
        ch = self.ch
        op = ch.choice(['<', '<=', '>', '>=', '==', '!='])
        a = self.expr(d - 1); b = self.expr(d - 1)
        ct = common(a.t, b.t); x, y = conv(a.v, ct), conv(b.v, ct)
        res = {'<': x < y, '<=': x <= y, '>': x > y, '>=': x >= y, '==': x == y, '!=': x != y}[op]
        if a.t is not b.t:
            self.nt = True
        self.feat.add('%s:%s,%s' % (op, a.t.short, b.t.short))
        return self.mk('({0} %s {1})' % op, self.IT, int(res), a, b)

    def k_log(self, d):
        ch = self.ch
        op = ch.choice(['&&', '||'])
        a = self.expr(d - 1)
        # the right operand is evaluated only sometimes: keep it free of side effects on mods
        save = self.allow_side
        self.allow_side = False
        b = self.expr(d - 1)
        self.allow_side = save
        res = (a.v != 0 and b.v != 0) if op == '&&' else (a.v != 0 or b.v != 0)
        self.feat.add('%s:%s,%s' % (op, a.t.short, b.t.short))
        return self.mk('({0} %s {1})' % op, self.IT, int(res), a, b)

    def k_cond(self, d):
        c = self.expr(d - 1)
        save = self.allow_side
        self.allow_side = False
        a = self.expr(d - 1); b = self.expr(d - 1)
        self.allow_side = save
        ct = common(a.t, b.t)
        res = conv(a.v, ct) if c.v != 0 else conv(b.v, ct)
        if a.t is not b.t:
            self.nt = True
        self.feat.add('?::%s,%s' % (a.t.short, b.t.short))
        return self.mk('({0} ? {1} : {2})', ct, res, c, a, b)

    def k_comma(self, d):
        a = self.expr(d - 1); b = self.expr(d - 1)
        return self.mk('({0}, {1})', b.t, b.v, a, b)

    # ---- side effects: every modified object is fresh and occurs exactly once
    def newmod(self, t, v):
        n = '@m%d' % len(self.mods)
        self.mods.append([n, t, v, v])
        return len(self.mods) - 1

    def k_assign(self, d):
        ch = self.ch
        if ch.int(0, 3) == 0:
            # the value of an assignment used as a truth value, where the assigned value is zero in the type of the left
            # operand but the right operand is not: what is tested must be the converted value
            narrow = [x for x in self.types if x.bits <= 32 and x is not BOOL] or self.types
            t = ch.choice(narrow)
            wt = ch.choice([x for x in (LONG, ULONG) if x in self.types] or [t])
            v = conv(ch.choice([0x100000000, 0xffffffff00000000, LONG.min(), 0x500000000] + ([0x7fff0000, 0x10000] if t.bits <= 16 else []) + ([0xffffff00, 0x100] if t.bits <= 8 else [])), wt)
            a = self.newvar(wt, v) if ch.bool() else E(lit(wt, v), wt, v)
            i = self.newmod(t, self.value(t))
            self.mods[i][3] = conv(a.v, t)
            self.feat.add('truth-of-narrowing-assignment')
            self.nt = True
            e = self.mk('(%s = {0})' % self.mods[i][0], t, conv(a.v, t), a)
            return self.mk('(!{0})', self.IT, int(e.v == 0), e)
        a = self.expr(d - 1)
        t = ch.choice(self.types)
        i = self.newmod(t, self.value(t))
        self.mods[i][3] = conv(a.v, t)
        self.feat.add('=:%s<%s' % (t.short, a.t.short))
        if conv(a.v, t) != a.v:
            self.nt = True
        e = self.mk('(%s = {0})' % self.mods[i][0], t, conv(a.v, t), a)
        if ch.int(0, 3) == 0:   # chained
            t2 = ch.choice(self.types)
            j = self.newmod(t2, self.value(t2))
            self.mods[j][3] = conv(e.v, t2)
            self.feat.add('chain=')
            e = self.mk('(%s = {0})' % self.mods[j][0], t2, conv(e.v, t2), e)
        return e

    def k_opassign(self, d):
        ch = self.ch
        op = ch.choice(['+', '-', '*', '/', '%', '&', '|', '^', '<<', '>>'])
        b = self.expr(d - 1)
        t = ch.choice(self.types)
        v0 = self.value(t)
        lhs = E('@LHS', t, v0)
        if op in ('<<', '>>'):
            pt = promote(t); x = conv(v0, pt)
            if op == '<<' and pt.signed and x < 0:
                v0 = conv(-(v0 + 1), t) if v0 != t.min() else 0
                lhs = E('@LHS', t, v0); x = conv(v0, pt)
            cnt = conv(b.v, promote(b.t))
            if not (0 <= cnt < pt.bits):
                bt = common(b.t, INT)
                b = self.mk('({0} & %d)' % (pt.bits - 1), bt, conv(b.v, bt) & (pt.bits - 1), b)
                cnt = b.v
            if op == '<<' and pt.signed and (x << cnt) > pt.max():
                op = '>>'
            r = self.shift(op, lhs, b)
        else:
            ct = common(t, b.t)
            x, y = conv(v0, ct), conv(b.v, ct)
            if op in '/%' and y == 0:
                b = self.mk('({0} | 1)', common(b.t, INT), conv(b.v, common(b.t, INT)) | 1, b)
                ct = common(t, b.t); x, y = conv(v0, ct), conv(b.v, ct)
            bad = False
            if ct.signed:
                if op in '/%':
                    bad = (x == ct.min() and y == -1)
                elif op in '+-*':
                    res = {'+': x + y, '-': x - y, '*': x * y}[op]
                    bad = not (ct.min() <= res <= ct.max())
            if bad:
                # make the computation unsigned by casting the right operand
                ut = ULONG if ct is LONG else UINT
                b = self.cast_to(b, ut)
            r = self.binop(op, lhs, b)
            if r.txt.count('@LHS') != 1 or not r.txt.startswith('(@LHS '):
                # binop repaired the left operand (cast): fall back to a safe operator
                op = '^'
                r = self.binop(op, lhs, b)
        # r.txt = '(@LHS op rhs)'
        rhs_txt = r.txt[len('(@LHS %s ' % op):-1]
        rhs_ctxt = r.ctxt[len('(@LHS %s ' % op):-1]
        i = self.newmod(t, v0)
        final = conv(r.v, t)
        self.mods[i][3] = final
        self.nt = True
        self.feat.add('%s=:%s,%s' % (op, t.short, b.t.short))
        return E('(%s %s= %s)' % (self.mods[i][0], op, rhs_txt), t, final, '(%s %s= %s)' % (self.mods[i][0], op, rhs_ctxt))

    def k_incdec(self, d):
        ch = self.ch
        t = ch.choice(self.types)
        op = ch.choice(['++', '--'])
        post = ch.bool()
        if t is BOOL and post and 'D02' in self.excl:
            self.excl['D02'] += 1
            post = False
        v0 = self.value(t)
        pt = promote(t)
        if pt.signed and t.rank >= 3:
            if (op == '++' and v0 == t.max()) or (op == '--' and v0 == t.min()):
                v0 = conv(ch.int(-100, 100), t)
        new = conv(conv(v0, pt) + (1 if op == '++' else -1), t) if t is not BOOL else (1 if (v0 + (1 if op == '++' else -1)) != 0 else 0)
        i = self.newmod(t, v0)
        self.mods[i][3] = new
        self.nt = True
        self.feat.add('%s%s:%s' % ('post' if post else 'pre', op, t.short))
        n = self.mods[i][0]
        if post:
            return E('(%s%s)' % (n, op), t, v0)
        return E('(%s%s)' % (op, n), t, new)

    # ---- declarations for the generated objects
    def decls_local(self):
        out = []
        for n, v in self.enums:
            out.append('  enum { %s = %s };\n' % (n, ('(-2147483647-1)' if v == -2147483648 else str(v))))
        for n, t, v in self.vars:
            out.append('  volatile %s %s = %s;\n' % (t.name, n, lit(t, v)))
        for n, t, v0, _ in self.mods:
            out.append('  %s %s = %s;\n' % (t.name, n, lit(t, v0)))
        for n, t, w, v0 in self.bfs:
            out.append('  struct { %s f : %d; } %s = { %s };\n' % (t.name, w, n, lit(t, v0)))
        for n, t, vals in self.arrays:
            out.append('  %s %s[8] = {%s};\n' % (t.name, n, ', '.join(lit(t, v) for v in vals)))
        return ''.join(out)
