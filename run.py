#!/usr/bin/env python3
"""Entry point of every registered check.

  python3-vt run.py <Cxx> [--tier quick|thorough]
  python3-vt run.py --replay <file>

exit 0: property held on everything explored (KNOWN-FINDING lines may be printed)
exit 1: at least one line 'VIOLATION property=<id> replay=<path>' was printed
exit 2: could not build the tree / harness self-check failed (never a verdict)
"""
import sys, os, json, time, importlib, argparse, shutil, traceback
sys.path.insert(0, os.path.dirname(os.path.abspath(__file__)))
from vlib import core, regress


def load_check(pid):
    return importlib.import_module('checks.%s' % pid.lower()).CHECK


def do_replay(check, tree, rep, wd):
    if rep.get('generic'):
        return regress.dispatch(tree, rep, wd)
    return check.replay(tree, rep, wd)


def confirm(check, tree, rep, wd, times=3):
    """A failure counts only if it reproduces outside Hypothesis (2 of 3 standalone runs)."""
    hits = 0
    detail = ''
    for i in range(times):
        d = os.path.join(wd, 'confirm%d_%d' % (id(rep) & 0xffff, i)); os.makedirs(d, exist_ok=True)
        try:
            bad, det = do_replay(check, tree, rep, d)
        except Exception:
            bad, det = False, 'replay raised: ' + traceback.format_exc()
        if bad:
            hits += 1; detail = det
        shutil.rmtree(d, ignore_errors=True)
    return hits >= 2, detail


def main():
    ap = argparse.ArgumentParser()
    ap.add_argument('prop', nargs='?')
    ap.add_argument('--tier', default=os.environ.get('VERIF_TIER', 'quick'))
    ap.add_argument('--replay')
    ap.add_argument('--examples', type=int, default=0, help='override the number of hypothesis examples')
    a = ap.parse_args()
    tier = a.tier if a.tier in ('quick', 'thorough') else 'quick'
    t0 = time.time()

    if a.replay:
        rep = json.load(open(a.replay))
        pid = rep['property']
    else:
        pid = a.prop.upper()
    check = load_check(pid)

    try:
        tree = core.build_tree()
    except core.BuildError as e:
        print('cannot build /repo working tree:\n%s' % e, file=sys.stderr)
        sys.exit(2)
    top = os.path.dirname(tree.dir)
    rc = 0
    try:
        if hasattr(check, 'prepare'):
            check.prepare(tree, tier)
        if a.replay:
            d = os.path.join(top, 'replay'); os.makedirs(d)
            bad, det = do_replay(check, tree, rep, d)
            print(det)
            if bad:
                print('VIOLATION property=%s replay=%s' % (pid, os.path.abspath(a.replay)))
                rc = 1
            else:
                print('replay passes: property holds for this case')
            return rc

        viol_lines = []
        known_seen = []
        # 1. replay tier: recorded findings (must still reproduce -> KNOWN-FINDING) and fixed ones (must pass)
        nrep = 0
        for f in core.load_findings(pid):
            rp = os.path.join(core.VERIF, f['replay'])
            rep = json.load(open(rp))
            d = os.path.join(top, 'find_%s' % f['id']); os.makedirs(d, exist_ok=True)
            nrep += 1
            if f['line'].startswith('fixed:'):
                bad, det = do_replay(check, tree, rep, d)
                if bad:
                    bad, det = confirm(check, tree, rep, d)
                if bad:
                    viol_lines.append((rp, 'regression of fixed defect %s: %s' % (f['id'], det)))
            else:
                bad, det = do_replay(check, tree, rep, d)
                if bad:
                    known_seen.append(f['id'])
                    print('KNOWN-FINDING: property=%s %s' % (pid, f['line'].split(' ', 2)[2] if f['line'].count(' ') >= 2 else f['line']))
            shutil.rmtree(d, ignore_errors=True)

        # 2. generated campaign(s)
        stats = core.Stats()
        errs = []
        n = a.examples or check.budget(tier)
        if n > 0:
            parts = check.parts(tier) if hasattr(check, 'parts') else None
            st, viols, errs = core.run_campaign(check, tree, tier, n, parts=parts)
            stats.merge(st)
            seen = set()
            for rep, summ in viols:
                key = rep.get('signature') or core.shash(json.dumps(rep, sort_keys=True))
                if key in seen:
                    continue
                seen.add(key)
                ok, det = confirm(check, tree, rep, top)
                if ok:
                    rep['detail'] = det
                    viol_lines.append((core.write_replay(pid, rep), summ or det))
                else:
                    stats.count('unconfirmed_failures')
        # 3. extra deterministic phases (exhaustive sweeps, native harnesses, fuzz campaigns)
        if hasattr(check, 'extra'):
            for rep, summ in check.extra(tree, tier, stats, top):
                viol_lines.append((core.write_replay(pid, rep), summ))

        if errs:
            for e in errs[:3]:
                print('HARNESS ERROR:\n' + e, file=sys.stderr)
        for path, summ in viol_lines:
            print('VIOLATION property=%s replay=%s' % (pid, path))
            print('  ' + str(summ).replace('\n', '\n  ')[:1500])
        extra = {'known_findings_seen': known_seen, 'findings_replayed': nrep,
                 'harness_errors': len(errs)}
        if hasattr(check, 'evidence_extra'):
            extra.update(check.evidence_extra(tier))
        core.write_evidence(pid, tier, check.level, stats, check.rule, time.time() - t0, len(viol_lines),
                            extra=extra, assumptions=getattr(check, 'assumptions', []),
                            exhaustive=getattr(check, 'exhaustive', None))
        print('%s %s: %d evaluations, %d distinct non-trivial, %d hypothesis examples, %d violations, %.1fs'
              % (pid, tier, stats.evaluations, len(stats.nt), stats.examples, len(viol_lines), time.time() - t0))
        if viol_lines:
            rc = 1
        elif errs and (len(errs) * 2 >= core.NPROC or (n > 0 and stats.examples < 0.5 * n)):
            # the machinery itself is broken: most of the budget was not explored
            rc = 2
        elif errs:
            # a worker stopped early on an error of the harness (not of the property): what was explored held; the shortfall is in the evidence
            print('INCONCLUSIVE: %d of %d workers stopped on a harness error; %d examples were completed' % (len(errs), core.NPROC, stats.examples), file=sys.stderr)
        return rc
    finally:
        shutil.rmtree(top, ignore_errors=True)


if __name__ == '__main__':
    sys.exit(main())
