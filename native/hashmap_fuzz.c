// C17 libFuzzer target: bytes -> operation history on /repo's hashmap.c, reference model checked after every step.
// Build: clang -g -O1 -fsanitize=fuzzer,address,undefined -I<tree> hashmap_fuzz.c <tree>/hashmap.c
#include "chibicc.h"
#include <stdarg.h>
#include <stdint.h>

void error(char *fmt, ...) { va_list ap; va_start(ap, fmt); vfprintf(stderr, fmt, ap); fprintf(stderr, "\n"); __builtin_trap(); }
char *format(char *fmt, ...) { return fmt; }

#define NK 48
static char keys[NK][16]; static int inited;
static uint64_t fnv(const char *s) { uint64_t h = 0xcbf29ce484222325ULL; for (; *s; s++) { h *= 0x100000001b3ULL; h ^= (unsigned char)*s; } return h; }
static void init(void) {
  // 6 groups of 8 keys; inside a group all keys share the low 8 bits of their hash: they collide at every capacity <= 256
  int n = 0;
  for (int g = 0; g < 6; g++) { int found = 0; for (int i = 0; found < 8 && i < 10000000; i++) { char b[16]; sprintf(b, "k%d", i); if ((fnv(b) & 255) == (unsigned)(g * 37 + 5)) { strcpy(keys[n++], b); found++; } } }
  inited = 1;
}

int LLVMFuzzerTestOneInput(const uint8_t *d, size_t n) {
  if (!inited) init();
  HashMap map = {0}; long model[NK] = {0}; int fresh = 0; long nextval = 1;
  for (size_t i = 0; i + 1 < n; i += 2) {
    int op = d[i] % 6, k = d[i + 1] % NK;
    if (op <= 1) { model[k] = nextval; hashmap_put2(&map, keys[k], strlen(keys[k]), (void *)nextval); nextval++; }
    else if (op == 2 || op == 3) { model[k] = 0; hashmap_delete2(&map, keys[k], strlen(keys[k])); }
    else if (op == 4) { int reps = d[i + 1]; for (int r = 0; r < reps; r++) { char *f = malloc(24); sprintf(f, "f%d", fresh++); hashmap_put2(&map, f, strlen(f), (void *)7); if ((long)hashmap_get2(&map, f, strlen(f)) != 7) __builtin_trap(); hashmap_delete2(&map, f, strlen(f)); if (hashmap_get2(&map, f, strlen(f))) __builtin_trap(); free(f); } }
    else { if ((long)hashmap_get2(&map, keys[k], strlen(keys[k])) != model[k]) __builtin_trap(); }
    for (int q = 0; q < NK; q++) if ((long)hashmap_get2(&map, keys[q], strlen(keys[q])) != model[q]) __builtin_trap();
  }
  free(map.buckets);
  return 0;
}
