// C17 native harness: replays operation histories against /repo's hashmap.c and an obviously-correct
// reference (a flat array scanned linearly) after EVERY step.  Built from the tree under test at check time.
//
// Input (stdin or file): a sequence of histories.  Each op is 3 bytes: kind, key-hi, key-lo.
//   kind 0 put  key<-next value, 1 get, 2 delete, 3 churn (put + delete of a never-used key), 4 put2 with a
//   non-NUL-terminated key, 255 = end of history (a fresh map starts).
// Keys: index k < NKEYS selects pool key k (colliding groups, computed by the caller and passed in a key file).
// Output: one line per history: "OK <steps> <rehashes>" or "BAD <history> <step> <what>".
#include "chibicc.h"
#include <stdarg.h>

void error(char *fmt, ...) {
  va_list ap; va_start(ap, fmt);
  fprintf(stdout, "\nABORT "); vfprintf(stdout, fmt, ap); fprintf(stdout, "\n"); fflush(stdout);
  exit(3);
}
char *format(char *fmt, ...) { return fmt; }

#define MAXK 4096
static char *keys[MAXK]; static int nkeys;
static long model[MAXK]; static char present[MAXK];

static int check_all(HashMap *m, int upto) {
  for (int k = 0; k < upto; k++) {
    void *g = hashmap_get2(m, keys[k], strlen(keys[k]));
    long want = present[k] ? model[k] : 0;
    if ((long)g != want) return k;
  }
  return -1;
}

int main(int argc, char **argv) {
  FILE *kf = fopen(argv[1], "r"); char buf[256];
  while (nkeys < MAXK && fgets(buf, sizeof buf, kf)) { buf[strcspn(buf, "\n")] = 0; keys[nkeys++] = strdup(buf); }
  FILE *in = argc > 2 ? fopen(argv[2], "rb") : stdin;
  int hist = 0, step = 0, c; long nextval = 1; int fresh = 0;
  HashMap *m = calloc(1, sizeof(HashMap)); int lastcap = 0, rehash = 0;
  memset(present, 0, sizeof present);
  while ((c = fgetc(in)) != EOF) {
    int hi = fgetc(in), lo = fgetc(in);
    if (c == 255) {
      printf("OK %d %d\n", step, rehash);
      hist++; step = 0; rehash = 0; lastcap = 0; fresh = 0; m = calloc(1, sizeof(HashMap)); memset(present, 0, sizeof present); continue;
    }
    int k = ((hi << 8) | lo) % nkeys;
    step++;
    if (c == 0) { model[k] = nextval; present[k] = 1; hashmap_put2(m, keys[k], strlen(keys[k]), (void *)nextval); nextval++; }
    else if (c == 1) { void *g = hashmap_get2(m, keys[k], strlen(keys[k])); if ((long)g != (present[k] ? model[k] : 0)) { printf("BAD %d %d get(%s)=%ld want %ld\n", hist, step, keys[k], (long)g, present[k] ? model[k] : 0L); return 1; } }
    else if (c == 2) { present[k] = 0; hashmap_delete2(m, keys[k], strlen(keys[k])); }
    else if (c == 3) { char *f = malloc(24); sprintf(f, "fresh_%d_%d", hist, fresh++); hashmap_put2(m, f, strlen(f), (void *)7); if ((long)hashmap_get2(m, f, strlen(f)) != 7) { printf("BAD %d %d fresh key lost\n", hist, step); return 1; } hashmap_delete2(m, f, strlen(f)); if (hashmap_get2(m, f, strlen(f))) { printf("BAD %d %d deleted fresh key still present\n", hist, step); return 1; } }
    else if (c == 4) { char *f = malloc(strlen(keys[k]) + 8); strcpy(f, keys[k]); strcat(f, "TAILXYZ"); model[k] = nextval; present[k] = 1; hashmap_put2(m, f, strlen(keys[k]), (void *)nextval); nextval++; }
    if (m->capacity != lastcap) { if (lastcap) rehash++; lastcap = m->capacity; }
    int bad = check_all(m, nkeys < 256 ? nkeys : 256);
    if (bad >= 0) { printf("BAD %d %d after op %d on %s: key %s reads %ld want %ld\n", hist, step, c, keys[k], keys[bad], (long)hashmap_get2(m, keys[bad], strlen(keys[bad])), present[bad] ? model[bad] : 0L); return 1; }
  }
  printf("OK %d %d\nDONE\n", step, rehash);
  return 0;
}
