// C16 native harness: the harness owns the schedule.  Two processes share one page; process i executes
// operation op[i] (compiled by the compiler under test, linked in through `optab`); the parent single-steps them
// (PTRACE_SINGLESTEP) in the order given by the schedule string of '0'/'1'.
// usage: ptrace_sched <opA> <opB> <init: 16 hex bytes> <schedule>
// output: "mem <32 hex digits> resA <4 longs hex> resB <4 longs hex> steps <n>"
#define _GNU_SOURCE
#include <stdio.h>
#include <stdlib.h>
#include <string.h>
#include <sys/mman.h>
#include <sys/ptrace.h>
#include <sys/wait.h>
#include <sys/user.h>
#include <unistd.h>
#include <signal.h>

extern void (*optab[])(char *obj, long *res);

static void child(void (*op)(char *, long *), char *p, long *res) {
  ptrace(PTRACE_TRACEME, 0, 0, 0);
  __asm__ volatile("int3");
  op(p, res);
  __asm__ volatile("int3");
  _exit(0);
}

static int at_marker(pid_t pid) {
  struct user_regs_struct r;
  ptrace(PTRACE_GETREGS, pid, 0, &r);
  long w = ptrace(PTRACE_PEEKTEXT, pid, (void *)(r.rip - 1), 0);
  return (w & 0xff) == 0xCC;
}

int main(int argc, char **argv) {
  int a = atoi(argv[1]), b = atoi(argv[2]);
  char *sh = mmap(0, 4096, PROT_READ | PROT_WRITE, MAP_SHARED | MAP_ANONYMOUS, -1, 0);
  memset(sh, 0, 4096);
  for (int i = 0; i < 16 && argv[3][2 * i]; i++) { unsigned v; sscanf(argv[3] + 2 * i, "%2x", &v); sh[i] = v; }
  const char *s = argv[4];
  pid_t pid[2]; int done[2] = {0, 0}, st; long steps = 0;
  int idx[2] = {a, b};
  for (int i = 0; i < 2; i++) {
    pid[i] = fork();
    if (!pid[i]) child(optab[idx[i]], sh, (long *)(sh + 64 + 64 * i));
    waitpid(pid[i], &st, 0);           // stopped at the first int3
  }
  while (!(done[0] && done[1])) {
    int who = (*s ? (*s++ - '0') : 0) & 1;
    if (done[who]) who = !who;
    ptrace(PTRACE_SINGLESTEP, pid[who], 0, 0);
    waitpid(pid[who], &st, 0);
    if (++steps > 200000) { printf("LIVELOCK\n"); kill(pid[0], 9); kill(pid[1], 9); return 3; }
    if (WIFEXITED(st) || WIFSIGNALED(st)) { done[who] = 1; continue; }
    if (WSTOPSIG(st) != SIGTRAP) { printf("CRASH signal %d in process %d\n", WSTOPSIG(st), who); kill(pid[0], 9); kill(pid[1], 9); return 4; }
    if (at_marker(pid[who])) { done[who] = 1; ptrace(PTRACE_KILL, pid[who], 0, 0); waitpid(pid[who], &st, 0); }
  }
  printf("mem ");
  for (int i = 0; i < 16; i++) printf("%02x", (unsigned char)sh[i]);
  for (int i = 0; i < 2; i++) { long *r = (long *)(sh + 64 + 64 * i); printf(" res%c %lx %lx %lx %lx", 'A' + i, r[0], r[1], r[2], r[3]); }
  printf(" steps %ld\n", steps);
  return 0;
}
