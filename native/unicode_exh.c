// C11 native harness (exhaustive): every code point 0..0x10FFFF through /repo's unicode.c:
//   encode_utf8 -> expected length and bytes (independent encoder below) -> decode_utf8 round trip;
//   is_ident1 / is_ident2 against the C11 Annex D ranges typed in here independently of unicode.c.
// Prints "OK <n>" or the first few mismatches ("BAD ...").
#include "chibicc.h"
#include <stdarg.h>

void error_at(char *loc, char *fmt, ...) { printf("BAD error_at called: %s\n", fmt); exit(3); }
void error(char *fmt, ...) { printf("BAD error called: %s\n", fmt); exit(3); }

// C11 Annex D.1: ranges of characters allowed in identifiers
static unsigned d1[][2] = {
  {0x00A8,0x00A8},{0x00AA,0x00AA},{0x00AD,0x00AD},{0x00AF,0x00AF},{0x00B2,0x00B5},{0x00B7,0x00BA},{0x00BC,0x00BE},{0x00C0,0x00D6},
  {0x00D8,0x00F6},{0x00F8,0x00FF},{0x0100,0x167F},{0x1681,0x180D},{0x180F,0x1FFF},{0x200B,0x200D},{0x202A,0x202E},{0x203F,0x2040},
  {0x2054,0x2054},{0x2060,0x206F},{0x2070,0x218F},{0x2460,0x24FF},{0x2776,0x2793},{0x2C00,0x2DFF},{0x2E80,0x2FFF},{0x3004,0x3007},
  {0x3021,0x302F},{0x3031,0x303F},{0x3040,0xD7FF},{0xF900,0xFD3D},{0xFD40,0xFDCF},{0xFDF0,0xFE44},{0xFE47,0xFFFD},
  {0x10000,0x1FFFD},{0x20000,0x2FFFD},{0x30000,0x3FFFD},{0x40000,0x4FFFD},{0x50000,0x5FFFD},{0x60000,0x6FFFD},{0x70000,0x7FFFD},
  {0x80000,0x8FFFD},{0x90000,0x9FFFD},{0xA0000,0xAFFFD},{0xB0000,0xBFFFD},{0xC0000,0xCFFFD},{0xD0000,0xDFFFD},{0xE0000,0xEFFFD},
};
// C11 Annex D.2: ranges of characters disallowed initially
static unsigned d2[][2] = { {0x0300,0x036F},{0x1DC0,0x1DFF},{0x20D0,0x20FF},{0xFE20,0xFE2F} };

static int in(unsigned t[][2], int n, unsigned c) { for (int i = 0; i < n; i++) if (t[i][0] <= c && c <= t[i][1]) return 1; return 0; }

static int ref_encode(unsigned char *b, unsigned c) {
  if (c < 0x80) { b[0] = c; return 1; }
  if (c < 0x800) { b[0] = 0xC0 | (c >> 6); b[1] = 0x80 | (c & 63); return 2; }
  if (c < 0x10000) { b[0] = 0xE0 | (c >> 12); b[1] = 0x80 | ((c >> 6) & 63); b[2] = 0x80 | (c & 63); return 3; }
  b[0] = 0xF0 | (c >> 18); b[1] = 0x80 | ((c >> 12) & 63); b[2] = 0x80 | ((c >> 6) & 63); b[3] = 0x80 | (c & 63); return 4;
}

int main(void) {
  int bad = 0; long n = 0;
  for (unsigned c = 0; c <= 0x10FFFF; c++) {
    n++;
    int basic1 = (c >= 'a' && c <= 'z') || (c >= 'A' && c <= 'Z') || c == '_' || c == '$';
    int basic2 = basic1 || (c >= '0' && c <= '9');
    int want1 = basic1 || (c >= 0x80 && in(d1, sizeof d1 / sizeof *d1, c) && !in(d2, sizeof d2 / sizeof *d2, c));
    int want2 = basic2 || (c >= 0x80 && in(d1, sizeof d1 / sizeof *d1, c));
    if (!!is_ident1(c) != want1) { if (bad++ < 5) printf("BAD is_ident1(U+%04X) = %d, Annex D says %d\n", c, is_ident1(c), want1); }
    if (!!is_ident2(c) != want2) { if (bad++ < 5) printf("BAD is_ident2(U+%04X) = %d, Annex D says %d\n", c, is_ident2(c), want2); }
    if (c == 0) continue;
    char buf[8] = {0}; unsigned char ref[8] = {0};
    int len = encode_utf8(buf, c), rlen = ref_encode(ref, c);
    if (len != rlen || memcmp(buf, ref, rlen)) { if (bad++ < 5) printf("BAD encode_utf8(U+%04X): %d bytes %02x%02x%02x%02x, expected %d bytes %02x%02x%02x%02x\n", c, len, (unsigned char)buf[0], (unsigned char)buf[1], (unsigned char)buf[2], (unsigned char)buf[3], rlen, ref[0], ref[1], ref[2], ref[3]); continue; }
    char *np; unsigned back = decode_utf8(&np, buf);
    if (back != c || np != buf + len) { if (bad++ < 5) printf("BAD decode_utf8(encode(U+%04X)) = U+%04X, consumed %d of %d\n", c, back, (int)(np - buf), len); }
  }
  if (bad) { printf("BAD total %d\n", bad); return 1; }
  printf("OK %ld\n", n);
  return 0;
}
