#define _GNU_SOURCE
#include <dlfcn.h>
#include <stdio.h>
#include <stdlib.h>
#include <unistd.h>
int mkstemp(char *t){ int (*real)(char*) = dlsym(RTLD_NEXT,"mkstemp"); int fd = real(t); char *l=getenv("VERIF_TMPLOG"); if(l){ FILE*f=fopen(l,"a"); if(f){ fprintf(f,"mkstemp %d %s\n",getpid(),t); fclose(f);} } return fd; }
