#!/bin/sh
# setup_cmd: nothing to fetch; verify the tools the checks rely on are present.
set -e
python3-vt -c "import hypothesis, jsonschema" 
for t in gcc clang make as ld; do command -v $t >/dev/null || { echo "missing $t"; exit 1; }; done
mkdir -p evidence replays
echo setup ok
