#!/usr/bin/env python3
"""addknown.py <prop> <id> "<what fails>" <dir/demo.sh>
Record a known finding whose replay is a demo script (exit 1 = the defect is present)."""
import sys, os, json
V = os.path.dirname(os.path.dirname(os.path.abspath(__file__)))
prop, fid, text, demo = sys.argv[1:5]
d = os.path.dirname(os.path.abspath(demo))
fl = {}
for root, _, names in os.walk(d):
    for n in names:
        q = os.path.join(root, n); rel = os.path.relpath(q, d)
        if rel in ('demo.sh', 'README.md') or os.path.getsize(q) > 20000:
            continue
        fl[rel] = open(q, encoding='latin1').read()
rep = {'property': prop, 'kind': 'script', 'generic': True, 'script': open(demo, encoding='latin1').read(), 'files': fl, 'finding': fid}
rp = 'findings/%s-%s.json' % (prop, fid)
json.dump(rep, open(os.path.join(V, rp), 'w'), indent=1)
kf = os.path.join(V, 'known_findings.json')
fs = [f for f in json.load(open(kf)) if not (f['property'] == prop and f['id'] == fid)]
fs.append({'line': 'known: property=%s %s %s' % (prop, fid, text), 'property': prop, 'id': fid, 'replay': rp})
fs.sort(key=lambda f: (f['property'], f['line'].startswith('fixed:'), f['id']))
json.dump(fs, open(kf, 'w'), indent=1)
print('recorded known', prop, fid)
