#!/usr/bin/env python3
"""install_port.py <report-root> [ids...]: install re-ported seeded patches (<root>/<id>/patch.new.diff, PORT.txt, possibly adjusted demo files)
into seeded/<id>/; the patch as first written stays as patch.orig.diff."""
import sys, os, json, shutil, subprocess
V = os.path.dirname(os.path.dirname(os.path.abspath(__file__)))
root = sys.argv[1]; ids = sys.argv[2:] or sorted(os.listdir(root))
head = subprocess.run(['git', '-C', '/repo', 'rev-parse', '--short', 'HEAD'], capture_output=True, text=True).stdout.strip()
for sid in ids:
    src = os.path.join(root, sid); dst = os.path.join(V, 'seeded', sid)
    new = os.path.join(src, 'patch.new.diff')
    if not os.path.isdir(dst) or not os.path.exists(new):
        continue
    if not os.path.exists(os.path.join(dst, 'patch.orig.diff')):
        shutil.copy(os.path.join(dst, 'patch.diff'), os.path.join(dst, 'patch.orig.diff'))
    shutil.copy(new, os.path.join(dst, 'patch.diff'))
    for n in os.listdir(src):
        if n in ('patch.new.diff', 'patch.diff', 'patch.orig.diff', 'CHANGE.txt', 'PORT.txt', 'meta.json') or os.path.isdir(os.path.join(src, n)):
            continue
        a = os.path.join(src, n); b = os.path.join(dst, n)
        if not os.path.exists(b) or open(a, 'rb').read() != open(b, 'rb').read():
            shutil.copy(a, b); print('  %s: %s updated' % (sid, n))
    m = json.load(open(os.path.join(dst, 'meta.json')))
    port = open(os.path.join(src, 'PORT.txt')).read().strip() if os.path.exists(os.path.join(src, 'PORT.txt')) else ''
    m['ported'] = {'to_repo_head': head, 'by': 'a sub-agent given the original patch, its demonstration and a scratch worktree', 'note': port[:600]}
    json.dump(m, open(os.path.join(dst, 'meta.json'), 'w'), indent=1)
    print('installed', sid)
