#!/usr/bin/env python3
"""adddef.py <commit|HEAD> <prop> <id> <kind: D|CPP|R|POS:<line>|X:<chi-file>> "<what failed>" <file> [more files for X / INC]
Append a regression case to regress/defs.py with the file contents inlined."""
import sys, os, subprocess
V = os.path.dirname(os.path.dirname(os.path.abspath(__file__)))
commit, prop, fid, kind, text = sys.argv[1:6]; files = sys.argv[6:]
if commit == 'HEAD':
    commit = subprocess.run(['git', '-C', '/repo', 'rev-parse', '--short', 'HEAD'], capture_output=True, text=True).stdout.strip()
src = open(files[0], encoding='latin1').read()
if kind == 'D':
    body = 'D(%r)' % src
elif kind.startswith('DL'):
    body = 'dict(D(%r), extra=%r)' % (src, kind.split(':')[1].split(','))
elif kind == 'CPP':
    body = 'CPP(%r)' % src
elif kind == 'CPPL':
    body = "{'kind': 'cpplines', 'generic': True, 'source': %r}" % src
elif kind == 'R':
    body = 'R(%r)' % src
elif kind.startswith('POS'):
    body = 'POS(%r, %r)' % (src, [int(x) for x in kind.split(':')[1].split(',')])
elif kind == 'SH':
    import glob
    d = os.path.dirname(os.path.abspath(files[0]))
    fl = {}
    for root, _, names in os.walk(d):
        for n in names:
            q = os.path.join(root, n)
            rel = os.path.relpath(q, d)
            if rel in ('demo.sh', 'README.md') or os.path.getsize(q) > 20000:
                continue
            fl[rel] = open(q, encoding='latin1').read()
    body = "{'kind': 'script', 'generic': True, 'script': %r, 'files': %r}" % (src, fl)
elif kind.startswith('X'):
    chi = kind.split(':')[1].split(',')
    body = 'X(%r, %r)' % ({os.path.basename(f): open(f).read() for f in files}, chi)
else:
    raise SystemExit('unknown kind')
p = os.path.join(V, 'regress', 'defs.py'); s = open(p).read().rstrip()
assert s.endswith(']')
s = s[:-1] + ' (%r, %r, %r, %r,\n  %s),\n]\n' % (commit, prop, fid, text, body)
open(p, 'w').write(s)
print('added', prop, fid, commit)
