#!/usr/bin/env python3
"""Write findings/<prop>-<id>.json and the 'fixed:' entries of known_findings.json from regress/defs.py."""
import sys, os, json
V = os.path.dirname(os.path.dirname(os.path.abspath(__file__)))
sys.path.insert(0, V); sys.path.insert(0, os.path.join(V, 'regress'))
import defs
kf = os.path.join(V, 'known_findings.json')
fs = [f for f in json.load(open(kf)) if not f['line'].startswith('fixed:')]
for commit, prop, fid, text, rep in defs.FIXED:
    rep = dict(rep)
    if rep['kind'] == 'stress-member':
        from checks import c16
        src = dict(c16.stress_programs(200000))['i32-member']
        rep = {'kind': 'stress', 'source': src, 'runs': 6}
    rep['property'] = prop; rep['finding'] = fid; rep['fixed_by'] = commit
    rp = 'findings/%s-%s.json' % (prop, fid)
    json.dump(rep, open(os.path.join(V, rp), 'w'), indent=1)
    fs.append({'line': 'fixed: property=%s %s %s %s' % (prop, commit, fid, text), 'property': prop, 'id': fid, 'replay': rp, 'commit': commit})
fs.sort(key=lambda f: (f['property'], f['line'].startswith('fixed:'), f['id']))
json.dump(fs, open(kf, 'w'), indent=1)
print('%d entries (%d fixed)' % (len(fs), sum(f['line'].startswith('fixed:') for f in fs)))
