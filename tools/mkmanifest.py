#!/usr/bin/env python3
"""Regenerate MANIFEST.json from tools/checks_table.py (checks that exist) + properties.jsonl."""
import json, os, sys
V = os.path.dirname(os.path.dirname(os.path.abspath(__file__)))
sys.path.insert(0, os.path.join(V, 'tools'))
from checks_table import BUILT, ENGINES
props = [json.loads(l) for l in open(os.path.join(V, 'properties.jsonl'))]


def cmd(pid, tier):
    return 'python3-vt run.py %s --tier %s' % (pid, tier)

checks = []
for p in props:
    pid = p['id']
    if pid not in BUILT:
        continue
    b = BUILT[pid]
    checks.append({
        'property_id': pid, 'quick_cmd': cmd(pid, 'quick'), 'thorough_cmd': cmd(pid, 'thorough'),
        'evidence_file': 'evidence/%s.json' % pid, 'replay_cmd_template': 'python3-vt run.py --replay {path}',
        'engine': b.get('engine', 'hypothesis'), 'technique': b['technique'],
        'level_claimed': {'category': b['level'], 'text': b['text'], 'design_ref': 'DESIGN.md section 4 ' + pid},
        'level_note': b['note']})
engines = []
for e in ENGINES:
    e = dict(e)
    e['serves_properties'] = sorted(p for p in BUILT if BUILT[p].get('engine', 'hypothesis') == e['name'] or e['name'] in BUILT[p].get('also', []))
    engines.append(e)
m = {
 'version': 1,
 'setup_cmd': 'sh setup.sh',
 'hooks': {'guard': 'CHIBICC_VERIF', 'enable': 'none needed: every observation point is outside the process (no source hooks in /repo)',
           'baseline_off_cmd': 'make -C /repo test', 'source_commits': [], 'add_only': True},
 'engines': engines,
 'checks': checks,
 'notes': 'See DESIGN.md. Genuine defects repaired in /repo as fix: commits are listed in known_findings.json (fixed:) and notes/fix-commits.txt.',
 'not_applicable': [{'property_id': p['id'], 'reason': 'check not built yet (work in progress; planned design in DESIGN.md section 4)'} for p in props if p['id'] not in BUILT],
}
json.dump(m, open(os.path.join(V, 'MANIFEST.json'), 'w'), indent=1)
print('checks:', [c['property_id'] for c in checks])
