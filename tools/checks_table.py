"""Per-check metadata for MANIFEST.json (only checks that exist and have been run clean)."""
ENGINES = [
 {'name': 'hypothesis', 'path': 'run.py + vlib/ + checks/', 'kind_free_text': 'Hypothesis 6.168 (python3-vt) drives every generator through vlib.core.Chooser; 16 worker processes; shrinking + replay files'},
 {'name': 'ptrace-scheduler', 'path': 'native/ptrace_sched.c', 'kind_free_text': 'own PTRACE_SINGLESTEP tracer: the harness owns the interleaving of two processes executing chibicc-compiled atomic operations'},
 {'name': 'libfuzzer', 'path': 'native/hashmap_fuzz.c (built per run with clang -fsanitize=fuzzer,address,undefined against the tree under test)', 'kind_free_text': 'coverage-guided fuzzing of hashmap.c with the dictionary oracle inside the target'},
]
BUILT = {
 'C01': dict(
  technique='property-based differential testing (Hypothesis-generated typed expression trees; integer reference model cross-checked by gcc+clang) + exhaustive operator x type-pair x boundary-value sweep',
  level='exploration',
  text='Generated-input search: every case is a UB-free integer expression with a model-predicted value/size/signedness, placed in one of 7 contexts; chibicc must print what the model, gcc and clang all print. The sweep visits all 81 type pairs x 18 binary operators (+ op= forms) x boundary values exhaustively. Absence of violations is evidence, not proof.',
  note='trusts gcc 12/clang 14 at -O0 and the Python integer model (model/gcc disagreement discards the case, never raises an alarm)'),
 'C07': dict(
  technique='property-based metamorphic + differential testing (constant context vs run-time twin in one program; model; gcc+clang consensus) + enumerated negative cases',
  level='exploration',
  text='Each generated constant expression is placed in 11 constant contexts next to its run-time twin; chibicc-compiled output must equal model, gcc and clang. 108 undefined constant expressions x contexts must be diagnosed with file:line, never crash.',
  note='trusts gcc/clang constant folding and the integer model; floating constant expressions are compared only through reference consensus'),
 'C02': dict(
  technique='property-based differential testing: Hypothesis-generated conversions/operators/nested expressions/literals over special-value pools entered through bit patterns; raw result bits vs gcc+clang consensus; exact rational definedness predicate',
  level='exploration',
  text='All 12x12 conversion pairs in 5 syntactic forms, every fp/mixed operator, truth context, op=, ++/--, nested expressions, decimal and hex constants and variadic promotion are generated over pools of boundary-class bit patterns; chibicc must produce the bit-identical result of gcc and clang.',
  note='trusts gcc/clang IEEE/x87 code generation at -O0; NaN payloads canonicalised; decimal constants whose correctly-rounded value differs from two-step rounding are excluded (C11 6.4.4.2p3 allows either)'),
 'C03': dict(
  technique='property-based differential testing: Hypothesis-generated statement skeletons with trace markers and shadowing programs; printed execution trace vs gcc+clang consensus',
  level='exploration',
  text='Random nestings of every statement form (switch over 10 controlling types with negative/wide/range cases, Duff shapes, goto, computed goto, do-continue, short-circuit, statement expressions) and shadowing programs over object/typedef/enumerator/tag/label name spaces; the trace printed by the chibicc build must equal the references.',
  note='trusts gcc/clang for the GNU extensions used; depth bounded (3 quick, 4 thorough)'),
 'C08': dict(
  technique='property-based differential testing (Hypothesis-generated struct/union definitions and declarator nests; sizeof/_Alignof/offsetof/bit-field images vs gcc+clang consensus) + exhaustive enumeration of all type-specifier permutations',
  level='exploration',
  text='All 1778 spellings of the 30 specifier multisets (with qualifiers/storage classes at every position) are enumerated exhaustively; random declarator nests and random struct/union definitions with bit-fields, zero-width/unnamed fields, packed/aligned/_Alignas, anonymous members and nesting are compared member by member against the two psABI reference compilers.',
  note='trusts gcc/clang psABI layout; packed aggregates containing bit-fields or _Alignas members are excluded by construction while D12b/D12c are recorded findings (counted in evidence)'),
 'C04': dict(
  technique='property-based differential testing: Hypothesis-generated aggregate types x lvalue-path operation sequences with full member-wise dumps and canaries after every step; VLA/alloca histories with in-program overlap/alignment invariants; gcc+clang consensus',
  level='exploration',
  text='Random aggregate types (bit-fields of every base type/width, nested/anonymous members, unions, arrays) in five storage kinds are driven by generated sequences of stores, op=, ++/--, copies and whole/sub-aggregate assignments through all lvalue spellings; every named leaf and the surrounding canaries are dumped after every step and must equal both references. VLA/alloca histories (incl. run-time row sizes and alloca under pending temporaries) check disjointness, content and alignment of all live blocks.',
  note='trusts gcc/clang; objects are memset first so no indeterminate byte is printed; packed+bit-field/_Alignas (D12b/D12c) and _Alignas(N>16) automatic objects (D59) excluded by construction and counted'),
 'C05': dict(
  technique='property-based model-based + differential + metamorphic testing: Hypothesis-driven 6.7.9 stack-machine generator of (type, valid initializer, model of object value); static == static-local == automatic == compound literal == model == gcc == clang',
  level='exploration',
  text='A type and a valid initializer for it are drawn together with the value 6.7.9 prescribes (designators incl. nested/out-of-order/resumption, brace elision, strings, unions, unknown bounds, unnamed bit-fields, address constants with offsets through member/array paths). The same text initialises objects of all four storage kinds (automatic ones in a frame dirtied with 0xAA); every dump must equal the model and both references.',
  note='trusts the Python model only when gcc and clang both agree with it; D54 (re-initialising an aggregate with a braced list merges; pinned by the suite) recorded and excluded by construction'),
 'C09': dict(
  technique='property-based differential testing: Hypothesis-generated macro definition sets + invocation texts (valid by construction); pp-token sequence of chibicc -E vs consensus of gcc -E -P and clang -E -P; termination limit',
  level='exploration',
  text='Definition sets over a 7-name pool (frequent self/mutual recursion), object- and function-like macros, #, ## (also in object-like bodies, invocations as right operands), all variadic forms, redefinition/#undef histories and invocations with nested calls, empty arguments, parenthesised commas and line breaks; the emitted token sequence must equal both references and preprocessing must terminate.',
  note='trusts gcc/clang preprocessors where they agree; strings from # compared modulo white space only when the operand can hold expanded material; D25, D27 excluded by construction and D56 by its diagnostic (all recorded, counted)'),
 'C10': dict(
  technique='property-based model-based + differential testing: Hypothesis-generated conditional trees (controlling expressions from the integer model in intmax_t/uintmax_t mode) and include graphs over generated directory trees with permuted search options; marker sequence vs model and gcc+clang consensus',
  level='exploration',
  text='Conditional trees with model-predicted outcomes (exact #if arithmetic, defined, undefined identifiers, unevaluated operands, skipped groups full of junk, trailing tokens) and include graphs (same-named headers across includer dir/-I/-idirafter, 10 guard shapes, #pragma once, macro-expanded and #include_next forms, -include/-D/-U histories) must yield the marker sequence both references produce.',
  note='trusts gcc/clang textual inclusion semantics; #include_next restricted to the shape D31 (recorded) does not affect'),
 'C18': dict(
  technique='property-based model-based testing: Hypothesis-generated files as sequences of line items with probes; expected physical line/file counted by the generator (cross-checked by gcc+clang); observed through -E (__LINE__/__FILE__), -S (.loc records) and the location of a deliberately provoked diagnostic',
  level='exploration',
  text='Files with blank lines, comments spanning lines, splices between and inside tokens and comments, multi-line defines, nested includes, #line, CR/LF and filler pushing them across read-buffer boundaries; every __LINE__/__FILE__ probe (direct and through macros), every .loc record of a marker call and the line of a provoked diagnostic must equal the physical position the generator counted.',
  note='model trusted only where gcc and clang confirm it; probes on continuation lines (D40) and absolute line values after #line (D48) excluded, both recorded'),
 'C19': dict(
  technique='exhaustive enumeration of token-pair x expansion-boundary adjacency table (re-lex of -E output vs reference token sequence; E(E(x))==E(x)) + property-based metamorphic round trips on Hypothesis-generated macro-ised programs (S(x)==S(E(x)), E idempotent)',
  level='exploration',
  text='All ordered pairs of 62 token spellings x 9 boundary forms (25 k cases) are enumerated exhaustively; in addition generated valid programs are re-spaced densely and macro-ised (token runs, identity wrappers, empty macros, no white space where the source stays unambiguous) and must compile to the same assembly from their -E output, which must be a fixpoint of -E.',
  note='the finite adjacency sub-space is covered completely for the chosen alphabet; programs are sampled; gcc/clang -E -P token sequences are the reference for the table'),
 'C06': dict(
  technique='property-based differential testing across the ABI boundary: Hypothesis-generated signatures, each linked four ways (chibicc/gcc as caller and callee) against a (gcc,gcc) reference confirmed by (clang,gcc); leaf-wise parameter/return logs, stack-alignment probe, assembly trampoline checking callee-saved registers',
  level='exploration',
  text='Signatures with register-exhausting fillers, scalars of all classes, by-value struct/union parameters and returns of every eightbyte class mix (incl. bit-fields, nested, arrays), long double, variadic walks (incl. named aggregates and stack-passed named parameters), calls as arguments and under pending temporaries; every link-up must log exactly what the all-gcc build logs, with rsp 16-aligned at the call and rbx/rbp/r12-r15 preserved.',
  note='trusts gcc/clang psABI conformance; D17, D18, D73 recorded and excluded by construction (counted)'),
 'C13': dict(
  technique='mutation-based fuzzing driven by Hypothesis (shrinkable edit lists): token-, line-, bracket- and byte-level mutants of repository tests, compiler sources, per-diagnostic-site triggers, valid programs and freshly generated preprocessor programs; out-of-process cc1 under rlimits; oracle on wait status, assembler acceptance and diagnostic location',
  level='exploration',
  text='About 90 k mutants per quick run (2 M thorough) are fed to `chibicc -cc1` directly; each must yield assembly that `as` accepts or exit status 1 with a `file:line:` diagnostic inside the input; signals, assertions, internal errors, other statuses, silence and confirmed hangs are violations. All 97 per-site triggers and a set of valid programs are also run unmutated (valid ones must be accepted).',
  note='neighbourhood-of-seeds exploration, not all byte strings; inline asm excluded; D34 (huge aggregate arrays with initializers exhaust memory) recorded and excluded by input shape'),
 'C17': dict(
  technique='model-based stateful property testing (Hypothesis-generated put/get/delete/churn histories over hash-colliding keys, replayed by a native driver built from the tree against a flat-array reference after every step) + coverage-guided libFuzzer (ASan/UBSan) with the oracle in the target + end-to-end #define/#undef/-D/-U histories vs a dict model and gcc/clang + generated block-scope / prototype-scope declaration histories over colliding identifiers vs a stack-of-dicts model',
  level='exploration',
  text='hashmap.c of the tree under test is exercised in-process with histories over 60 keys that collide at every capacity reached (put after delete in one collision group, rehash with live tombstones, churn bursts of 700 fresh keys, non-terminated keys), all keys re-queried after every step; the same command language is fuzzed coverage-guided; macro-table histories (incl. redefinition of the predefined dynamic macros) are checked end to end.',
  note='the reference dictionaries are trivially correct; libFuzzer seeds pin a campaign only approximately (the crash artefact is the replay unit)',
  also=['libfuzzer']),
 'C20': dict(
  technique='property-based invariant testing: Hypothesis-generated (form, types, values, repetition count) tuples; assembly probes read rsp and the x87 TOP/tag word from the same frame before and after N evaluations; results and a follow-up long double computation compared with gcc+clang',
  level='exploration',
  text='About 45 expression/statement forms in discard and value contexts over 16 operand types (long double and by-value structs included), evaluated up to 100000 times between two probes: rsp must be unchanged (alloca: bounded), the x87 stack unchanged and empty, a long double computation afterwards must give the reference value.',
  note='invariants are observed through gcc-assembled probes; D45 (more than 8 pending long double temporaries) recorded, generator nests at most 3'),
 'C11': dict(
  technique='exhaustive enumeration (integer constant spellings at every typing threshold; all 1,114,112 code points through unicode.c in a native harness against an independently typed Annex D table) + property-based model-based/differential testing of generated string/character literals and Unicode identifiers + metamorphic BOM/CR-LF/line-splice transformations',
  level='exploration',
  text='2280 integer constant spellings (4 bases x 23 suffixes x threshold magnitudes) and every Unicode code point are covered exhaustively; string and character literals of all five prefixes with raw UTF-8, every escape form, UCNs, escaped backslashes, concatenation and prefix mixes are generated with a Python encoder as model and compared with gcc and clang; every generated program must print the same after inserting a BOM, CR/LF line ends and backslash-newlines at arbitrary byte positions.',
  note='finite sub-spaces (integer spellings for the chosen magnitudes, unicode.c over all code points) are exhaustive; literal contents are sampled'),
 'C12': dict(
  technique='property-based differential/metamorphic testing between bootstrap stages: stage1 (host-built) vs stage2 (self-built) on Hypothesis-generated (input, option set) pairs, stage1 vs itself under setarch -R and a padded environment, and exhaustive stage2 == stage3 on the compiler sources',
  level='exploration',
  text='Three stages are built from the tree under test and run as ./chibicc from directories with identical contents. Inputs from the compiler sources, repository tests, nine program generators, two preprocessor generators and the C13 mutator, under 16 option shapes (-S/-E/-c/-fPIC/-f(no-)common/-D/-U/-I/-include/-idirafter/-M family): exit status, stdout, stderr and every output file must be byte-identical between stage1 and stage2 and between two runs of stage1; stage2 and stage3 must emit identical assembly for all nine sources.',
  note='equality is observed on sampled inputs, not derived; object files are compared after stripping debug sections (the assembler records its working directory); signal deaths are skipped (C13 territory)'),
 'C15': dict(
  technique='property-based differential testing of multi-unit programs: Hypothesis-generated declaration sequences and inline call graphs, linked in five configurations; program output (incl. a second thread for thread-local objects) and per-object symbol tables (readelf) vs gcc confirmed by clang',
  level='exploration',
  text='1-3 translation units with repeated/tentative/extern/static/thread-local object declarations (also at block scope), plain/static/static inline/extern inline functions with drawn call graphs, function-pointer initializers before or after definitions and redeclarations; built as default, -fno-common, -fPIC, -fPIC + shared library and -static; outputs from the main thread and a second thread and the external symbol tables / set of emitted static inline functions must match both references.',
  note='trusts gcc/clang linkage semantics and -O0 inline emission; D58 recorded (non-PIC access to TLS in a shared library), the shared configuration builds main with -fPIC'),
 'C14': dict(
  technique='exhaustive fault enumeration against a model of the driver contract (command shapes x input kinds x single injected failure point, faults injected through PATH/argv[0] shims and observed through an LD_PRELOAD mkstemp logger) + Hypothesis-generated concurrent driver bundles compared with their solo runs',
  level='fault_enumeration',
  text='Every command shape (-E/-S/-c/link, with/without -o, 1-3 inputs of six kinds) is run with every single point of failure of its subprocess pipeline (k-th cc1, k-th as, ld; exit status or signal; unwritable output): exit status, exactly-the-right outputs, untouched outputs of failed units and removal of every temporary are checked against a 60-line model (20 k combinations quick, all 30 k thorough). Concurrent bundles of 2-12 drivers in one directory must each behave as when run alone.',
  note='the enumerated space is finite and complete in the thorough tier (quick thins permutations of three distinct input kinds); kernel-level interleavings of concurrent drivers are sampled, not controlled'),
 'C16': dict(
  technique='schedule-controlled property-based testing: Hypothesis draws pairs of atomic operations and an instruction-level schedule; a ptrace tracer single-steps two processes sharing the object through the chibicc-emitted code; linearizability oracle from a Python model (cross-checked on gcc-compiled code) + real-thread contended stress with linearisation-independent invariants',
  level='exploration',
  text='The harness owns the schedule: operation pairs over every integer width, _Bool, pointers, float and double, reached through pointer/member/index paths, are single-stepped in a drawn order; the final value and both results must match one of the two sequential orders (which also checks CAS failure write-back, exchange and op= values). 23 stress programs with 4 threads check invariants that hold under every linearisation (the layer that can see a missing lock prefix).',
  note='layer A assumes one instruction is indivisible; two-operation histories only; stress results are probabilistic; not a proof over all interleavings',
  also=['ptrace-scheduler']),
}
