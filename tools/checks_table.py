"""Per-check metadata for MANIFEST.json (only checks that exist and have been run clean)."""
ENGINES = [
 {'name': 'hypothesis', 'path': 'run.py + vlib/ + checks/', 'kind_free_text': 'Hypothesis 6.168 (python3-vt) drives every generator through vlib.core.Chooser; 16 worker processes; shrinking + replay files'},
]
BUILT = {
 'C01': dict(
  technique='property-based differential testing (Hypothesis-generated typed expression trees; integer reference model cross-checked by gcc+clang) + exhaustive operator x type-pair x boundary-value sweep',
  level='exploration',
  text='Generated-input search: every case is a UB-free integer expression with a model-predicted value/size/signedness, placed in one of 7 contexts; chibicc must print what the model, gcc and clang all print. The sweep visits all 81 type pairs x 18 binary operators (+ op= forms) x boundary values exhaustively. Absence of violations is evidence, not proof.',
  note='trusts gcc 12/clang 14 at -O0 and the Python integer model (model/gcc disagreement discards the case, never raises an alarm); postfix ++/-- on _Bool excluded while it is a recorded finding'),
 'C07': dict(
  technique='property-based metamorphic + differential testing (constant context vs run-time twin in one program; model; gcc+clang consensus) + enumerated negative cases',
  level='exploration',
  text='Each generated constant expression is placed in 11 constant contexts next to its run-time twin; chibicc-compiled output must equal model, gcc and clang. 108 undefined constant expressions x contexts must be diagnosed with file:line, never crash.',
  note='trusts gcc/clang constant folding and the integer model; floating constant expressions are compared only through reference consensus'),
}
