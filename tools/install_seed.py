#!/usr/bin/env python3
"""install_seed.py <json: id -> [change, needs]> <out-root>: copy sub-agent deliveries <out-root>/<Cxx>/m<k>/ to seeded/<Cxx>-m<k>/ with a meta.json"""
import sys, os, json, shutil, subprocess
V = os.path.dirname(os.path.dirname(os.path.abspath(__file__)))
desc = json.load(open(sys.argv[1])); root = sys.argv[2]
head = subprocess.run(['git', '-C', '/repo', 'rev-parse', '--short', 'HEAD'], capture_output=True, text=True).stdout.strip()
for sid, (change, needs) in sorted(desc.items()):
    prop, m = sid.split('-')
    src = os.path.join(root, prop, m); dst = os.path.join(V, 'seeded', sid)
    if os.path.exists(dst):
        shutil.rmtree(dst)
    shutil.copytree(src, dst)
    meta = {'id': sid, 'property': prop, 'change': change, 'needs_to_manifest': needs, 'round': 2,
            'origin': 'written by a fresh sub-agent that saw only the property record and a scratch worktree of /repo (nothing from /verif)',
            'confirmed': {'how': 'tools/confirm_seed.sh <dir>: scratch copies of /repo HEAD; patched tree builds, `make test` passes, demo.sh exits non-zero; clean tree: demo.sh exits 0',
                          'repo_head_when_written': 'ea8f8d2'},
            'detected_by': 'not run yet'}
    json.dump(meta, open(os.path.join(dst, 'meta.json'), 'w'), indent=1)
    print('installed', sid)
