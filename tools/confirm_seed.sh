#!/bin/bash
# usage: confirm_seed.sh <dir-with-patch.diff-and-demo.sh>   -> prints one status line
# Confirms a seeded change in scratch copies of /repo HEAD (never touches /repo):
#  patched tree: builds, `make test` passes, demo.sh exits non-zero;  clean tree: demo.sh exits 0.
d=$(cd "$1" && pwd); name=$(basename $(dirname $d))-$(basename $d)
w=$(mktemp -d /var/tmp/seedconf.XXXXXX)
mkdir -p $w/clean $w/mut
(cd /repo && git ls-files | tar -c -T - | tar -x -C $w/clean)
cp -a $w/clean/. $w/mut/
(cd $w/mut && patch -p1 -s < $d/patch.diff) >/dev/null 2>&1 || { echo "$name APPLY-FAILED"; rm -rf $w; exit 1; }
(cd $w/clean && make -j8 chibicc >/dev/null 2>&1) || { echo "$name CLEAN-BUILD-FAILED"; rm -rf $w; exit 1; }
(cd $w/mut && make -j8 chibicc >/dev/null 2>&1) || { echo "$name MUT-BUILD-FAILED"; rm -rf $w; exit 1; }
(cd $w/mut && make -j8 test >/dev/null 2>&1); t=$?
(cd $d && timeout 300 bash ./demo.sh $w/mut >/dev/null 2>&1); dm=$?
(cd $d && timeout 300 bash ./demo.sh $w/clean >/dev/null 2>&1); dc=$?
echo "$name make-test-with-patch=$t demo-with-patch=$dm demo-clean=$dc"
rm -rf $w
