#!/usr/bin/env python3-vt
"""Regenerate the generated blocks of DESIGN.md: section 4a (as-built table, from the check modules and the committed
evidence) and the seeded-change table of section 7 (from seeded/*/meta.json)."""
import sys, os, json, importlib, re
V = os.path.dirname(os.path.dirname(os.path.abspath(__file__)))
sys.path.insert(0, V)
DEV = {
 'C01': 'as designed; the sweep uses 11 boundary values per type in the quick tier and the full pools in the thorough tier',
 'C02': 'as designed, without the planned UBSan build of the references (definedness decided exactly by the model)',
 'C03': 'as designed',
 'C04': 'the Python shadow map was not built: leaf dumps are compared with the gcc == clang consensus (objects are memset first, so every byte read is determined); packed + bit-field types excluded (D12b/c)',
 'C05': 'as designed (stack machine with object-value model; static == static local == automatic == compound literal == model == gcc == clang); not generated: flexible array members, wide-character arrays',
 'C06': 'as designed; additionally (clang,gcc) must equal (gcc,gcc) for a signature to count',
 'C07': '11 contexts; `#if` is covered by C10 with the same integer model in preprocessor mode; floating constant expressions added after T2/T3',
 'C08': 'as designed',
 'C09': 'string spacing compared strictly (section 4, C09 **O**); function-like names without parentheses added after seeded change C09-m2',
 'C10': 'as designed; the model predicts the marker sequence of conditional trees exactly (gcc and clang must agree with it)',
 'C11': 'no libFuzzer target for unicode.c: all 1,114,112 code points are enumerated instead',
 'C12': 'as designed; objects are compared after `objcopy -g` (they embed the working directory)',
 'C13': 'token ddmin not built (Hypothesis shrinks the edit list; seeds are 60-line windows); bracket-truncation mutator and generated C09/C10 seeds added after seeded change C13-m1',
 'C14': '6 input kinds (no pre-built .o inputs); bundles of 2-12 drivers; exactness of the output set and link completeness added (section 7)',
 'C15': 'the independent symbol-table model was replaced by comparison with gcc and clang objects (name, kind, size of defined external symbols; set of emitted static inline functions) plus program output in 5 configurations',
 'C16': 'as designed (layers A = ptrace schedules, B = thread stress; the sequential layer is the zero-switch schedule of A); float/double objects added after T30/T31',
 'C17': 'rapidcheck replaced by Hypothesis + native driver (2.2); parser scope tables are exercised only through C03/C15 programs, not by a dedicated history generator',
 'C18': 'as designed',
 'C19': 'as designed; 60 spellings x 9 boundary forms',
 'C20': 'as designed; alloca forms only (no VLA form)',
}


def asbuilt():
    rows = ['| id | module | level | Hypothesis examples quick / thorough | deterministic phases | last committed evidence: evaluations / distinct non-trivial | deviation from section 4 |', '|---|---|---|---|---|---|---|']
    det = {'C01': 'operator x type-pair x value sweep', 'C07': 'negative cases (division by zero in 11 contexts)', 'C08': 'exhaustive specifier sweep', 'C11': 'integer-constant sweep; all code points through unicode.c',
           'C12': 'stage2 == stage3 over the 9 sources', 'C13': 'per-site trigger corpus (97 triggers)', 'C14': 'complete shape x fault enumeration (20,726 quick / all permutations thorough)', 'C16': '23 thread-stress programs',
           'C17': 'libFuzzer campaign (10 s / 300 s)', 'C19': 'adjacency table (25 k cases)'}
    for i in range(1, 21):
        pid = 'C%02d' % i
        c = importlib.import_module('checks.c%02d' % i).CHECK
        try:
            ev = json.load(open(os.path.join(V, 'evidence', pid + '.json')))
            e = '%s: %d / %d' % (ev['tier'], ev['coverage']['evaluations'], ev['coverage']['distinct_nontrivial'])
        except Exception:
            e = '-'
        rows.append('| %s | `checks/c%02d.py` | %s | %d / %d | %s | %s | %s |' % (pid, i, c.level, c.budget('quick'), c.budget('thorough'), det.get(pid, '—'), e, DEV[pid]))
    return '\n'.join(rows)


def seedtable():
    rows = ['| seeded change | what was changed | needs, to manifest | make test with the change | owning check, quick tier |', '|---|---|---|---|---|']
    n = det = 0
    for d in sorted(os.listdir(os.path.join(V, 'seeded'))):
        m = json.load(open(os.path.join(V, 'seeded', d, 'meta.json')))
        db = m.get('detected_by')
        if isinstance(db, dict):
            n += 1; det += bool(db.get('detected'))
            res = ('**VIOLATION**' if db.get('detected') else ('missed' if db.get('detected') is False else 'not run')) + ' (' + db['check'] + ')'
        else:
            res = 'not run yet'
        conf = m.get('confirmed', {}).get('result_at_head') or m.get('confirmed', {}).get('result', '')
        passes = 'passes' if 'make-test-with-patch=0' in conf else conf
        rows.append('| %s | %s | %s | %s | %s |' % (d, m['change'].replace('|', '\\|'), m['needs_to_manifest'].replace('|', '\\|'), passes, res))
    rows.append('')
    rows.append('%d of %d seeded changes run so far are reported by the quick tier of their property.' % (det, n))
    return '\n'.join(rows)


def fixtable():
    sys.path.insert(0, os.path.join(V, 'regress'))
    import defs
    rows = ['| id | found by | what failed | outcome |', '|---|---|---|---|']
    for c, prop, fid, text, repl in defs.FIXED:
        if fid.startswith('T'):
            rows.append('| %s | %s | %s | **fixed** %s |' % (fid, prop, text.replace('|', '\\|'), c))
    first = {'D59', 'D54', 'D17', 'D18', 'D12b', 'D25', 'D27', 'D56', 'D34', 'D58', 'D40', 'D48', 'D45'}   # already in the first table
    for f in json.load(open(os.path.join(V, 'known_findings.json'))):
        if f['line'].startswith('known') and f['id'] not in first:
            rows.append('| %s | %s | %s | **recorded** |' % (f['id'], f['property'], f['line'].split(' ', 3)[3].replace('|', '\\|')))
    return '\n'.join(rows)


p = os.path.join(V, 'DESIGN.md'); s = open(p).read()
for tag, fn in (('ASBUILT', asbuilt), ('SEEDTABLE', seedtable), ('FIXTABLE', fixtable)):
    a = '<!-- %s -->' % tag; b = '<!-- /%s -->' % tag
    if b in s:
        s = s[:s.index(a)] + a + '\n' + fn() + '\n' + b + s[s.index(b) + len(b):]
    elif a in s:
        s = s.replace(a, a + '\n' + fn() + '\n' + b)
open(p, 'w').write(s)
print('DESIGN.md regenerated')
