#!/usr/bin/env python3-vt
"""Regenerate the generated blocks of DESIGN.md: section 4a (as-built table, from the check modules and the committed
evidence) and the seeded-change table of section 7 (from seeded/*/meta.json)."""
import sys, os, json, importlib, re
V = os.path.dirname(os.path.dirname(os.path.abspath(__file__)))
sys.path.insert(0, V)
DEV = {
 'C01': 'as designed; the sweep uses 11 boundary values per type in the quick tier and the full pools in the thorough tier; truth values of narrowing assignments (value zero in the narrow type, non-zero in the register) added after seeded change C01-m1 was missed once; bit-field operands read directly and as the value of =, op=, ++/-- and comma expressions added after T202',
 'C02': 'as designed, without the planned UBSan build of the references (definedness decided exactly by the model); added after the hunter round: FPU-state probes after conversions, static conversions, enum and bit-field operands, hexadecimal floating constants',
 'C03': 'as designed; selection/iteration statement scopes and block-scope function declarations added after T61/T62',
 'C04': 'the Python shadow map was not built: leaf dumps are compared with the gcc == clang consensus (objects are memset first, so every byte read is determined); packed + bit-field types excluded (D12b/c); compound-literal postfix forms, sizeof of compound literals and tagged members added after the first hunter round, parameters of variably modified type (`int a[r][c]`, `int (*p)[c]`) after T177/D77; array variables of at least 16 bytes over every element type and 2-D shapes (the alignment probe had only `char` arrays) after seeded change C04-m5; pointer values stored into union members are small integers, not addresses (section 8)',
 'C05': 'as designed (stack machine with object-value model; static == static local == automatic == compound literal == model == gcc == clang); bit-fields up to 64 bits, nested range designators, wide strings (u/U/L), empty unions added after the hunter round; not generated: flexible array members; an unnamed bit-field directly after a member (15 % of members) after seeded change C05-m5',
 'C06': 'as designed; additionally (clang,gcc) must equal (gcc,gcc) for a signature to count; enum scalars, packed and over-aligned aggregates, padding-only eightbytes, zero-size aggregates (with and without an alignment) and unprototyped first declarations added after T47-T51, T89, T119-T121, T132, T175',
 'C07': '11 contexts; `#if` is covered by C10 with the same integer model in preprocessor mode; floating constant expressions added after T2/T3; an enumerated must-reject set (index, width or alignment of 2^32 + k in 7 contexts, counted only if gcc and clang reject) added after T192',
 'C08': 'as designed; declarations inside member lists that declare a tag and no member (qualified, attributed, forward) added after T152',
 'C09': 'string spacing compared loosely when a `#` operand can hold already-expanded material (section 4, C09 **O**; the strict rule was a false alarm, section 8); function-like names without parentheses added after seeded change C09-m2; escapes in stringized literals, empty object-like macros before `(`, `__VA_OPT__`, comma pastes added after the hunter round; `#__VA_ARGS__` after `__VA_OPT__` in one body after seeded change C09-m5',
 'C10': 'as designed (null directives with junk, `#include_next` chains of 2-3 directories and from the includer directory added after T40-T46, directories named twice and unsuffixed decimal constants above INTMAX_MAX after T170/T172, nested search directories after T211; the marker pattern missed the markers of the #include_next chains themselves until then - they were checked only through the headers they include); the model predicts the marker sequence of conditional trees exactly (gcc and clang must agree with it); guards whose `#ifndef` continues with `#elif`, `#if !defined` guards, guards followed by `#ifdef`, commented guards (15 header shapes) after seeded change C10-m5',
 'C11': 'no libFuzzer target for unicode.c: all 1,114,112 code points are enumerated instead; multi-character constants, pp-numbers with extended characters and floating constants (decimal/hex x suffixes) added after T143, T144 and seeded change C11-m4',
 'C12': 'as designed; objects are compared after `objcopy -g` between stages (they embed the working directory) and unstripped between two runs of one stage; link option sets and constant-expression corner inputs added after T135-T137',
 'C13': 'token ddmin not built (Hypothesis shrinks the edit list; seeds are 60-line windows); bracket-truncation mutator and generated C09/C10 seeds added after seeded change C13-m1; split-line and marker byte edits, arithmetic-corner seeds (INT64_MIN % -1, 64-bit case labels) added after T40/T41 and seeded changes C13-m3/m4; a valid seed made of never-evaluated `#elif`/nested `#if` expressions after seeded change C13-m5',
 'C14': '7 input kinds (incl. a pre-built .o); bundles of 2-12 drivers; exactness of the output set and link completeness added (section 7)',
 'C15': 'the independent symbol-table model was replaced by comparison with gcc and clang objects (name, kind, size of defined external symbols; set of emitted static inline functions) plus program output in 5 configurations; declarations mixing object and function declarators (file and block scope), `extern` after `static`, functions named only in unevaluated operands added after T160-T165',
 'C16': 'as designed (layers A = ptrace schedules, B = thread stress; the sequential layer is the zero-switch schedule of A); float/double objects added after T30/T31; the value returned by atomic_fetch_* is checked since be76dbf, and a ticket-dispenser stress program was added after seeded change C16-m4',
 'C17': 'rapidcheck replaced by Hypothesis + native driver (2.2); parser scope tables have their own history generator (block-scope and prototype-scope declarations over colliding identifiers, model = stack of dicts), added after D77/T131',
 'C18': 'as designed; `.loc` numbering after `#line` must agree with `__LINE__` numbering (added after T128); `__LINE__` in a macro invoked over several lines is not probed: gcc and clang disagree (first vs last line of the invocation)',
 'C19': 'as designed; 72 spellings x 9 boundary forms (numbers ending in `.`, UTF-8 identifiers added after T138 and seeded change C19-m4)',
 'C20': 'as designed; alloca and VLA forms, since round 3 also evaluated while operands of the enclosing expression or call are pending on the stack (5 forms: the pending values must survive the allocation, `rsp` may only go down, by a bounded amount); long double operands pending across 3-12 nested operations and across calls, members of statement expressions added after D45/T145/T146',
}


def asbuilt():
    rows = ['| id | module | level | Hypothesis examples quick / thorough | deterministic phases | last committed evidence: evaluations / distinct non-trivial | deviation from section 4 |', '|---|---|---|---|---|---|---|']
    det = {'C01': 'operator x type-pair x value sweep', 'C07': 'negative cases (division by zero in 11 contexts)', 'C08': 'exhaustive specifier sweep', 'C11': 'integer-constant sweep; all code points through unicode.c',
           'C12': 'stage2 == stage3 over the 9 sources', 'C13': 'per-site trigger corpus (97 triggers)', 'C14': 'complete shape x fault enumeration (20,726 quick / all permutations thorough)', 'C16': '23 thread-stress programs',
           'C17': 'libFuzzer campaign (10 s / 300 s)', 'C19': 'adjacency table (25 k cases)'}
    for i in range(1, 21):
        pid = 'C%02d' % i
        c = importlib.import_module('checks.c%02d' % i).CHECK
        try:
            ev = json.load(open(os.path.join(V, 'evidence', pid + '.json')))
            e = '%s: %d / %d' % (ev['tier'], ev['coverage']['evaluations'], ev['coverage']['distinct_nontrivial'])
        except Exception:
            e = '-'
        rows.append('| %s | `checks/c%02d.py` | %s | %d / %d | %s | %s | %s |' % (pid, i, c.level, c.budget('quick'), c.budget('thorough'), det.get(pid, '—'), e, DEV[pid]))
    return '\n'.join(rows)


def counts():
    import subprocess
    nfix = len([l for l in subprocess.run(['git', '-C', '/repo', 'log', '--format=%s', '659c5ec..HEAD'], capture_output=True, text=True).stdout.split('\n') if l.startswith('fix:')])
    kf = json.load(open(os.path.join(V, 'known_findings.json')))
    known = [f for f in kf if f['line'].startswith('known')]; fixed = [f for f in kf if f['line'].startswith('fixed')]
    nseed = len(os.listdir(os.path.join(V, 'seeded')))
    return ('20 registered checks (`python3-vt run.py Cxx`), %d `fix:` commits in `/repo`, %d recorded findings (%s), %d regression replays of repaired defects, '
            '%d seeded changes written by independent sub-agents, and the false alarms that were corrected in the machinery on the way.'
            % (nfix, len(known), ' '.join(sorted(f['id'] for f in known)), len(fixed), nseed))


def seedtable():
    rows = ['| seeded change | what was changed | needs, to manifest | make test with the change | owning check, quick tier |', '|---|---|---|---|---|']
    n = det = 0
    for d in sorted(os.listdir(os.path.join(V, 'seeded'))):
        m = json.load(open(os.path.join(V, 'seeded', d, 'meta.json')))
        db = m.get('detected_by')
        if isinstance(db, dict):
            n += 1; det += bool(db.get('detected'))
            conf0 = m.get('confirmed', {}).get('result_at_head') or ''
            if m.get('disposition') and not db.get('detected'):
                rows.append('| %s | %s | %s | %s | %s |' % (d, m['change'].replace('|', '\\|'), m['needs_to_manifest'].replace('|', '\\|'), 'passes', 'not reported, by design: ' + m['disposition'])); n -= 1
                continue
            if 'demo-with-patch=0' in conf0 and not db.get('detected'):
                res = 'does not manifest on the current HEAD (its own demonstration passes with the change applied); not counted'
                n -= 1
            else:
                res = ('**VIOLATION**' if db.get('detected') else ('missed' if db.get('detected') is False else 'not run')) + ' (' + db['check'] + ')'
        else:
            res = 'not run yet'
        conf = m.get('confirmed', {}).get('result_at_head') or m.get('confirmed', {}).get('result', '')
        passes = 'passes' if 'make-test-with-patch=0' in conf else conf
        rows.append('| %s | %s | %s | %s | %s |' % (d, m['change'].replace('|', '\\|'), m['needs_to_manifest'].replace('|', '\\|'), passes, res))
    rows.append('')
    rows.append('%d of %d seeded changes run so far are reported by the quick tier of their property.' % (det, n))
    return '\n'.join(rows)


def fixtable():
    sys.path.insert(0, os.path.join(V, 'regress'))
    import defs
    rows = ['| id | found by | what failed | outcome |', '|---|---|---|---|']
    for c, prop, fid, text, repl in defs.FIXED:
        if fid.startswith('T'):
            rows.append('| %s | %s | %s | **fixed** %s |' % (fid, prop, text.replace('|', '\\|'), c))
    first = {'D59', 'D54', 'D17', 'D18', 'D12b', 'D25', 'D27', 'D56', 'D34', 'D58', 'D40', 'D48', 'D45'}   # already in the first table
    for f in json.load(open(os.path.join(V, 'known_findings.json'))):
        if f['line'].startswith('known') and f['id'] not in first:
            rows.append('| %s | %s | %s | **recorded** |' % (f['id'], f['property'], f['line'].split(' ', 3)[3].replace('|', '\\|')))
    return '\n'.join(rows)


p = os.path.join(V, 'DESIGN.md'); s = open(p).read()
for tag, fn in (('COUNTS', counts), ('ASBUILT', asbuilt), ('SEEDTABLE', seedtable), ('FIXTABLE', fixtable)):
    a = '<!-- %s -->' % tag; b = '<!-- /%s -->' % tag
    if b in s:
        s = s[:s.index(a)] + a + '\n' + fn() + '\n' + b + s[s.index(b) + len(b):]
    elif a in s:
        s = s.replace(a, a + '\n' + fn() + '\n' + b)
open(p, 'w').write(s)
print('DESIGN.md regenerated')
