#!/bin/bash
# usage: seedtry.sh <seed-id> <property> [seed]  -- run the quick check of <property> against a scratch copy of /repo with seeded/<seed-id>/patch.diff applied
w=$(mktemp -d /var/tmp/seedtry.XXXXXX)
(cd /repo && git ls-files | tar -c -T - | tar -x -C $w)
(cd $w && patch -p1 -s < /verif/seeded/$1/patch.diff) || { echo APPLY-FAILED; rm -rf $w; exit 2; }
e=$(mktemp -d /var/tmp/seedtry-ev.XXXXXX)
cd /verif && VERIF_REPO=$w VERIF_SEED=${3:-0} python3-vt run.py $2 --tier quick 2>&1 | grep -A3 "^VIOLATION\|quick:" | cut -c1-300 | head -12
rm -rf $w $e
