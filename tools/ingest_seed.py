#!/usr/bin/env python3
"""usage: ingest_seed.py <delivered-dir> <seed-id> <property>
Copies a sub-agent's delivery (patch.diff, demo.sh, README.md, demo sources) to seeded/<seed-id>/, confirms it with
tools/confirm_seed.sh on scratch copies of /repo HEAD and writes meta.json.  Nothing is applied to /repo."""
import os, sys, json, shutil, subprocess
src, sid, prop = sys.argv[1:4]
V = '/verif'
d = os.path.join(V, 'seeded', sid)
os.makedirs(d, exist_ok=True)
for f in os.listdir(src):
    if f == 'property.json': continue
    p = os.path.join(src, f)
    if os.path.isdir(p): shutil.copytree(p, os.path.join(d, f), dirs_exist_ok=True)
    else: shutil.copy2(p, os.path.join(d, f))
conf = subprocess.run([os.path.join(V, 'tools', 'confirm_seed.sh'), d], capture_output=True, text=True).stdout.strip()
head = subprocess.run(['git', '-C', '/repo', 'rev-parse', '--short', 'HEAD'], capture_output=True, text=True).stdout.strip()
readme = open(os.path.join(d, 'README.md')).read() if os.path.exists(os.path.join(d, 'README.md')) else ''
meta = {'id': sid, 'property': prop, 'change': '', 'needs_to_manifest': '',
        'origin': 'round 3: written by a fresh sub-agent that saw only the property record and a scratch worktree of /repo (nothing from /verif)',
        'confirmed': {'how': 'tools/confirm_seed.sh <dir>: scratch copies of /repo HEAD; patched tree builds, `make test` passes, demo.sh exits non-zero; clean tree: demo.sh exits 0',
                      'result': conf.split(' ', 1)[1] if ' ' in conf else conf, 'repo_head_when_written': head}}
mp = os.path.join(d, 'meta.json')
if os.path.exists(mp):
    old = json.load(open(mp)); meta['change'] = old.get('change', ''); meta['needs_to_manifest'] = old.get('needs_to_manifest', '')
json.dump(meta, open(mp, 'w'), indent=1)
print(conf)
