#!/bin/bash
# run every registered quick (or $1=thorough) command once; print status, time
tier=${1:-quick}
cd /verif
for p in C01 C02 C03 C04 C05 C06 C07 C08 C09 C10 C11 C12 C13 C14 C15 C16 C17 C18 C19 C20; do
  s=$(date +%s)
  out=$(python3-vt run.py $p --tier $tier 2>&1); rc=$?
  e=$(date +%s)
  echo "$p rc=$rc $((e-s))s :: $(echo "$out" | grep -a -E "^$p " | tail -1)"
  echo "$out" | grep -a -E "^VIOLATION|HARNESS" | head -3
done
