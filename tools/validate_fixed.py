#!/usr/bin/env python3
"""For every 'fixed:' entry: the replay must report a violation on the parent of the fix commit and pass on the commit
itself (scratch exports under /var/tmp, removed afterwards).  usage: validate_fixed.py [id ...]"""
import sys, os, json, subprocess, shutil, tempfile
from concurrent.futures import ThreadPoolExecutor
V = os.path.dirname(os.path.dirname(os.path.abspath(__file__)))
fs = [f for f in json.load(open(os.path.join(V, 'known_findings.json'))) if f['line'].startswith('fixed:')]
if len(sys.argv) > 1:
    fs = [f for f in fs if f['id'] in sys.argv[1:] or f['commit'] in sys.argv[1:]]


def at(rev, f):
    d = tempfile.mkdtemp(prefix='vfix.', dir='/var/tmp')
    try:
        subprocess.run('git -C /repo archive %s | tar -x -C %s' % (rev, d), shell=True, check=True)
        r = subprocess.run(['python3-vt', os.path.join(V, 'run.py'), '--replay', os.path.join(V, f['replay'])], env=dict(os.environ, VERIF_REPO=d), capture_output=True, text=True, errors='replace', cwd=V)
        return ('VIOLATION property=' in r.stdout), (r.stdout.strip().split('\n') or [''])[0][:230], r.returncode
    finally:
        shutil.rmtree(d, ignore_errors=True)


def job(f):
    a = at(f['commit'] + '^', f); b = at(f['commit'], f); c = at('HEAD', f)
    ok = a[0] and not b[0] and not c[0] and b[2] == 0 and c[2] == 0
    return '%-4s %s %-4s %s parent:%s fix:%s head:%s\n      parent: %s\n      fix:    %s' % ('ok' if ok else 'FAIL', f['property'], f['id'], f['commit'], 'viol' if a[0] else 'pass', 'viol' if b[0] else 'pass', 'viol' if c[0] else 'pass', a[1], b[1])


with ThreadPoolExecutor(6) as ex:
    for line in ex.map(job, fs):
        print(line, flush=True)
