#!/usr/bin/env python3
"""For every seeded change under /verif/seeded: confirm it on the current /repo HEAD (scratch copies only) and run the quick
check of its property against the patched tree.  Updates seeded/<id>/meta.json and prints a table."""
import os, sys, json, subprocess, shutil, tempfile, re
V = '/verif'
ids = sorted(os.listdir(os.path.join(V, 'seeded')))
if len(sys.argv) > 1:
    ids = [i for i in ids if i in sys.argv[1:] or i.split('-')[0] in sys.argv[1:]]
head = subprocess.run(['git', '-C', '/repo', 'rev-parse', '--short', 'HEAD'], capture_output=True, text=True).stdout.strip()
for i in ids:
    d = os.path.join(V, 'seeded', i)
    meta = json.load(open(os.path.join(d, 'meta.json')))
    prop = meta['property']
    conf = subprocess.run([os.path.join(V, 'tools', 'confirm_seed.sh'), d], capture_output=True, text=True).stdout.strip()
    w = tempfile.mkdtemp(prefix='seedrun.', dir='/var/tmp')
    subprocess.run('cd /repo && git ls-files | tar -c -T - | tar -x -C %s' % w, shell=True)
    ok = subprocess.run('cd %s && patch -p1 -s < %s/patch.diff' % (w, d), shell=True).returncode == 0
    detected = None; line = ''
    if ok:
        env = dict(os.environ, VERIF_REPO=w)
        r = subprocess.run(['python3-vt', 'run.py', prop, '--tier', 'quick'], cwd=V, env=env, capture_output=True, text=True, errors='replace')
        nv = len(re.findall(r'^VIOLATION property=', r.stdout, re.M))
        detected = nv > 0
        m = re.search(r'^VIOLATION.*\n(.*)', r.stdout, re.M)
        line = (m.group(1).strip()[:200] if m else '')
    shutil.rmtree(w, ignore_errors=True)
    meta['confirmed']['result_at_head'] = conf; meta['confirmed']['repo_head'] = head
    meta['detected_by'] = {'check': prop + ' quick', 'detected': detected, 'first_report': line, 'repo_head': head}
    if os.path.exists(os.path.join(d, 'patch.orig.diff')):
        meta['rebased'] = 'patch.diff is the change re-applied by hand to the current /repo HEAD (later fix: commits touched the same lines); patch.orig.diff is what the sub-agent delivered'
    json.dump(meta, open(os.path.join(d, 'meta.json'), 'w'), indent=1)
    print('%-8s %-70s detected=%s' % (i, conf[len(i):].strip() if conf.startswith(i) else conf, detected), flush=True)
