#!/usr/bin/env python3
"""Add a recorded finding (or a fixed-defect regression) to known_findings.json.
usage: mkfinding.py <prop> <id> known|fixed <replay-kind> <source-file> <text...>     (commit for fixed goes first in text)"""
import sys, json, os
V = os.path.dirname(os.path.dirname(os.path.abspath(__file__)))
prop, fid, status, kind, srcf = sys.argv[1:6]
text = ' '.join(sys.argv[6:])
rep = {'property': prop, 'kind': kind, 'source': open(srcf).read(), 'extra': [], 'chi_extra': [], 'finding': fid}
rp = 'findings/%s-%s.json' % (prop, fid)
json.dump(rep, open(os.path.join(V, rp), 'w'), indent=1)
kf = os.path.join(V, 'known_findings.json')
fs = json.load(open(kf)) if os.path.exists(kf) else []
fs = [f for f in fs if not (f['property'] == prop and f['id'] == fid)]
fs.append({'line': '%s: property=%s %s %s' % (status, prop, fid, text), 'property': prop, 'id': fid, 'replay': rp})
fs.sort(key=lambda f: (f['property'], f['id']))
json.dump(fs, open(kf, 'w'), indent=1)
print('recorded', prop, fid, status)
